"""C16 witness: ExternalModule leaves below the top flatten; ':'-name collisions are rejected, not merged."""
import hdl21 as h
from hdl21.flatten import flatten

E = h.ExternalModule(name="E", port_list=[h.Port(name="a"), h.Port(name="b")], paramtype=dict)

@h.module
class Mid:
    p = h.Port()
    x = h.Signal()
    e = E({})(a=p, b=x)
    e2 = E({})(a=x, b=p)

@h.module
class Top:
    t = h.Port()
    m = Mid(p=t)

f = flatten(Top)
print(sorted(f.instances), sorted(f.signals))
assert sorted(f.instances) == ["m:e", "m:e2"]

# a designer signal named like a generated path name
top2 = h.Module(name="Top2")
top2.t = h.Port()
top2.add(h.Signal(name="m:x"))
top2.m = Mid(p=top2.t)
top2.e3 = E({})(a=top2.get("m:x"), b=top2.t)
try:
    f2 = flatten(top2)
except Exception as e:
    print("rejected:", type(e).__name__, str(e)[:70])
else:
    nets = {i: {k: v.name for k, v in inst.conns.items()} for i, inst in f2.instances.items()}
    print(nets)
    raise AssertionError("designer net `m:x` was merged with the internal net x of instance m")
print("OK")
