# Reproducer for a defect repaired in /repo (property C09): see known_findings.txt.
# Before: the naming encoder left Prefixed and Decimal values to the default JSON encoder.
#  - Decimal("0.1000000000000000001") and Decimal("0.1") (unequal: two Modules) went through float and got ONE md5 name;
#  - 1000*m and 1*UNIT (equal: one cached Module) were encoded as (number, prefix): the name of that Module was the one of
#    whichever spelling was called first.
# After: unequal values give different names, equal values one name, in either call order.
import sys
from decimal import Decimal
import hdl21 as h


@h.paramclass
class P:
    v = h.Param(dtype=Decimal, desc="v")


@h.generator
def G(p: P) -> h.Module:
    m = h.Module()
    m.s = h.Signal()
    return m


@h.paramclass
class Q:
    w = h.Param(dtype=h.Prefixed, desc="w")


def names(first, second):
    @h.generator
    def F(p: Q) -> h.Module:
        m = h.Module()
        m.s = h.Signal()
        return m

    return F(Q(w=first)).name, F(Q(w=second)).name


a = G(P(v=Decimal("0.1000000000000000001")))
b = G(P(v=Decimal("0.1")))
print("unequal Decimals:", a is b, a.name, b.name)
n1 = names(1000 * h.prefix.m, 1 * h.prefix.UNIT)
n2 = names(1 * h.prefix.UNIT, 1000 * h.prefix.m)
print("equal Prefixed, either order:", n1, n2)
ok = (a is not b and a.name != b.name) and len({*n1, *n2}) == 1
sys.exit(0 if ok else 1)
