import hdl21 as h
m = h.Module(name="M")
s = h.Signal()
m.a = s
m.b = s
print("signals:", {k: v.name for k, v in m.signals.items()}, "namespace:", {k: v.name for k, v in m.namespace.items()})
try:
    pkg = h.to_proto(m)
    print("exported signals:", [x.name for x in pkg.modules[0].signals])
except Exception as e:
    print("refused:", type(e).__name__, str(e)[:120])
