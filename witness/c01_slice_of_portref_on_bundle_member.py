# Reproducer for a defect repaired in /repo (properties C01 / C03): see known_findings.txt.
# Before: a slice (or concatenation) of a port reference whose port is wired to a bundle member was refused with
# "TypeError: Invalid attempt to resolve slicing on Slice(parent=BundleRef(..))": when the port reference resolved to the
# bundle reference, the slice was re-parented onto it without being entered among *its* dependents, so the later
# resolution of the bundle reference never reached the slice.
# After: both designs export; b.q is bits 1..3 of the flattened member, c.r the member beside s.
import sys
import hdl21 as h


@h.bundle
class Bu:
    x = h.Signal(width=4)


@h.module
class A:
    p = h.Input(width=4)


@h.module
class B:
    q = h.Input(width=3)


@h.module
class C:
    r = h.Input(width=5)


def sliced():
    @h.module
    class P:
        bu = Bu()
        a = A(p=bu.x)
        b = B(q=a.p[1:4])

    return P


def concatenated():
    @h.module
    class Q:
        bu = Bu()
        s = h.Signal()
        a = A(p=bu.x)
        c = C(r=h.Concat(a.p, s))

    return Q


bad = 0
for f in (sliced, concatenated):
    try:
        m = h.to_proto(f()).modules[-1]
        print(f.__name__, "ok:", [(i.name, [(c.portname, " ".join(str(c.target).split())) for c in i.connections]) for i in m.instances])
    except Exception as e:
        bad += 1
        print(f.__name__, type(e).__name__, str(e).strip().splitlines()[-1][:110])
sys.exit(1 if bad else 0)
