# Reproducer for a defect repaired in /repo (properties C07 / C19): see known_findings.txt.
# Before: `Wrapper(Bot)` and `Series(unit=Bot, ..)` cloned the ports `Bot` has *now*: once `Bot` had been elaborated
# (alone, or as part of any other design) these are its flattened ports, and the wrapper was refused with
# "Missing connection to Port `ab` / Connection to non-existent Port `ab_a`".  The same call before elaboration worked.
# After: both orders give the same package.
import sys
import hdl21 as h
from hdl21.generators import Wrapper, Series


def build():
    @h.bundle
    class AB:
        a = h.Signal()
        b = h.Signal()

    @h.module
    class Bot:
        ab = AB(port=True)
        x = h.Input()
        y = h.Output()

    return Bot


def run(elab_first: bool, how: str):
    Bot = build()
    if elab_first:
        h.elaborate(Bot)
    top = Wrapper(Bot) if how == "wrapper" else Series(unit=Bot, nser=2, conns=("x", "y"))
    pkg = h.to_proto(top)
    return pkg.SerializeToString(deterministic=True)


bad = 0
for how in ("wrapper", "series"):
    try:
        a = run(False, how)
        b = run(True, how)
        same = a == b
        print(how, "same package either way:", same)
        bad += not same
    except Exception as e:
        bad += 1
        print(how, type(e).__name__, str(e).strip().splitlines()[-1][:140])
sys.exit(1 if bad else 0)
