"""C18 witness: re-using a name for another kind of object, reserved names, deletion."""
import hdl21 as h

@h.module
class Leaf:
    p = h.Port()

def views(m):
    return {k: sorted(getattr(m, k)) for k in ("ports", "signals", "instances", "instarrays", "instbundles", "bundles")}

m = h.Module(name="M")
m.a = h.Signal()
m.a = Leaf()            # re-use the name for an instance
v = views(m)
print(v)
assert v["signals"] == [] and v["instances"] == ["a"], "signal `a` is still in the signals view"
assert m.get("a") is m.a is m.instances["a"]
m.b = h.Port()
m.b = h.Signal()
assert views(m)["ports"] == [] and views(m)["signals"] == ["b"]

@h.bundle
class B:
    x = h.Signal()
b = h.Bundle(name="BB")
b.s = h.Signal()
@h.bundle
class Sub:
    y = h.Signal()
b.s = Sub()
assert sorted(b.signals) == [] and sorted(b.bundles) == ["s"], (sorted(b.signals), sorted(b.bundles))

def rejected(fn, label):
    try:
        fn()
    except Exception as e:
        print(f"{label}: rejected ({type(e).__name__})")
        return True
    print(f"{label}: ACCEPTED")
    return False

ok = [
    rejected(lambda: setattr(h.Module(name="R"), "bundle_ports", h.Signal()), "Module.bundle_ports = Signal"),
    rejected(lambda: setattr(h.Bundle(name="R"), "props", h.Signal()), "Bundle.props = Signal"),
    rejected(lambda: setattr(h.Bundle(name="R"), "add", h.Signal()), "Bundle.add = Signal"),
    rejected(lambda: setattr(h.Bundle(name="R"), "get", h.Signal()), "Bundle.get = Signal"),
    rejected(lambda: setattr(h.Bundle(name="R"), "Roles", h.Signal()), "Bundle.Roles = Signal"),
    rejected(lambda: delattr(b, "name"), "del Bundle.name"),
]
assert all(ok)
print("OK")
