# Witness for a KNOWN FINDING (properties C02 / C06, rule checked-then-editable): see known_findings.txt and DESIGN.md.
# A design with one unnamed module fails in the last pass (MarkModules).  Its healthy sibling `Sib` has by then passed every
# check, is remembered as checked in the done-sets of the checking passes, but is not yet marked elaborated — so it still
# accepts additions.  A width-mismatched instance added now is never checked: to_proto returns a package in which a
# 3-bit signal drives a 1-bit port.  Exit status 1 while the defect is present.
import sys
import hdl21 as h

@h.module
class Leaf:
    a = h.Input(width=1)

@h.module
class Sib:
    s = h.Signal(width=1)
    l = Leaf(a=s)

anon = h.Module()           # anonymous: MarkModules fails on it
anon.x = h.Signal()

top = h.Module(name="Top")
top.an0 = anon()
top.sib = Sib()
top.an = anon()
try:
    h.elaborate(top)
except Exception as e:
    print("first:", type(e).__name__, str(e).splitlines()[-1][:80])
print("Sib._elaborated:", Sib._elaborated)
# edit the sibling: a width mismatch
Sib.w = h.Signal(width=3)
Sib.l2 = Leaf(a=Sib.w)
try:
    pkg = h.to_proto(Sib)
    bad = True
    print("EXPORTED", [(i.name, [(c.portname, c.target.WhichOneof('stype'), c.target.sig) for c in i.connections]) for i in pkg.modules[-1].instances])
except Exception as e:
    bad = False
    print("second:", type(e).__name__, str(e).splitlines()[-1][:100])

sys.exit(1 if bad else 0)
