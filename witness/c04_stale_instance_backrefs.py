# Reproducer for a defect repaired in /repo (properties C04 / C01): see known_findings.txt.
# Before: both designs were refused with "Invalid multiply-connected `NoConn`": the port reference `j.b` still listed
# the port of an instance that is no longer in the module (replaced by name / consumed by `2 * x`) as connected to it.
# After: both elaborate; `j.b` ends on a private net.
import hdl21 as h


@h.module
class Inner:
    a = h.Input()
    b = h.Output()


def replaced_by_name():
    top = h.Module(name="TopB")
    top.s = h.Signal()
    top.j = Inner()
    top.i = Inner(a=top.j.b)
    top.i = Inner(a=top.s, b=h.NoConn())  # the first `i` is replaced
    top.j.a = top.s
    top.j.b = h.NoConn()
    return top


def consumed_by_array():
    top = h.Module(name="TopA")
    top.s = h.Signal(width=1)
    top.j = Inner(a=top.s)
    x = Inner(a=top.j.b, b=h.NoConn())
    top.arr = 2 * x
    top.arr.a = h.Concat(top.s, top.s)
    top.arr.b = h.NoConn()
    top.j.b = h.NoConn()
    return top


for f in (replaced_by_name, consumed_by_array):
    try:
        m = h.elaborate(f())
        nets = {}
        for inst in m.instances.values():
            for pn, c in inst.conns.items():
                nets.setdefault(getattr(c, "name", str(c)), []).append(f"{inst.name}.{pn}")
        print(f.__name__, "ok:", nets)
    except Exception as e:
        print(f.__name__, type(e).__name__, str(e).strip().splitlines()[-1][:100])
