"""C01 witness: a NoConn on an instance array must give every element its own private net."""
import io
import hdl21 as h

@h.module
class Inner:
    a = h.Port()
    b = h.Port()

@h.module
class Top:
    s = h.Signal()
    arr = 2 * Inner(a=h.NoConn(), b=s)

pkg = h.to_proto(Top)
top = [m for m in pkg.modules if m.name.endswith("Top")][0]
nets = {}
for i in top.instances:
    for c in i.connections:
        t = c.target
        k = t.WhichOneof("stype")
        nets[(i.name, c.portname)] = (t.sig,) if k == "sig" else (t.slice.signal, t.slice.bot, t.slice.top)
print(nets)
assert nets[("arr_0", "a")] != nets[("arr_1", "a")], "the two no-connected ports share one net"
print("OK")
