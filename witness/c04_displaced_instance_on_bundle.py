# Reproducer for a defect repaired in /repo (properties C04 / C07): see known_findings.txt.
# Before: an instance connected to a bundle (or to a bundle member) and then displaced by another instance of its name stayed
# in the bundle's list of connected ports; bundle flattening re-connected it — against a module that was never elaborated —
# and the valid design was refused: "Invalid Port Connection to bp on Instance i of A".
# After: only the instance the module holds is connected, to the flattened signals.
import sys
import hdl21 as h


@h.bundle
class Inner:
    x = h.Signal()


@h.bundle
class B:
    sub = Inner()
    y = h.Signal()


@h.module
class A:
    bp = B(port=True)
    ip = Inner(port=True)


@h.module
class A2:
    bp2 = B(port=True)
    ip2 = Inner(port=True)


def build():
    m = h.Module(name="M")
    m.b = B()
    m.i = A(bp=m.b, ip=m.b.sub)
    m.i = A2(bp2=m.b, ip2=m.b.sub)  # the first `i` is displaced
    return m


try:
    mod = h.to_proto(build()).modules[-1]
    got = [(i.name, i.module.local.split(".")[-1], sorted((c.portname, c.target.sig) for c in i.connections)) for i in mod.instances]
    print("ok:", got)
    sys.exit(0 if got == [("i", "A2", [("bp2_sub_x", "b_sub_x"), ("bp2_y", "b_y"), ("ip2_x", "b_sub_x")])] else 1)
except Exception as e:
    print(type(e).__name__, str(e).strip().splitlines()[-1][:140])
    sys.exit(1)
