"""C14 witness: comparisons are total, eq/hash agree, int()/float() are the integer part / nearest float."""
from decimal import Decimal
import hdl21 as h
from hdl21.prefix import *
from hdl21.prefix import UNIT, m, n, K, y, Y

a, b = 1000 * m, 1 * UNIT
assert a == b
assert hash(a) == hash(b), "equal values hash differently"
assert (1 * UNIT > 1 * n) is True            # raised InvalidOperation on the pinned tree
assert (1 * Y > 1 * y) and (1 * y < 1 * Y) and (1 * y != 1 * Y)
assert int(1500 * m) == 1 and isinstance(int(1500 * m), int)
assert int(2 * K) == 2000
assert float(3 * n) == 3e-9, float(3 * n)
x, z = 5 * m, 5001 * h.prefix.µ
assert (x < z) and not (x > z) and not (x == z) and (x <= z) and (x != z) and not (x >= z)
print("OK")
