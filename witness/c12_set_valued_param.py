import sys, os, subprocess, hashlib
CHILD = r'''
import hdl21 as h, sys
from typing import FrozenSet, Any, Dict
@h.paramclass
class P:
    names = h.Param(dtype=FrozenSet[str], desc="names")
@h.generator
def G(p: P) -> h.Module:
    m = h.Module()
    for n in sorted(p.names):
        m.add(h.Inout(name=n))
    return m
m = h.elaborate(G(P(names=frozenset(["alpha","beta","gamma","delta","eps"]))))
print(m.name)
'''
outs = {}
for seed in range(6):
    env = dict(os.environ, PYTHONHASHSEED=str(seed))
    r = subprocess.run([sys.executable, "-c", CHILD], env=env, capture_output=True, text=True, cwd="/repo")
    if r.returncode: print(r.stderr[-2000:]); sys.exit(2)
    outs.setdefault(r.stdout, []).append(seed)
print(outs)
