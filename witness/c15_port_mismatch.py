"""C15 witness (KNOWN FINDING, not repaired): a generic primitive compiled to a PDK device with other ports.
Exits 0 and prints what happens; documents genuineness of the 66 known port-incompatible pairs."""
import sys
sys.path[:0] = ["/repo/pdks/Sky130", "/repo/pdks/Gf180"]
import hdl21 as h
import sky130_hdl21

@h.module
class M:
    a, b = h.Signals(2)
    r = h.PhysicalResistor(model="GEN_ND")(p=a, n=b)      # Sky130 GEN_ND is a three-terminal device (p, n, b)

sky130_hdl21.compile(M)
of = M.r.of
print("compiled to", of.module.name, "ports", list(of.module.ports), "connections", list(M.r.conns))
missing = set(of.module.ports) - set(M.r.conns)
print("unconnected device ports:", sorted(missing))
assert missing == {"b"}
try:
    h.to_proto(M)
    print("to_proto: exported")
except Exception as e:
    print("to_proto raised:", type(e).__name__)
print("GENUINE (known finding)")
