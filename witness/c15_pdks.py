"""C15 witness: registry API, Gf180 documented selection, descriptive errors, Gf180 BJT cache, Asap7 names."""
import sys
sys.path[:0] = ["/repo/pdks/Sky130", "/repo/pdks/Gf180", "/repo/pdks/Asap7"]
import hdl21 as h
import hdl21.pdk.sample_pdk as sample_pdk

@h.module
class M:
    d, g, s, b = h.Signals(4)
    m = h.Mos(tp=h.MosType.NMOS)(d=d, g=g, s=s, b=b)

h.pdk.compile(M, pdk=sample_pdk.pdk if hasattr(sample_pdk, "pdk") else sample_pdk)   # by module: AttributeError on the pinned tree
print("compile(pdk=module) ok:", type(M.m.of).__name__)

import gf180_hdl21, sky130_hdl21, asap7_hdl21
from gf180_hdl21.pdk_logic import Gf180Walker
from sky130_hdl21.pdk_logic import Sky130Walker
w = Gf180Walker()
mod = w.mos_module(h.MosParams(tp=h.MosType.NMOS, family=h.MosFamily.CORE))
print("gf180 NMOS/CORE ->", mod.name)
assert mod.name == "nfet_03v3"
for W, kw in ((Gf180Walker, dict(tp=h.MosType.PMOS, family=h.MosFamily.RF)), (Sky130Walker, dict(tp=h.MosType.PMOS, family=h.MosFamily.RF, vth=h.MosVth.ULTRA_LOW))):
    try:
        W().mos_module(h.MosParams(**kw))
    except RuntimeError as e:
        print(W.__name__, "no match ->", str(e)[:60])
    except StopIteration:
        raise AssertionError(f"{W.__name__}: bare StopIteration instead of a descriptive error")
# Gf180: a diode and a BJT with equal parameter *objects* must not share a cache entry
from gf180_hdl21.primitives.prim_dicts import CACHE
import inspect
src = inspect.getsource(Gf180Walker.bjt_module_call)
p = h.BipolarParams(model="PNP_10p0x0p42")
c1 = w.bjt_module_call(p); c2 = w.bjt_module_call(p)
assert c1 is c2, "equal BJT parameters gave two device calls (cache written but never read)"
names = sorted(n for n in vars(asap7_hdl21.pdk.modules) )
print(names[:4])
assert all("MosType" not in n for n in names), names
print("OK")
