import sys, os, subprocess, hashlib
CHILD = r'''
import hdl21 as h, sys
@h.module
class Y:
    w = h.Inout()
@h.module
class A:
    p, q, r, s = h.Inouts(4)
@h.module
class Top:
    z = Y()
    y = Y(w=z.w)
    z.w = y.w
    a = A(p=z.w, q=z.w, r=z.w, s=z.w)
pkg = h.to_proto(Top)
sys.stdout.write(pkg.SerializeToString(deterministic=True).hex() + "\n")
import io
for fmt in ["spice", "spectre", "verilog"]:
    s = io.StringIO(); h.netlist(Top, s, fmt=fmt); sys.stdout.write(s.getvalue())
'''
outs = {}
for seed in range(12):
    env = dict(os.environ, PYTHONHASHSEED=str(seed))
    r = subprocess.run([sys.executable, "-c", CHILD], env=env, capture_output=True, text=True, cwd="/repo")
    if r.returncode: print(r.stderr[-2000:]); sys.exit(2)
    outs.setdefault(hashlib.md5(r.stdout.encode()).hexdigest(), []).append(seed)
print(outs)
print(r.stdout[-600:])
