# Reproducer for the defect fixed by /repo commit (property C08): see known_findings.txt.
# Before the fix: attempt 1 raises TypeError (un-nameable parameter), attempt 2 *returns* module `Shared`.
# After the fix: both attempts raise the same TypeError.
import hdl21 as h
from typing import Any

shared = h.Module(name="Shared")


class Weird:
    pass


@h.paramclass
class P:
    x = h.Param(dtype=Any, desc="cannot be named", default=None)


@h.generator(enable_cache=False)
def G(p: P) -> h.Module:
    return shared


for attempt in (1, 2):
    try:
        m = G(P(x=Weird()))
        print(attempt, "returned", m.name)
    except Exception as e:
        print(attempt, type(e).__name__, str(e)[:80])
