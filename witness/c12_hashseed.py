"""C12 witness: connection order in the package must not depend on PYTHONHASHSEED."""
import os, subprocess, sys
PROG = r'''
import hdl21 as h
@h.bundle
class B:
    x = h.Signal()
@h.module
class Inner:
    p0 = B(port=True); p1 = B(port=True); p2 = B(port=True); p3 = B(port=True)
@h.module
class Top:
    b = B()
    i = Inner(p0=b, p1=b, p2=b, p3=b)
pkg = h.to_proto(Top)
top = [m for m in pkg.modules if m.name.endswith("Top")][0]
print([c.portname for c in top.instances[0].connections])
import hashlib; print(hashlib.md5(pkg.SerializeToString(deterministic=True)).hexdigest())
'''
outs = set()
for seed in range(1, 9):
    env = dict(os.environ, PYTHONHASHSEED=str(seed))
    r = subprocess.run([sys.executable, "-c", PROG], capture_output=True, text=True, env=env, cwd="/repo")
    outs.add(r.stdout.strip())
for o in outs: print(o)
assert len(outs) == 1, f"{len(outs)} different packages for 8 hash seeds"
print("OK")
