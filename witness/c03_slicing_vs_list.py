"""C03/C01 witness: indices, slices and nested resolution agree with Python list semantics.
Exhaustive for parent widths <= 4, depth <= 2, on Signals and Concats."""
import itertools, sys
import hdl21 as h
from hdl21.elab.passes.slices import _resolve_sliceable
from hdl21.elab.helpers.width import width

def bits_of(x):
    """Expand a resolved connectable into a list of (signal name, bit)."""
    if isinstance(x, h.Signal):
        return [(x.name, k) for k in range(x.width)]
    if isinstance(x, h.Concat):
        out = []
        for p in x.parts:
            out += bits_of(p)
        return out
    if isinstance(x, h.Slice):
        pb = bits_of(x.parent)
        if x.step > 0:
            idx = list(range(x.bot, x.top, x.step))
        else:
            idx = list(range(x.top - 1, x.bot - 1, x.step))
        return [pb[i] for i in idx]
    raise TypeError(x)

def indices(w):
    vals = [None] + list(range(-2 * w, 2 * w + 1))
    steps = [None] + [s for s in range(-w, w + 1) if s != 0]
    for i in range(-2 * w, 2 * w + 1):
        yield i
    for a, b, s in itertools.product(vals, vals, steps):
        yield slice(a, b, s)

def apply(obj, ref, idx):
    """Returns (new obj, new ref) or ('error', 'error')."""
    try:
        r = ref[idx]
        if isinstance(idx, slice):
            if len(r) == 0:
                r = None
        else:
            r = [r]
    except (IndexError, ValueError):
        r = None
    try:
        o = obj[idx]
        _ = o.width  # force evaluation
    except (ValueError, IndexError):
        o = None
    return o, r

bad = n = 0
def check(o, r, desc):
    global bad, n
    n += 1
    if (o is None) != (r is None):
        bad += 1
        if bad < 10: print("MISMATCH accept/reject", desc, "hdl21:", o, "python:", r)
        return False
    if o is None:
        return False
    if width(o) != len(r):
        bad += 1
        if bad < 10: print("MISMATCH width", desc, width(o), len(r))
        return False
    got = bits_of(_resolve_sliceable(o))
    if got != r or bits_of(o) != r:
        bad += 1
        if bad < 10: print("MISMATCH bits", desc, got, r)
        return False
    return True

for w in (1, 2, 3, 4):
    a = h.Signal(name="a", width=w)
    b = h.Signal(name="b", width=2)
    bases = [(a, bits_of(a), "a"), (h.Concat(a, b), bits_of(a) + bits_of(b), "Concat(a,b)")]
    for base, ref, bdesc in bases:
        for i1 in indices(len(ref)):
            o1, r1 = apply(base, ref, i1)
            if not check(o1, r1, f"w={w} {bdesc}[{i1}]"):
                continue
            if len(r1) > 3:
                continue
            for i2 in indices(len(r1)):
                o2, r2 = apply(o1, r1, i2)
                check(o2, r2, f"w={w} {bdesc}[{i1}][{i2}]")
print(f"{n} cases, {bad} mismatches")
sys.exit(1 if bad else 0)
