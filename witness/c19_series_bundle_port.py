import hdl21 as h
@h.bundle
class B:
    x, y = h.Signals(2)
@h.module
class U:
    a, z = h.Ports(2)
    b = B(port=True)
    bus = h.Port(width=3)
try:
    s = h.generators.Series(unit=U, nser=3, conns=("a", "z"))
    h.elaborate(s)
    print("ports:", sorted(s.ports))
    for i in s.instances.values():
        print(i.name, {k: (v.name if hasattr(v, "name") else str(v)[:40]) for k, v in i.conns.items()})
except Exception as e:
    print("raised:", type(e).__name__, str(e)[:300])
