# Reproducer for a defect repaired in /repo (properties C07 / C18): see known_findings.txt.
# Before: the refused `M.foo = M.x` left signal x named `foo`; the second package differs from the first.
# After: x keeps its name, the packages are equal.
import hdl21 as h

@h.module
class M:
    x = h.Signal()
    p = h.Input()

h.elaborate(M)
pkg1 = h.to_proto(M)
try:
    M.foo = M.x
except RuntimeError as e:
    print("refused:", str(e)[:70])
print("x is now named:", M.x.name if "x" in M.namespace else None, "| namespace keys:", list(M.namespace), "| signals:", {k: v.name for k, v in M.signals.items()})
pkg2 = h.to_proto(M)
print("packages equal:", pkg1 == pkg2, [s.name for s in pkg2.modules[0].signals])
