"""C08 witness: retry after a failed elaboration reports the original error; generator body raising is re-run."""
import hdl21 as h

@h.module
class Inner:
    a = h.Port(width=2)

@h.module
class Bad:
    s = h.Signal(width=3)
    i = Inner(a=s)   # width mismatch -> ConnTypes fails

errs = []
for _ in range(2):
    try:
        h.elaborate(Bad)
    except Exception as e:
        errs.append(str(e).splitlines()[-1][:80])
print("module retry:", errs)
assert "circular" not in errs[1], errs
assert errs[0] == errs[1]

calls = []
@h.generator
def G(p: h.HasNoParams) -> h.Module:
    calls.append(1)
    if len(calls) == 1:
        raise ValueError("boom")
    return h.Module()

for _ in range(2):
    try:
        m = G()
        print("generator second call ok", m.name)
    except Exception as e:
        print("generator raised:", type(e).__name__, str(e)[:60])
        assert "circular" not in str(e)
assert len(calls) == 2
print("OK")
