# Reproducer for a defect repaired in /repo (properties C10 / C01): see known_findings.txt.
# Before: an anonymous-bundle member given as a port reference whose port is wired to a bundle member was refused with
# "TypeError: Invalid AnonBundle attribute BundleRef(..)": the port reference had resolved to a bundle reference, which
# the flattener looked up once and then did not resolve itself.
# After: hs.bb_x is on the flattened member bu_x, hs.bb_y on bu_y.
import sys
import hdl21 as h


@h.bundle
class Bu:
    x = h.Signal(width=2)
    y = h.Signal(width=2)


@h.module
class A:
    p = h.Input(width=2)


@h.module
class Has:
    bb = Bu(port=True)


@h.module
class P:
    bu = Bu()
    a = A(p=bu.x)
    hs = Has(bb=h.AnonymousBundle(x=a.p, y=bu.y))


try:
    m = h.to_proto(P).modules[-1]
    got = {i.name: {c.portname: c.target.sig for c in i.connections} for i in m.instances}
    print("ok:", got)
    sys.exit(0 if got["hs"] == {"bb_x": "bu_x", "bb_y": "bu_y"} else 1)
except Exception as e:
    print(type(e).__name__, str(e).strip().splitlines()[-1][:120])
    sys.exit(1)
