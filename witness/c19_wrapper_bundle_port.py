import hdl21 as h
@h.bundle
class B:
    x, y = h.Signals(2)
@h.module
class M:
    b = B(port=True)
    p = h.Port()
try:
    w = h.generators.Wrapper(M)
    h.elaborate(w)
    print("ok", list(w.ports), list(w.bundle_ports) if hasattr(w, "bundle_ports") else None)
except Exception as e:
    print("raised:", type(e).__name__, str(e)[:200])
