"""C11 witness: an ExternalModule's spice type survives from_proto -> to_proto."""
import hdl21 as h
from vlsirtools import SpiceType

D = h.ExternalModule(name="mydiode", domain="ext", port_list=[h.Port(name="p"), h.Port(name="n")], paramtype=dict, spicetype=SpiceType.DIODE)

@h.module
class Top:
    a, b = h.Signals(2)
    d = D({})(p=a, n=b)

P = h.to_proto(Top)
ns = h.from_proto(P)
P2 = h.to_proto(getattr(ns.__main__, "Top") if hasattr(ns, "__main__") else ns.Top)
print(P.ext_modules[0].spicetype, P2.ext_modules[0].spicetype)
assert P.ext_modules[0].spicetype == P2.ext_modules[0].spicetype, "spicetype lost in the round trip"
print("OK")
