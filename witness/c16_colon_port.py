import hdl21 as h
from hdl21.flatten import flatten
from hdl21.primitives import R

@h.module
class Inner:
    p = h.Port()
    x = h.Signal()
    r1 = R(r=1)(p=p, n=x)
    r2 = R(r=1)(p=x, n=p)

Top = h.Module(name="Top")
Top.add(h.Port(name="a:x"))      # legal name for Module.add
Top.vss = h.Port()
Top.a = Inner(p=Top.vss)
f = flatten(Top)
print(sorted(f.ports), sorted(f.signals))
for i in f.instances.values():
    print(i.name, {k: v.name for k, v in i.conns.items()})
# expected: internal net of instance a ("a:x") distinct from the top-level port "a:x", or an error
