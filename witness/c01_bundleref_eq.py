"""C01 witness: BundleRef.__eq__/__hash__ use a non-existent attribute `inst`."""
import hdl21 as h

@h.bundle
class B:
    x = h.Signal()

@h.module
class Inner:
    a = h.Port()

@h.module
class Top:
    b = B()
    i1 = Inner(a=b.x)
    i2 = Inner(a=i1.a)

pkg = h.to_proto(Top)
top = [m for m in pkg.modules if m.name.endswith("Top")][0]
nets = {(i.name): i.connections[0].target.sig for i in top.instances}
print(nets)
assert nets["i1"] == nets["i2"] == "b_x"
r1, r2 = B().x, B().x
print("OK")
