# Reproducer for a defect repaired in /repo (properties C03 / C01): see known_findings.txt.
# Before: `Concat(c, Concat(a, b))` -> RuntimeError("Concatenation with no parts");
#         `Concat(a, d[0:2][0:1], c)` -> TypeError (Slice + tuple).
# After: both resolve; bits listed LSB first below.
import hdl21 as h


def bits(target):
    which = target.WhichOneof("stype")
    if which == "sig":
        return [target.sig]
    if which == "slice":
        s = target.slice
        return [f"{s.signal}[{k}]" for k in range(s.bot, s.top + 1)]
    out = []
    for part in reversed(target.concat.parts):  # VLSIR lists the most significant part first
        out += bits(part)
    return out


def show(name, mk):
    @h.module
    class Inner:
        p = h.Input(width=4)

    m = h.Module(name="M")
    m.a = h.Signal(width=1)
    m.b = h.Signal(width=1)
    m.c = h.Signal(width=2)
    m.d = h.Signal(width=4)
    m.i = Inner(p=mk(m))
    try:
        pkg = h.to_proto(m)
        top = [x for x in pkg.modules if x.name.endswith("M")][0]
        print(name, "->", bits(top.instances[0].connections[0].target))
    except Exception as e:
        print(name, "->", type(e).__name__, str(e)[:80])


show("Concat(c, Concat(a, b))", lambda m: h.Concat(m.c, h.Concat(m.a, m.b)))
show("Concat(a, d[0:2][0:1], c)", lambda m: h.Concat(m.a, m.d[0:2][0:1], m.c))
show("Concat(c, d[0:3][1:3])", lambda m: h.Concat(m.c, m.d[0:3][1:3]))
show("Concat(a, Concat(b, c)[0:3])", lambda m: h.Concat(m.a, h.Concat(m.b, m.c)[0:3]))
