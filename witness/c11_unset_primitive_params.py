# Reproducer for the defect fixed in /repo (property C11): see known_findings.txt.
# Before: Vpulse() -> from_proto raises KeyError('v1'); Vdc(dc=None) -> re-export has dc=0 (P2 != P1).
# After: both round-trip to an equal package.
import types
import hdl21 as h
from hdl21.primitives import Vpulse, Vdc


def find(ns):
    for v in vars(ns).values():
        if isinstance(v, h.Module):
            return v
        if isinstance(v, types.SimpleNamespace):
            r = find(v)
            if r is not None:
                return r


for name, call in (("Vpulse()", Vpulse()), ("Vdc(dc=None)", Vdc(dc=None))):
    m = h.Module(name="M")
    m.a, m.b = h.Signals(2)
    m.v = call(p=m.a, n=m.b)
    p1 = h.to_proto(m)
    try:
        p2 = h.to_proto(find(h.from_proto(p1)))
        print(name, "round trip equal:", p1 == p2, [p.name for p in p2.modules[0].instances[0].parameters])
    except Exception as e:
        print(name, "import failed:", type(e).__name__, e)
