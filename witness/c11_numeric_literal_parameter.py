# Reproducer for a defect repaired in /repo (property C11): see known_findings.txt.
# A literal-valued parameter of a primitive whose text happens to be numeric comes back from
# from_proto as a string, which the primitive's Scalar field converts to a Prefixed number:
# the re-exported package holds `prefixed` where the original holds `literal`.
import types
import hdl21 as h
from hdl21.primitives import R


def find(ns):
    for v in vars(ns).values():
        if isinstance(v, h.Module):
            return v
        if isinstance(v, types.SimpleNamespace):
            r = find(v)
            if r is not None:
                return r


for text in ("1.5", "2*x"):
    m = h.Module(name="M")
    m.a, m.b = h.Signals(2)
    m.r = R(r=h.Literal(text))(p=m.a, n=m.b)
    p1 = h.to_proto(m)
    p2 = h.to_proto(find(h.from_proto(p1)))
    k1 = p1.modules[0].instances[0].parameters[0].value.WhichOneof("value")
    k2 = p2.modules[0].instances[0].parameters[0].value.WhichOneof("value")
    print(f"Literal({text!r}): exported as {k1}, re-exported after import as {k2}; packages equal: {p1 == p2}")
