"""C02 witness: faults that only the post-flattening re-checks can see must be rejected."""
import hdl21 as h

def rejected(mk, label):
    try:
        h.to_proto(mk())
    except Exception as e:
        print(f"{label}: rejected ({type(e).__name__})")
        return True
    print(f"{label}: EXPORTED")
    return False

@h.bundle
class B:
    x = h.Signal(width=2)
    y = h.Signal()

@h.module
class Inner:
    b = B(port=True)

@h.module
class Leaf:
    a = h.Port()
    c = h.Port()

def anon_width():
    m = h.Module(name="AnonWidth")
    m.s3 = h.Signal(width=3)
    m.t = h.Signal()
    m.i = Inner(b=h.AnonymousBundle(x=m.s3, y=m.t))   # x is 2 bits wide, s3 has 3
    return m

def array_missing():
    m = h.Module(name="ArrMissing")
    m.s = h.Signal()
    m.arr = 2 * Leaf(a=m.s)   # port c left unconnected
    return m

def anon_extra():
    m = h.Module(name="AnonExtra")
    m.s2 = h.Signal(width=2)
    m.t = h.Signal()
    m.z = h.Signal()
    m.i = Inner(b=h.AnonymousBundle(x=m.s2, y=m.t, zzz=m.z))   # zzz is not a member of B
    return m

ok = all([rejected(anon_width, "width mismatch inside an anonymous bundle"),
          rejected(array_missing, "instance array with a missing port connection"),
          rejected(anon_extra, "anonymous bundle with an extra member")])
assert ok
print("OK")
