import hdl21 as h
from hdl21.primitives import R
# (a) the same Signal object added under two names
m = h.Module(name="M")
s = h.Signal(name="s")
m.add(s)
try:
    m.add(s, name="t")
    print("added twice:", list(m.signals), [v.name for v in m.signals.values()])
    pkg = h.to_proto(m)
    print("exported signals:", [x.name for x in pkg.modules[0].signals])
except Exception as e:
    print("refused:", type(e).__name__, e)
# (b) parent and child with the same qualified name
def mk():
    c = h.Module(name="Same")
    c.p = h.Port()
    return c
child = mk()
parent = h.Module(name="Same")
parent.vss = h.Port()
parent.i = child(p=parent.vss)
try:
    pkg = h.to_proto(parent)
    print("module names:", [mm.name for mm in pkg.modules])
except Exception as e:
    print("refused:", type(e).__name__, str(e)[:100])
