"""C05 witness: NoConn(name='x') beside a signal x must not tie the unconnected port to x."""
import hdl21 as h

@h.module
class Inner:
    a = h.Port()
    b = h.Port()

@h.module
class Top:
    x = h.Signal()
    i = Inner(a=x, b=h.NoConn(name="x"))

pkg = h.to_proto(Top)
top = [m for m in pkg.modules if m.name.endswith("Top")][0]
nets = {c.portname: c.target.sig for c in top.instances[0].connections}
print(nets, [s.name for s in top.signals])
assert nets["a"] != nets["b"], "the no-connected port b is shorted to x"
assert len({s.name for s in top.signals}) == len(top.signals)
print("OK")
