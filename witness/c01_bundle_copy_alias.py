"""C01 witness: flipped(b1) beside b1 — each instance must stay on its own bundle's signals."""
import hdl21 as h

@h.bundle
class B:
    x = h.Inout()

@h.module
class Inner:
    p = B(port=True)

@h.module
class Top:
    b1 = B()
    b2 = h.flipped(b1)
    i1 = Inner(p=b1)
    i2 = Inner(p=b2)

pkg = h.to_proto(Top)
top = [m for m in pkg.modules if m.name.endswith("Top")][0]
nets = {i.name: i.connections[0].target.sig for i in top.instances}
print(nets)
assert nets == {"i1": "b1_x", "i2": "b2_x"}, nets

@h.module
class Top2:
    c1, c2 = 2 * B()
    i1 = Inner(p=c1)
    i2 = Inner(p=c2)

pkg = h.to_proto(Top2)
top = [m for m in pkg.modules if m.name.endswith("Top2")][0]
nets = {i.name: i.connections[0].target.sig for i in top.instances}
print(nets)
assert nets == {"i1": "c1_x", "i2": "c2_x"}, nets
print("OK")
