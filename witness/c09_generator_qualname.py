# Reproducer for a defect repaired in /repo (property C09): see known_findings.txt.
# Before: every Generator and ExternalModule had the qualified name `pydantic._internal._dataclasses.<name>`
# (their constructors run inside pydantic), so two same-named generators from two python modules, passed as
# parameter values, gave ONE generated-module name for two different modules.  After: the names differ.
import sys, tempfile, importlib, pathlib
import hdl21 as h
from hdl21.qualname import qualname

d = pathlib.Path(tempfile.mkdtemp())
for modname, width in (("lib_a", 1), ("lib_b", 2)):
    (d / f"{modname}.py").write_text(
        "import hdl21 as h\n"
        "@h.generator\n"
        "def Amp(p: h.HasNoParams) -> h.Module:\n"
        "    m = h.Module()\n"
        f"    m.x = h.Signal(width={width})\n"
        "    return m\n"
    )
sys.path.insert(0, str(d))
lib_a, lib_b = importlib.import_module("lib_a"), importlib.import_module("lib_b")


@h.paramclass
class P:
    amp = h.Param(dtype=h.Generator, desc="which amplifier")


@h.generator
def Top(p: P) -> h.Module:
    m = h.Module()
    m.a = p.amp()()
    return m


print("qualnames:", qualname(lib_a.Amp), "|", qualname(lib_b.Amp))
ta, tb = Top(P(amp=lib_a.Amp)), Top(P(amp=lib_b.Amp))
print("two different modules:", ta is not tb, "| names:", ta.name, "|", tb.name, "| distinct:", ta.name != tb.name)
