"""C18 witness: a Bundle used by an elaborated module refuses further additions."""
import hdl21 as h

@h.bundle
class B:
    x = h.Signal()

@h.module
class M:
    b = B(port=True)

h.elaborate(M)
try:
    B.y = h.Signal()
except RuntimeError as e:
    print("rejected:", str(e)[:60])
    print("OK")
else:
    raise AssertionError("Bundle accepted an addition after elaboration")
