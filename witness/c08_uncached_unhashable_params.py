# Reproducer for the defect fixed by /repo commit d9825d9 (property C08).
# Before the fix: "TypeError unhashable type: 'list'" (raised by pending.discard in the failure handler).
# After the fix:  "ValueError body failed" — the generator body's own error, as a fresh process reports it.
import hdl21 as h
from typing import Any


@h.paramclass
class P:
    xs = h.Param(dtype=Any, desc="an un-hashable value", default=None)


@h.generator(enable_cache=False)
def G(p: P) -> h.Module:
    raise ValueError("body failed")


for attempt in (1, 2):
    try:
        G(P(xs=[1, 2]))
    except Exception as e:
        print(attempt, type(e).__name__, e)
