# Reproducer for a defect repaired in /repo (property C10): see known_findings.txt.
# Before: both HostMod and DevMod get io_tx=OUTPUT, io_rx=OUTPUT (all un-named roles compare equal).
# After: HostMod tx OUTPUT / rx INPUT, DevMod tx INPUT / rx OUTPUT.
import hdl21 as h

@h.bundle
class Uart:
    Host, Device = 2 * h.Role()
    tx = h.Signal(src=Host, dest=Device)
    rx = h.Signal(src=Device, dest=Host)

@h.module
class HostMod:
    io = Uart(port=True, role=Uart.roles["Host"])

@h.module
class DevMod:
    io = Uart(port=True, role=Uart.roles["Device"])

for M in (HostMod, DevMod):
    h.elaborate(M)
    print(M.name, {p.name: p.direction.name for p in M.ports.values()})
print("roles equal:", Uart.roles["Host"] == Uart.roles["Device"], Uart.roles["Host"])
