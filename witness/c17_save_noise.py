"""C17 witness: every documented SaveTarget form exports; Noise on a Diff bundle exports."""
import hdl21 as h
from hdl21.sim import *
import hdl21.sim as hs

tb = hs.tb("TB17")
tb.a = h.Signal(); tb.b = h.Signal()
tb.r1 = h.R(r=1)(p=tb.a, n=tb.VSS); tb.r2 = h.R(r=1)(p=tb.b, n=tb.VSS)
forms = {"mode": SaveMode.ALL, "signal": tb.a, "list of signals": [tb.a, tb.b], "name": "a", "list of names": ["a", "b"]}
want = {"signal": "a", "list of signals": "a,b", "name": "a", "list of names": "a,b"}
for label, targ in forms.items():
    s = Sim(tb=tb, attrs=[Save(targ)])
    inp = hs.to_proto(s)
    sv = inp.ctrls[0].save
    print(label, "->", sv.WhichOneof("save"), repr(sv.signal))
    if label in want:
        assert sv.signal == want[label], (label, sv.signal)
tb2 = hs.tb("TB17n")
tb2.d = h.Diff()
tb2.v = h.Vdc(dc=1)(p=tb2.d.p, n=tb2.VSS)
tb2.r = h.R(r=1)(p=tb2.d.n, n=tb2.VSS)
s = Sim(tb=tb2, attrs=[Noise(output=tb2.d, input_source=tb2.v, sweep=LogSweep(1, 10, 2))])
inp = hs.to_proto(s)
print("noise", inp.an[0].noise.output_p, inp.an[0].noise.output_n)
print("OK")
