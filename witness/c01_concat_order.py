"""C01 witness: Concat(x, y) on a 2-bit port must put x on bit 0 in every netlist."""
import io
import hdl21 as h

@h.module
class Inner:
    a = h.Port(width=2)

@h.module
class Top:
    x, y = h.Signals(2)
    i = Inner(a=h.Concat(x, y))

s = io.StringIO()
h.netlist(Top, dest=s, fmt="spice")
txt = s.getvalue()
print(txt)
# ports of Inner are declared a_1 a_0 (MSB first); the instance line must read "y x"
lines = [l for l in txt.splitlines() if l.strip().startswith("+ ") and ("x" in l.split() and "y" in l.split())]
assert lines, txt
toks = lines[0].split()
assert toks.index("y") < toks.index("x"), "x (bit 0 of the Concat) lands on a_1"
# round trip keeps hdl21 order
ns = h.from_proto(h.to_proto(Top))
print("OK")
