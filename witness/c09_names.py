"""C09 witness: unequal parameters give different module names; a generator does not rename another generator's module."""
import hdl21 as h

@h.paramclass
class P:
    a = h.Param(dtype=str, desc="a")
    b = h.Param(dtype=str, desc="b")

@h.generator
def G(p: P) -> h.Module:
    return h.Module()

m1 = G(a="x b=y", b="z")
m2 = G(a="x", b="y b=z")
print(repr(m1.name), repr(m2.name))
assert m1 is not m2 and m1.name != m2.name, "two different modules under one name"

@h.paramclass
class Q:
    a = h.Param(dtype=h.Optional[str] if hasattr(h, "Optional") else __import__("typing").Optional[str], desc="a", default=None)

@h.generator
def H(p: Q) -> h.Module:
    return h.Module()

n1, n2 = H(a=None), H(a="None")
print(repr(n1.name), repr(n2.name))
assert n1 is not n2 and n1.name != n2.name

# MosStack hands on the module of Series: its name must not depend on who asked first
s = h.generators.Series(unit=h.Mos(), nser=2, conns=("d", "s"))
name_before = s.name
ms = h.generators.MosStack(unit=h.Mos(), nser=2)
print(repr(name_before), repr(s.name), repr(ms.name), ms is s)
assert s.name == name_before, "a module was renamed by a generator that did not create it"
print("OK")
