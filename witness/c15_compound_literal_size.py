# Reproducer for a defect repaired in /repo (property C15): see known_findings.txt.
# Before: Sky130 and Gf180 scaled a Literal device size to microns as f"({text} * 1e6)": for a compound expression such as
# "wn + dw" the product binds to the last term only — (wn + dw * 1e6) — and the device is sized with wn unscaled.
# After: ((wn + dw) * 1e6).
import os, sys
ROOT = os.environ.get("HDL21_ROOT", "/repo")
sys.path[:0] = [ROOT, ROOT + "/pdks/Sky130", ROOT + "/pdks/Gf180"]
import hdl21 as h
import sky130_hdl21, gf180_hdl21

bad = 0


@h.module
class M:
    d, g, s, b = h.Signals(4)
    n = h.Mos(tp=h.MosType.NMOS, family=h.MosFamily.CORE, vth=h.MosVth.STD, w=h.Literal("wn + dw"), l=h.Literal("ln"))(d=d, g=g, s=s, b=b)


@h.module
class C:
    p, n = h.Signals(2)
    c = h.PhysicalCapacitor(model="MIM_1p5fF", w=h.Literal("wc + dw"), l=h.Literal("lc"))(p=p, n=n)


for pdk, mod, inst, field in ((sky130_hdl21, M, "n", "w"), (gf180_hdl21, C, "c", "c_width")):
    pdk.compile(mod)
    w = getattr(getattr(mod, inst).of.params, field)
    txt = w.text if isinstance(w, h.Literal) else str(w)
    ok = txt.replace(" ", "") in ("((wn+dw)*1e6)", "((wc+dw)*1e6)")
    print(pdk.__name__, field, "=", txt, "ok" if ok else "WRONG: only the last term is scaled")
    bad += not ok
sys.exit(1 if bad else 0)
