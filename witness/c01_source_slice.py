"""C01 witness: a port reference to a port tied to a Slice must keep the Slice as the group's source."""
import hdl21 as h

@h.module
class Inner:
    a = h.Port()

@h.module
class Top:
    bus = h.Signal(width=2)
    i0 = Inner(a=bus[0])
    i1 = Inner(a=i0.a)

pkg = h.to_proto(Top)
top = [m for m in pkg.modules if m.name.endswith("Top")][0]
for inst in top.instances:
    for c in inst.connections:
        t = c.target
        print(inst.name, c.portname, t.WhichOneof("stype"), t.slice.signal if t.WhichOneof("stype") == "slice" else t.sig)
        assert t.WhichOneof("stype") == "slice" and t.slice.signal == "bus" and t.slice.top == 0 and t.slice.bot == 0, "connection to bus[0] lost"
print("OK")
