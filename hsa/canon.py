"""Canonical form of function bodies (behaviour-preserving normalisation).

Rules must not change their verdict under a behaviour-preserving rewrite of the
code.  Rather than teaching every rule every spelling, each function is brought
into one canonical spelling on load; the rules only ever see that.  Every step is
an exact program equivalence (stated with its side condition at the step), so a
change of behaviour always survives into the canonical form.

Steps, applied to every function of the analysed packages:

 C1  conditional expressions that are a whole right-hand side / return value
     become if/else statements
 C2  guard clauses become if/else: statements following an `if` one of whose
     branches cannot fall through (return / raise / continue / break / call of a
     no-return helper) move into the other branch
 C3  tests are positive: `not`, `is not`, `!=`, `not in`, `>`, `>=`, `<=` are
     rewritten to `is`, `==`, `in`, `<` with the branches swapped (order flips:
     exact for total orders; the analysed comparisons are over int / Decimal);
     negation is pushed through and/or when that makes every operand positive
 C4  value-less `return` / `continue` in tail position is dropped; an empty
     branch is `pass`
 C5  temporaries: a local bound once to a name or attribute chain is replaced by
     it (side condition: no name in it is rebound and no attribute of these names
     is assigned anywhere in the function — a call that re-binds such an attribute
     behind the function's back is outside what the analysed code does); a local
     bound once and used once in the directly following statement, before any
     other effect of that statement, is inlined there
 C6  accumulation loops become comprehensions (`xs = []; for ..: [if c:]
     xs.append(e)`, `d = {}; for ..: d[k] = v`, `n = 0; for ..: n += e`), and a
     list comprehension that is the sole argument of tuple/list/set/sum/any/all/
     sorted/min/max/join/dict becomes a generator expression
 C7  small identities: `a < b < c` = `a < b and b < c` (side-effect-free b); `.get(k, None)` = `.get(k)`; `isinstance(x, A) or
     isinstance(x, B)` = `isinstance(x, (A, B))`; `x = x + e` = `x += e`;
     `list(d.keys())` = `list(d)`; annotated assignments to plain names
 C9  a search / dispatch loop over a literal tuple — `for x in (a, b, ..):` whose body can `return` and has no
     break/continue/else — is the sequence of its iterations (with the loop variables replaced);
     `f(**{"k": v})` = `f(k=v)`
 C8  helpers that do not exist on the reference tree (see alpha.py: the
     reference lists every function of the confirmed tree) and are called from
     the same file are inlined at their call sites; module-level constants that
     do not exist on the reference tree are inlined at their uses

C8 is reference-guided: it maps an "extract function / hoist constant"
refactoring back to the code the rules were confirmed against.  The reference
decides only *which* spelling is canonical, never a verdict.
"""

from __future__ import annotations

import ast
import copy
import zlib
from typing import Dict, Iterable, List, Optional, Sequence, Set, Tuple

from . import canon_flow

NORETURN_DEFAULT = {"fail", "failer", "_attr_type_error", "invalid"}

PURE_BUILTINS = {"len", "int", "str", "float", "bool", "isinstance", "type", "id", "tuple", "list", "abs", "min", "max", "repr", "range", "reversed", "sorted", "enumerate", "zip", "getattr", "hasattr", "width"}
GEN_CONSUMERS = {"tuple", "list", "set", "frozenset", "sum", "any", "all", "sorted", "min", "max", "dict"}


# ------------------------------------------------------------------ helpers
def _terminates(body: Sequence[ast.stmt], noreturn: Set[str]) -> bool:
    if not body:
        return False
    last = body[-1]
    if isinstance(last, (ast.Raise, ast.Return, ast.Continue, ast.Break)):
        return True
    if isinstance(last, ast.Expr) and isinstance(last.value, ast.Call):
        f = last.value.func
        nm = f.attr if isinstance(f, ast.Attribute) else (f.id if isinstance(f, ast.Name) else "")
        if nm in noreturn:
            return True
    if isinstance(last, ast.If):
        return _terminates(last.body, noreturn) and _terminates(last.orelse, noreturn)
    if isinstance(last, ast.With):
        return _terminates(last.body, noreturn)
    if isinstance(last, ast.Try) and not last.finalbody:
        return (_terminates(last.body, noreturn) or (bool(last.orelse) and _terminates(last.orelse, noreturn))) and all(_terminates(h.body, noreturn) for h in last.handlers)
    return False


def _is_pass(body: Sequence[ast.stmt]) -> bool:
    return all(isinstance(s, ast.Pass) for s in body)


def _loc(new: ast.AST, old: ast.AST) -> ast.AST:
    ast.copy_location(new, old)
    ast.fix_missing_locations(new)
    return new


def _docstring(st: ast.stmt) -> bool:
    return isinstance(st, ast.Expr) and isinstance(st.value, ast.Constant) and isinstance(st.value.value, str)


# ------------------------------------------------------------------ C3: polarity
_NEG_CMP = {ast.IsNot: ast.Is, ast.NotEq: ast.Eq, ast.NotIn: ast.In}


def _positive(test: ast.expr) -> Tuple[ast.expr, bool]:
    """(positive test, flipped?) with test == (not positive) when flipped."""
    if isinstance(test, ast.UnaryOp) and isinstance(test.op, ast.Not):
        inner, fl = _positive(test.operand)
        return inner, not fl
    if isinstance(test, ast.Compare) and len(test.ops) == 1:
        op, a, b = test.ops[0], test.left, test.comparators[0]
        if type(op) in _NEG_CMP:
            return _loc(ast.Compare(a, [_NEG_CMP[type(op)]()], [b]), test), True
        if isinstance(op, ast.Gt):  # a > b  ==  b < a
            return _loc(ast.Compare(b, [ast.Lt()], [a]), test), False
        if isinstance(op, ast.LtE):  # a <= b  ==  not (b < a)
            return _loc(ast.Compare(b, [ast.Lt()], [a]), test), True
        if isinstance(op, ast.GtE):  # a >= b  ==  not (a < b)
            return _loc(ast.Compare(a, [ast.Lt()], [b]), test), True
        return test, False
    if isinstance(test, ast.BoolOp):
        parts = [_positive(v) for v in test.values]
        if all(fl for _p, fl in parts):
            # not a OP not b  ==  not (a OP' b)
            op2 = ast.And() if isinstance(test.op, ast.Or) else ast.Or()
            return _loc(ast.BoolOp(op2, [p for p, _ in parts]), test), True
        # mixed: the spelling with fewer negated operands; on a tie the conjunction (`a or not b` == not (`not a and b`))
        k = sum(1 for _p, fl in parts if fl)
        demorgan = 2 * k > len(parts) or (2 * k == len(parts) and isinstance(test.op, ast.Or))
        if demorgan:
            op2 = ast.And() if isinstance(test.op, ast.Or) else ast.Or()
            vals = [p if fl else _loc(_negate(p), p) for p, fl in parts]
            return _loc(ast.BoolOp(op2, vals), test), True
        vals = [p if not fl else _loc(_negate(p), p) for p, fl in parts]
        return _loc(ast.BoolOp(test.op, vals), test), False
    return test, False


def _negate(pos: ast.expr) -> ast.expr:
    """The canonical spelling of `not pos` for a positive test (used inside mixed and/or)."""
    if isinstance(pos, ast.Compare) and len(pos.ops) == 1:
        inv = {ast.Is: ast.IsNot, ast.Eq: ast.NotEq, ast.In: ast.NotIn}
        op = pos.ops[0]
        if type(op) in inv:
            return ast.Compare(pos.left, [inv[type(op)]()], pos.comparators)
        if isinstance(op, ast.Lt):  # not (a < b) == b <= a
            return ast.Compare(pos.comparators[0], [ast.LtE()], [pos.left])
    return ast.UnaryOp(ast.Not(), pos)


def _norm_expr_tests(e: ast.AST) -> None:
    """Positive tests inside expressions: conditional expressions and comprehension conditions keep their place;
    `not`-spellings are unified (`not a is b` -> `a is not b`)."""
    for n in ast.walk(e):
        if isinstance(n, ast.IfExp):
            t, fl = _positive(n.test)
            n.test = t
            if fl:
                n.body, n.orelse = n.orelse, n.body
        elif isinstance(n, ast.comprehension):
            new = []
            for c in n.ifs:
                t, fl = _positive(c)
                new.append(_loc(_negate(t), c) if fl else t)
            n.ifs = new
        elif isinstance(n, ast.While):
            pass


# ------------------------------------------------------------------ statement-level canonicaliser
class Canon:
    def __init__(self, noreturn: Set[str]):
        self.noreturn = noreturn

    # ---- C1
    def _lift_ifexp(self, st: ast.stmt) -> ast.stmt:
        # a conditional expression nested in a small simple statement and evaluated before anything else in it:
        # `return getattr(o, a if c else b)(x)` == `if c: return getattr(o, a)(x) else: return getattr(o, b)(x)`
        if isinstance(st, (ast.Return, ast.Assign, ast.Expr)) and st.value is not None and not isinstance(st.value, ast.IfExp) and len(ast.unparse(st)) < 240:
            for n in ast.walk(st.value):
                if isinstance(n, ast.IfExp) and not any(isinstance(x, (ast.Lambda, ast.ListComp, ast.DictComp, ast.SetComp, ast.GeneratorExp, ast.IfExp, ast.BoolOp)) and x is not n and any(y is n for y in ast.walk(x)) for x in ast.walk(st.value)):
                    probe = _replace_node_by_name(st.value, n, "__ifx")
                    if probe is not None and _evaluated_first(probe, "__ifx"):
                        arms = []
                        for arm in (n.body, n.orelse):
                            c_ = copy.deepcopy(st)
                            c_.value = _Subst("__ifx", arm).visit(copy.deepcopy(probe))
                            arms.append(ast.fix_missing_locations(c_))
                        return _loc(ast.If(n.test, [arms[0]], [arms[1]]), st)
                    break
        if isinstance(st, ast.Return) and isinstance(st.value, ast.IfExp):
            ie = st.value
            return _loc(ast.If(ie.test, [_loc(ast.Return(ie.body), st)], [_loc(ast.Return(ie.orelse), st)]), st)
        if isinstance(st, ast.Assign) and isinstance(st.value, ast.IfExp) and len(st.targets) == 1:
            ie = st.value
            return _loc(ast.If(ie.test, [_loc(ast.Assign([copy.deepcopy(st.targets[0])], ie.body), st)], [_loc(ast.Assign([copy.deepcopy(st.targets[0])], ie.orelse), st)]), st)
        return st

    @staticmethod
    def _lift_next(st: ast.stmt) -> Optional[List[ast.stmt]]:
        """`x = next((E for t in <literal table> if C), D)` / `return next(..)` is the first-match loop over the table:
        `for t in <table>: if C: x = E; break` `else: x = D` (no default: StopIteration is raised)."""
        v = st.value if isinstance(st, (ast.Assign, ast.AnnAssign, ast.Return)) else None
        if not (isinstance(v, ast.Call) and isinstance(v.func, ast.Name) and v.func.id == "next" and 1 <= len(v.args) <= 2 and not v.keywords):
            return None
        g = v.args[0]
        if not (isinstance(g, ast.GeneratorExp) and len(g.generators) == 1 and not g.generators[0].is_async and isinstance(g.generators[0].iter, (ast.Tuple, ast.List)) and g.generators[0].iter.elts):
            return None
        gen = g.generators[0]
        if isinstance(st, ast.Assign) and not (len(st.targets) == 1 and isinstance(st.targets[0], (ast.Name, ast.Attribute))):
            return None
        if isinstance(st, ast.AnnAssign) and not isinstance(st.target, ast.Name):
            return None
        test = gen.ifs[0] if len(gen.ifs) == 1 else (ast.BoolOp(ast.And(), list(gen.ifs)) if gen.ifs else ast.Constant(True))

        def give(e):
            if isinstance(st, ast.Return):
                return _loc(ast.Return(e), st)
            tg = st.targets[0] if isinstance(st, ast.Assign) else st.target
            return _loc(ast.Assign([copy.deepcopy(tg)], e), st)

        miss = give(v.args[1]) if len(v.args) == 2 else _loc(ast.Raise(ast.Call(ast.Name("StopIteration", ast.Load()), [], []), None), st)
        hit = [give(g.elt)] + ([] if isinstance(st, ast.Return) else [_loc(ast.Break(), st)])
        loop = _loc(ast.For(gen.target, gen.iter, [_loc(ast.If(test, hit, []), st)], [] if isinstance(st, ast.Return) else [miss], None), st)
        out = [loop] + ([miss] if isinstance(st, ast.Return) else [])
        for o in out:
            ast.fix_missing_locations(o)
        return out

    @staticmethod
    def _split_tuple_assign(st: ast.stmt) -> List[ast.stmt]:
        """`a, b = x, y` == `a = x; b = y` when no right-hand side reads what an earlier target writes
        (targets are names or attributes of names; right-hand sides are evaluated before any store in the original)."""
        if not (isinstance(st, ast.Assign) and len(st.targets) == 1 and isinstance(st.targets[0], (ast.Tuple, ast.List)) and isinstance(st.value, (ast.Tuple, ast.List)) and len(st.targets[0].elts) == len(st.value.elts) >= 2):
            return [st]
        tgts, vals = st.targets[0].elts, st.value.elts
        if any(isinstance(x, ast.Starred) for x in list(tgts) + list(vals)):
            return [st]
        if not all(isinstance(t, ast.Name) or (isinstance(t, ast.Attribute) and isinstance(t.value, ast.Name)) for t in tgts):
            return [st]
        written = [ast.unparse(t) for t in tgts]
        for k, v in enumerate(vals):
            if k == 0:
                continue
            # a later value must not be able to observe an earlier store: it does not mention a stored local name at
            # all, and mentions the owner of a stored attribute only through *other* attributes of it
            for t in tgts[:k]:
                if isinstance(t, ast.Name):
                    if any(isinstance(n, ast.Name) and n.id == t.id for n in ast.walk(v)):
                        return [st]
                else:
                    owner = t.value.id
                    for n in ast.walk(v):
                        if isinstance(n, ast.Name) and n.id == owner:
                            # every occurrence of the owner must be the base of an attribute other than the stored one
                            ok_use = any(isinstance(a, ast.Attribute) and a.value is n and a.attr != t.attr for a in ast.walk(v))
                            if not ok_use:
                                return [st]
        return [_loc(ast.Assign([t], v), st) for t, v in zip(tgts, vals)]

    def block(self, body: List[ast.stmt], tail: Optional[str]) -> List[ast.stmt]:
        """Canonical form of a statement list.  `tail` is 'fn' when falling off the end of this block
        ends the function, 'loop' when it continues the enclosing loop, else None."""
        out: List[ast.stmt] = []
        body = [x for s in body for x in self._split_tuple_assign(self._simple(s))]
        # what follows a statement that cannot fall through (return / raise / continue / break / a no-return call) never runs
        for k_, s_ in enumerate(body):
            if _terminates([s_], self.noreturn) and not isinstance(s_, (ast.If, ast.With, ast.Try)) and k_ + 1 < len(body):
                if not any(isinstance(x_, (ast.FunctionDef, ast.AsyncFunctionDef, ast.ClassDef)) for x_ in body[k_ + 1 :]):
                    body = body[: k_ + 1]
                break
        i = 0
        while i < len(body):
            nx = self._lift_next(body[i])
            if nx is not None and isinstance(nx[0], ast.For) and self._unrollable(nx[0]):
                body = body[:i] + nx + body[i + 1 :]
                continue
            st = self._lift_ifexp(body[i])
            rest = body[i + 1 :]
            if isinstance(st, ast.If):
                st = self._if(st, rest, tail)
                out.append(st)
                if getattr(st, "_absorbed", False):
                    break
            elif isinstance(st, ast.For) and self._unrollable(st):
                # C9: a search/dispatch loop over a literal tuple is the sequence of its iterations
                unrolled = self._unroll(st)
                body = body[: i] + unrolled + body[i + 1 :]
                continue
            elif isinstance(st, (ast.For, ast.AsyncFor, ast.While)):
                st.body = self.block(st.body, "loop")
                st.orelse = self.block(st.orelse, None) if st.orelse else []
                out.append(self._simple_header(st))
            elif isinstance(st, (ast.With, ast.AsyncWith)):
                st.body = self.block(st.body, tail if not rest else None)
                out.append(st)
            elif isinstance(st, ast.Try):
                st.body = self.block(st.body, None)
                for h in st.handlers:
                    h.body = self.block(h.body, None)
                st.orelse = self.block(st.orelse, None) if st.orelse else []
                st.finalbody = self.block(st.finalbody, None) if st.finalbody else []
                out.append(st)
            elif isinstance(st, (ast.FunctionDef, ast.AsyncFunctionDef)):
                st.body = self.function_body(st.body)
                out.append(st)
            elif isinstance(st, ast.ClassDef):
                st.body = [self._cls_member(m) for m in st.body]
                out.append(st)
            else:
                out.append(st)
            i += 1
        # C4: value-less return / continue in tail position
        while out and ((tail == "fn" and isinstance(out[-1], ast.Return) and out[-1].value is None) or (tail == "loop" and isinstance(out[-1], ast.Continue))):
            out.pop()
        out = [s for s in out if not isinstance(s, ast.Pass)] or ([_loc(ast.Pass(), body[0])] if body else [])
        return out

    def _first_match(self, st: ast.For):
        """(test, statements before the break) when the loop body is exactly `if test: ...; break`."""
        body = [x for x in st.body if not isinstance(x, ast.Pass)]
        if len(body) != 1 or not isinstance(body[0], ast.If) or body[0].orelse:
            return None
        inner = body[0].body
        if not inner or not isinstance(inner[-1], ast.Break):
            return None
        for x in inner[:-1]:
            for n in ast.walk(x):
                if isinstance(n, (ast.Break, ast.Continue, ast.FunctionDef, ast.Yield, ast.YieldFrom)):
                    return None
        tg = st.target
        if not isinstance(st.iter, (ast.Tuple, ast.List)):
            return None
        for e in st.iter.elts:
            vals = [e] if isinstance(tg, ast.Name) else (list(e.elts) if isinstance(e, (ast.Tuple, ast.List)) else None)
            if vals is None or not all(_row_value(v) for v in vals):
                return None
        return body[0].test, inner[:-1]

    def _unrollable(self, st: ast.For) -> bool:
        if not isinstance(st.iter, (ast.Tuple, ast.List)) or not (1 <= len(st.iter.elts) <= 16):
            return False
        tg = st.target
        names = [tg] if isinstance(tg, ast.Name) else (list(tg.elts) if isinstance(tg, (ast.Tuple, ast.List)) else None)
        if names is None or not all(isinstance(n, ast.Name) for n in names):
            return False
        if isinstance(tg, (ast.Tuple, ast.List)) and not all(isinstance(e, (ast.Tuple, ast.List)) and len(e.elts) == len(names) for e in st.iter.elts):
            return False
        # first-match form:  for ..: if c: S; break   [else: E]
        if self._first_match(st) is not None:
            stored_ = {n.id for x in st.body for n in ast.walk(x) if isinstance(n, ast.Name) and isinstance(n.ctx, ast.Store)}
            return not (stored_ & {n.id for n in names})
        if st.orelse:
            return False
        has_return = False
        for n in ast.walk(ast.Module(st.body, [])):
            if isinstance(n, (ast.Break, ast.Continue, ast.FunctionDef, ast.Yield, ast.YieldFrom)):
                return False
            if isinstance(n, ast.Return):
                has_return = True
        if not has_return:
            # ... or a short loop over attribute names that are looked up on an object (`for c in ("a", "b"): getattr(o, c)`)
            by_name = isinstance(tg, ast.Name) and len(st.iter.elts) <= 4 and all(isinstance(e, ast.Constant) and isinstance(e.value, str) and e.value.isidentifier() for e in st.iter.elts) and any(
                isinstance(n, ast.Call) and isinstance(n.func, ast.Name) and n.func.id == "getattr" and len(n.args) >= 2 and isinstance(n.args[1], ast.Name) and n.args[1].id == tg.id for n in ast.walk(ast.Module(st.body, [])))
            if not by_name:
                return False  # only search / dispatch loops (those that can leave the function from inside)
        # the loop variables are not used after the loop is not required: they keep their last value either way
        stored = {n.id for x in st.body for n in ast.walk(x) if isinstance(n, ast.Name) and isinstance(n.ctx, ast.Store)}
        return not (stored & {n.id for n in names})

    def _unroll(self, st: ast.For) -> List[ast.stmt]:
        tg = st.target
        names = [tg.id] if isinstance(tg, ast.Name) else [n.id for n in tg.elts]
        fm = self._first_match(st)
        if fm is not None:
            # if c1: S1 elif c2: S2 ... else: E   (rows whose values are not plain names bind them first: only when all are plain)
            test, stmts = fm
            chain = list(st.orelse)
            for e in reversed(st.iter.elts):
                vals = [e] if isinstance(tg, ast.Name) else list(e.elts)
                sub = _ParamSubst(dict(zip(names, vals)))
                t_ = sub.visit(copy.deepcopy(test))
                b_ = [sub.visit(copy.deepcopy(x)) for x in stmts] or [ast.Pass()]
                chain = [_loc(ast.If(t_, b_, chain), st)]
            for s_ in chain:
                ast.fix_missing_locations(s_)
            return chain
        return self._unroll_plain(st, names)

    def _unroll_plain(self, st: ast.For, names) -> List[ast.stmt]:
        tg = st.target
        out: List[ast.stmt] = []
        for e in st.iter.elts:
            vals = [e] if isinstance(tg, ast.Name) else list(e.elts)
            subst = {}
            pre = []
            for nm, v in zip(names, vals):
                if _row_value(v):
                    subst[nm] = v
                else:
                    pre.append(_loc(ast.Assign([ast.Name(nm, ast.Store())], copy.deepcopy(v)), st))
            out.extend(pre)
            for b in st.body:
                out.append(_ParamSubst(subst).visit(copy.deepcopy(b)))
        for s_ in out:
            ast.fix_missing_locations(s_)
        return out

    def _cls_member(self, m):
        if isinstance(m, (ast.FunctionDef, ast.AsyncFunctionDef)):
            m.body = self.function_body(m.body)
        elif isinstance(m, ast.ClassDef):
            m.body = [self._cls_member(x) for x in m.body]
        return m

    def function_body(self, body: List[ast.stmt]) -> List[ast.stmt]:
        doc = body[:1] if body and _docstring(body[0]) else []
        rest = body[len(doc) :]
        new = self.block(rest, "fn") if rest else []
        return doc + (new or ([] if doc else [ast.Pass()])) or [ast.Pass()]

    def _if(self, st: ast.If, rest: List[ast.stmt], tail: Optional[str]) -> ast.If:
        body, orelse = list(st.body), list(st.orelse)
        absorbed = False
        if rest:
            bt, ot = _terminates(body, self.noreturn), _terminates(orelse, self.noreturn)
            if bt and not ot:  # C2
                orelse = orelse + rest
                absorbed = True
            elif ot and not bt:
                body = body + rest
                absorbed = True
        inner_tail = tail if (absorbed or not rest) else None
        test, flipped = _positive(st.test)
        if flipped:
            body, orelse = orelse, body
        new = ast.If(test, self.block(body, inner_tail) or [ast.Pass()], self.block(orelse, inner_tail))
        new.body = new.body or [_loc(ast.Pass(), st)]
        # an else-branch that is only `pass` is no else-branch
        if new.orelse and _is_pass(new.orelse):
            new.orelse = []
        _loc(new, st)
        new._absorbed = absorbed
        return new

    # ---- C7 and expression-level normalisation of simple statements
    def _simple_header(self, st):
        # `for T in (E for x in I if C): B`  ==  `for x in I: if C: T = E; B`
        if isinstance(st, ast.For) and isinstance(st.iter, (ast.GeneratorExp, ast.ListComp)) and len(st.iter.generators) == 1 and not st.iter.generators[0].is_async and not st.orelse:
            g_ = st.iter.generators[0]
            tnames = {n_.id for n_ in ast.walk(st.target) if isinstance(n_, ast.Name)}
            xnames = {n_.id for n_ in ast.walk(g_.target) if isinstance(n_, ast.Name)}
            bnames = {n_.id for b_ in st.body for n_ in ast.walk(b_) if isinstance(n_, ast.Name)}
            if not (xnames & bnames) and not (xnames & tnames) and isinstance(st.iter, ast.GeneratorExp):
                body_ = [ast.Assign([st.target], st.iter.elt)] + list(st.body)
                for f_ in reversed(g_.ifs):
                    body_ = [ast.If(f_, body_, [])]
                new_ = _loc(ast.For(g_.target, g_.iter, body_, [], None), st)
                ast.fix_missing_locations(new_)
                new_.body = self.block(new_.body, "loop")
                return self._simple_header(new_)
        # `for k, v in d.items(): B` with k unused in B  ==  `for v in d.values(): B`
        if isinstance(st, ast.For) and isinstance(st.target, ast.Tuple) and len(st.target.elts) == 2 and all(isinstance(e, ast.Name) for e in st.target.elts) and isinstance(st.iter, ast.Call) and isinstance(st.iter.func, ast.Attribute) and st.iter.func.attr == "items" and not st.iter.args and not st.iter.keywords:
            k_, v_ = st.target.elts[0].id, st.target.elts[1].id
            used_k = any(isinstance(n_, ast.Name) and n_.id == k_ for b_ in st.body + st.orelse for n_ in ast.walk(b_))
            if not used_k and k_ != v_:
                st.target = ast.copy_location(ast.Name(v_, ast.Store()), st.target)
                st.iter = ast.copy_location(ast.Call(ast.Attribute(st.iter.func.value, "values", ast.Load()), [], []), st.iter)
        # `for k, v in enumerate(S): B` with k unused in B  ==  `for v in S: B`
        if isinstance(st, ast.For) and isinstance(st.target, ast.Tuple) and len(st.target.elts) == 2 and isinstance(st.target.elts[0], ast.Name) and isinstance(st.iter, ast.Call) and isinstance(st.iter.func, ast.Name) and st.iter.func.id == "enumerate" and len(st.iter.args) == 1 and not st.iter.keywords:
            k_ = st.target.elts[0].id
            vnames = {n_.id for n_ in ast.walk(st.target.elts[1]) if isinstance(n_, ast.Name)}
            used_k = any(isinstance(n_, ast.Name) and n_.id == k_ for b_ in st.body + st.orelse for n_ in ast.walk(b_))
            if not used_k and k_ not in vnames:
                st.target = st.target.elts[1]
                st.iter = st.iter.args[0]
        # `for n in ("a", "b"): x = getattr(o, n); B` with n unused in B  ==  `for x in (o.a, o.b): B`
        # (B does not rebind those attributes of `o`, so reading them up front or one by one is the same)
        if (isinstance(st, ast.For) and isinstance(st.target, ast.Name) and isinstance(st.iter, (ast.Tuple, ast.List)) and st.iter.elts and not st.orelse
                and all(isinstance(e, ast.Constant) and isinstance(e.value, str) and e.value.isidentifier() for e in st.iter.elts) and len(st.body) >= 2):
            h_ = st.body[0]
            if (isinstance(h_, ast.Assign) and len(h_.targets) == 1 and isinstance(h_.targets[0], ast.Name) and isinstance(h_.value, ast.Call) and isinstance(h_.value.func, ast.Name)
                    and h_.value.func.id == "getattr" and len(h_.value.args) == 2 and not h_.value.keywords and isinstance(h_.value.args[0], ast.Name)
                    and isinstance(h_.value.args[1], ast.Name) and h_.value.args[1].id == st.target.id and h_.targets[0].id != st.target.id):
                n_, o_ = st.target.id, h_.value.args[0].id
                names_ = {e.value for e in st.iter.elts}
                rest_ = st.body[1:]
                uses_n = any(isinstance(x_, ast.Name) and x_.id == n_ for b_ in rest_ for x_ in ast.walk(b_))
                rebinds = any((isinstance(x_, ast.Attribute) and isinstance(x_.ctx, (ast.Store, ast.Del)) and x_.attr in names_) or (isinstance(x_, ast.Name) and isinstance(x_.ctx, ast.Store) and x_.id == o_)
                              or (isinstance(x_, ast.Call) and isinstance(x_.func, ast.Name) and x_.func.id in ("setattr", "delattr")) for b_ in rest_ for x_ in ast.walk(b_))
                if not uses_n and not rebinds:
                    st.target = ast.copy_location(ast.Name(h_.targets[0].id, ast.Store()), st.target)
                    st.iter = ast.copy_location(ast.Tuple([ast.copy_location(ast.Attribute(ast.Name(o_, ast.Load()), e.value, ast.Load()), e) for e in st.iter.elts], ast.Load()), st.iter)
                    st.body = rest_
                    ast.fix_missing_locations(st)
        return st

    def _simple(self, st: ast.stmt) -> ast.stmt:
        if isinstance(st, ast.AnnAssign) and st.value is not None and isinstance(st.target, ast.Name):
            st = _loc(ast.Assign([st.target], st.value), st)
        # a call that never returns has no value to bind or hand back: `x = self.fail(..)` / `return self.fail(..)` == `self.fail(..)`
        if isinstance(st, (ast.Assign, ast.Return)) and isinstance(st.value, ast.Call):
            f_ = st.value.func
            nm_ = f_.attr if isinstance(f_, ast.Attribute) else (f_.id if isinstance(f_, ast.Name) else "")
            if nm_ in self.noreturn and (isinstance(st, ast.Return) or (len(st.targets) == 1 and isinstance(st.targets[0], ast.Name))):
                st = _loc(ast.Expr(st.value), st)
        if isinstance(st, ast.Assign) and len(st.targets) == 1 and isinstance(st.targets[0], ast.Name) and isinstance(st.value, ast.BinOp) and isinstance(st.value.left, ast.Name) and st.value.left.id == st.targets[0].id and isinstance(st.value.op, (ast.Add, ast.Sub, ast.Mult)):
            st = _loc(ast.AugAssign(st.targets[0], st.value.op, st.value.right), st)
        for fld, val in ast.iter_fields(st):
            if isinstance(val, ast.expr):
                setattr(st, fld, _ExprNorm().visit(val))
            elif isinstance(val, list) and fld not in ("body", "orelse", "finalbody", "handlers"):
                setattr(st, fld, [_ExprNorm().visit(v) if isinstance(v, ast.expr) else v for v in val])
        if isinstance(st, (ast.For, ast.AsyncFor)):
            pass
        for fld in ("value", "test", "iter", "exc"):
            v = getattr(st, fld, None)
            if isinstance(v, ast.AST):
                _norm_expr_tests(v)
        if isinstance(st, ast.With):
            for it in st.items:
                it.context_expr = _ExprNorm().visit(it.context_expr)
        return st


class _ExprNorm(ast.NodeTransformer):
    def visit_Lambda(self, node):
        self.generic_visit(node)
        return node

    def visit_BinOp(self, node):
        self.generic_visit(node)
        # [] + X == X == X + []   (X a list display or comprehension, or the other operand of such a sum)
        if isinstance(node.op, ast.Add):
            for a, b in ((node.left, node.right), (node.right, node.left)):
                if isinstance(a, ast.List) and not a.elts and isinstance(b, (ast.List, ast.ListComp, ast.BinOp)):
                    return b
        return node

    def visit_Subscript(self, node):
        self.generic_visit(node)
        # {True: X, False: Y}[K] == X if K else Y   (K evidently boolean)
        d = node.value
        if isinstance(node.ctx, ast.Load) and isinstance(d, ast.Dict) and len(d.keys) == 2 and all(isinstance(k, ast.Constant) and isinstance(k.value, bool) for k in d.keys) and d.keys[0].value != d.keys[1].value \
                and (_evidently_bool(node.slice) or isinstance(node.slice, ast.Name)):
            t, f = (d.values[0], d.values[1]) if d.keys[0].value else (d.values[1], d.values[0])
            return ast.copy_location(ast.IfExp(node.slice, t, f), node)
        return node

    def _flatten_gens(self, node):
        # f(x) for x in [y for y in it if c]  ==  f(x) for x in it if c   (inner element is the inner variable itself)
        for g in node.generators:
            it = g.iter
            if isinstance(it, (ast.ListComp, ast.GeneratorExp)) and len(it.generators) == 1 and isinstance(it.elt, ast.Name) and isinstance(it.generators[0].target, ast.Name) and it.elt.id == it.generators[0].target.id and isinstance(g.target, ast.Name) and not it.generators[0].is_async:
                inner = it.generators[0]
                ren = _ParamSubst({inner.target.id: ast.Name(g.target.id, ast.Load())})
                g.iter = inner.iter
                g.ifs = [ren.visit(copy.deepcopy(c)) for c in inner.ifs] + list(g.ifs)
        return node

    def _unroll_display(self, node):
        """{f(k, v) for k, v in ((a, b), (c, d))} over a literal table of names / constants, without conditions,
        is the display of its instances."""
        if len(node.generators) != 1:
            return node
        g = node.generators[0]
        if g.ifs or g.is_async or not isinstance(g.iter, (ast.Tuple, ast.List)) or not (1 <= len(g.iter.elts) <= 24):
            return node
        names = [g.target.id] if isinstance(g.target, ast.Name) else ([x.id for x in g.target.elts] if isinstance(g.target, (ast.Tuple, ast.List)) and all(isinstance(x, ast.Name) for x in g.target.elts) else None)
        if names is None:
            return node
        rows = []
        for e in g.iter.elts:
            vals = [e] if isinstance(g.target, ast.Name) else (list(e.elts) if isinstance(e, (ast.Tuple, ast.List)) and len(e.elts) == len(names) else None)
            if vals is None or not all(_alias_expr(v) for v in vals):
                return node
            rows.append(dict(zip(names, vals)))
        inst = lambda expr, row: self.visit(_ParamSubst(row).visit(copy.deepcopy(expr)))
        if isinstance(node, ast.DictComp):
            return ast.copy_location(ast.Dict([inst(node.key, r) for r in rows], [inst(node.value, r) for r in rows]), node)
        if isinstance(node, ast.ListComp):
            return ast.copy_location(ast.List([inst(node.elt, r) for r in rows], ast.Load()), node)
        return node

    def _items_gens(self, node):
        """`.. for k in D if .. D[k] ..`  ==  `.. for k, v in D.items() if .. v ..`  (D a name / attribute chain; iterating a
        mapping yields its keys, and D[k] of a key being iterated is that key's value)."""
        for g in node.generators:
            if g.is_async or not isinstance(g.target, ast.Name) or not _alias_expr(g.iter) or isinstance(g.iter, ast.Constant):
                continue
            k_, d_ = g.target.id, ast.unparse(g.iter)
            parts = [x for x in ([getattr(node, "elt", None), getattr(node, "key", None), getattr(node, "value", None)] + [i for g2 in node.generators for i in g2.ifs]) if x is not None]
            hits = [n for p_ in parts for n in ast.walk(p_) if isinstance(n, ast.Subscript) and isinstance(n.ctx, ast.Load) and isinstance(n.slice, ast.Name) and n.slice.id == k_ and ast.unparse(n.value) == d_]
            if not hits:
                continue
            used = {n.id for n in ast.walk(node) if isinstance(n, ast.Name)}
            v_ = next(c for c in (k_ + "_held", k_ + "_held2", k_ + "_held3") if c not in used)

            class _Sub(ast.NodeTransformer):
                def visit_Subscript(s, n):
                    if isinstance(n.ctx, ast.Load) and isinstance(n.slice, ast.Name) and n.slice.id == k_ and ast.unparse(n.value) == d_:
                        return ast.copy_location(ast.Name(v_, ast.Load()), n)
                    return s.generic_visit(n)
            for fld in ("elt", "key", "value"):
                if getattr(node, fld, None) is not None:
                    setattr(node, fld, _Sub().visit(getattr(node, fld)))
            for g2 in node.generators:
                g2.ifs = [_Sub().visit(i) for i in g2.ifs]
            g.target = ast.copy_location(ast.Tuple([ast.Name(k_, ast.Store()), ast.Name(v_, ast.Store())], ast.Store()), g.target)
            g.iter = ast.copy_location(ast.Call(ast.Attribute(g.iter, "items", ast.Load()), [], []), g.iter)
            ast.fix_missing_locations(node)
        return node

    def _splice(self, node):
        """`[*(a, b), c]` == `[a, b, c]`: a starred display inside a display is its elements."""
        self.generic_visit(node)
        if isinstance(node.ctx, ast.Load) and any(isinstance(e, ast.Starred) and isinstance(e.value, (ast.Tuple, ast.List)) for e in node.elts):
            out = []
            for e in node.elts:
                if isinstance(e, ast.Starred) and isinstance(e.value, (ast.Tuple, ast.List)):
                    out.extend(e.value.elts)
                else:
                    out.append(e)
            node.elts = out
        return node

    def visit_List(self, node):
        return self._splice(node)

    def visit_Tuple(self, node):
        return self._splice(node)

    def visit_Set(self, node):
        self.generic_visit(node)
        return node

    def visit_ListComp(self, node):
        self.generic_visit(node)
        return self._unroll_display(self._flatten_gens(self._items_gens(node)))

    def visit_DictComp(self, node):
        self.generic_visit(node)
        return self._unroll_display(self._flatten_gens(self._items_gens(node)))

    def visit_GeneratorExp(self, node):
        self.generic_visit(node)
        return self._flatten_gens(self._items_gens(node))

    def visit_SetComp(self, node):
        self.generic_visit(node)
        return self._flatten_gens(self._items_gens(node))

    def visit_Call(self, node: ast.Call):
        self.generic_visit(node)
        f = node.func
        # f(**{"k": v}) == f(k=v) for identifier keys
        kws = []
        for k in node.keywords:
            if k.arg is None and isinstance(k.value, ast.Dict) and k.value.keys and all(isinstance(x, ast.Constant) and isinstance(x.value, str) and x.value.isidentifier() for x in k.value.keys):
                kws.extend(ast.keyword(x.value, v) for x, v in zip(k.value.keys, k.value.values))
            else:
                kws.append(k)
        node.keywords = kws
        # (lambda a: body)(x) == body[a := x]  (arguments that are names / attribute chains / constants)
        if isinstance(f, ast.Lambda) and not node.keywords and not (f.args.vararg or f.args.kwarg or f.args.kwonlyargs or f.args.defaults or f.args.posonlyargs) and len(f.args.args) == len(node.args) and all(_alias_expr(a) for a in node.args):
            return ast.copy_location(_ParamSubst({p_.arg: a for p_, a in zip(f.args.args, node.args)}).visit(copy.deepcopy(f.body)), node)
        # partial(F, a, k=v)(b) == F(a, b, k=v)
        if isinstance(f, ast.Call) and ((isinstance(f.func, ast.Name) and f.func.id == "partial") or (isinstance(f.func, ast.Attribute) and f.func.attr == "partial" and isinstance(f.func.value, ast.Name) and f.func.value.id == "functools")) \
                and f.args and not any(isinstance(a, ast.Starred) for a in f.args + node.args) and not any(k.arg is None for k in f.keywords + node.keywords):
            return self.visit(ast.copy_location(ast.Call(f.args[0], list(f.args[1:]) + list(node.args), list(f.keywords) + list(node.keywords)), node))
        # getattr(o, "name") == o.name
        if isinstance(f, ast.Name) and f.id == "getattr" and len(node.args) == 2 and not node.keywords and isinstance(node.args[1], ast.Constant) and isinstance(node.args[1].value, str) and node.args[1].value.isidentifier():
            return ast.copy_location(ast.Attribute(node.args[0], node.args[1].value, ast.Load()), node)
        # list((a, b)) == [a, b];  tuple([a, b]) == (a, b)
        if isinstance(f, ast.Name) and f.id in ("list", "tuple") and len(node.args) == 1 and not node.keywords and isinstance(node.args[0], (ast.List, ast.Tuple)) and not any(isinstance(x, ast.Starred) for x in node.args[0].elts):
            ctor = ast.List if f.id == "list" else ast.Tuple
            return ast.copy_location(ctor(list(node.args[0].elts), ast.Load()), node)
        # {k1: v1, ..}.items() == ((k1, v1), ..); .keys() / .values() alike (a literal table read in order)
        if isinstance(f, ast.Attribute) and f.attr in ("items", "keys", "values") and isinstance(f.value, ast.Dict) and not node.args and not node.keywords and f.value.keys and all(k is not None for k in f.value.keys):
            d_ = f.value
            rows = [ast.Tuple([k, v], ast.Load()) for k, v in zip(d_.keys, d_.values)] if f.attr == "items" else (list(d_.keys) if f.attr == "keys" else list(d_.values))
            return ast.copy_location(ast.Tuple(rows, ast.Load()), node)
        # dict(k=v, ..) == {"k": v, ..}
        if isinstance(f, ast.Name) and f.id == "dict" and not node.args and node.keywords and all(k.arg is not None for k in node.keywords):
            return ast.copy_location(ast.Dict([ast.Constant(k.arg) for k in node.keywords], [k.value for k in node.keywords]), node)
        # dict(<(k, v) for ..>) == {k: v for ..}
        if isinstance(f, ast.Name) and f.id == "dict" and len(node.args) == 1 and not node.keywords and isinstance(node.args[0], (ast.GeneratorExp, ast.ListComp)) and isinstance(node.args[0].elt, ast.Tuple) and len(node.args[0].elt.elts) == 2:
            return ast.copy_location(ast.DictComp(node.args[0].elt.elts[0], node.args[0].elt.elts[1], node.args[0].generators), node)
        # list(<generator expression>) == [<list comprehension>]
        if isinstance(f, ast.Name) and f.id == "list" and len(node.args) == 1 and not node.keywords and isinstance(node.args[0], ast.GeneratorExp):
            return self._unroll_display(ast.copy_location(ast.ListComp(node.args[0].elt, node.args[0].generators), node))
        # tuple(E for x in (a, b)) == (E[a], E[b])
        if isinstance(f, ast.Name) and f.id == "tuple" and len(node.args) == 1 and not node.keywords and isinstance(node.args[0], (ast.GeneratorExp, ast.ListComp)):
            disp = self._unroll_display(ast.copy_location(ast.ListComp(node.args[0].elt, node.args[0].generators), node))
            if isinstance(disp, ast.List):
                return ast.copy_location(ast.Tuple(disp.elts, ast.Load()), node)
        # isinstance(x, (A,)) == isinstance(x, A)
        if isinstance(f, ast.Name) and f.id in ("isinstance", "issubclass") and len(node.args) == 2 and isinstance(node.args[1], ast.Tuple) and len(node.args[1].elts) == 1 and not isinstance(node.args[1].elts[0], ast.Starred):
            node.args[1] = node.args[1].elts[0]
        # .get(k, None) == .get(k)
        if isinstance(f, ast.Attribute) and f.attr == "get" and len(node.args) == 2 and isinstance(node.args[1], ast.Constant) and node.args[1].value is None and not node.keywords:
            node.args = node.args[:1]
        # consumer([listcomp]) == consumer(genexp)
        is_consumer = (isinstance(f, ast.Name) and f.id in GEN_CONSUMERS) or (isinstance(f, ast.Attribute) and f.attr == "join")
        if is_consumer and len(node.args) >= 1 and isinstance(node.args[0], ast.ListComp):
            lc = node.args[0]
            node.args[0] = _loc(ast.GeneratorExp(lc.elt, lc.generators), lc)
        # list(d.keys()) == list(d)
        if isinstance(f, ast.Name) and f.id in ("list", "tuple", "sorted", "set", "iter", "len") and len(node.args) == 1:
            a = node.args[0]
            if isinstance(a, ast.Call) and isinstance(a.func, ast.Attribute) and a.func.attr == "keys" and not a.args and not a.keywords:
                node.args[0] = a.func.value
        # identity comprehension: consumer(x for x in xs) == consumer(xs)
        if is_consumer and len(node.args) >= 1 and isinstance(node.args[0], ast.GeneratorExp):
            g = node.args[0]
            if len(g.generators) == 1 and not g.generators[0].ifs and isinstance(g.elt, ast.Name) and isinstance(g.generators[0].target, ast.Name) and g.elt.id == g.generators[0].target.id:
                node.args[0] = g.generators[0].iter
        return node

    def visit_BoolOp(self, node: ast.BoolOp):
        self.generic_visit(node)
        # isinstance(x, A) or isinstance(x, B) == isinstance(x, (A, B))
        if isinstance(node.op, ast.Or):
            out: List[ast.expr] = []
            for v in node.values:
                if _is_isinstance(v) and out and _is_isinstance(out[-1]) and ast.dump(out[-1].args[0]) == ast.dump(v.args[0]):
                    prev = out[-1]
                    out[-1] = _loc(ast.Call(prev.func, [prev.args[0], _loc(ast.Tuple(_classes(prev.args[1]) + _classes(v.args[1]), ast.Load()), prev)], []), prev)
                else:
                    out.append(v)
            if len(out) == 1:
                return out[0]
            node.values = out
        return node

    def visit_Compare(self, node: ast.Compare):
        # symmetric comparisons are written with the constant on the right: `None is x` = `x is None`, `"a" == t` = `t == "a"`
        if len(node.ops) == 1 and isinstance(node.ops[0], (ast.Is, ast.IsNot, ast.Eq, ast.NotEq)) and isinstance(node.left, ast.Constant) and not isinstance(node.comparators[0], ast.Constant):
            node.left, node.comparators = node.comparators[0], [node.left]
        # identity is symmetric: the operands of `is` / `is not` are put in a fixed order — here by their *shape* (names do
        # not count: locals are renamed later, see alpha.py); operands of one shape are ordered by text after that renaming
        # (`sort_identity_tests`, called by the loader)
        if len(node.ops) == 1 and isinstance(node.ops[0], (ast.Is, ast.IsNot)) and not isinstance(node.left, ast.Constant) and not isinstance(node.comparators[0], ast.Constant):
            if _shape_key(node.comparators[0]) < _shape_key(node.left):
                node.left, node.comparators = node.comparators[0], [node.left]
        self.generic_visit(node)
        # a < b < c  ==  a < b and b < c   (the middle operands are evaluated once: only for side-effect-free ones)
        if len(node.ops) > 1 and all(_pure_expr(c) for c in node.comparators[:-1]):
            parts = []
            left = node.left
            for op, right in zip(node.ops, node.comparators):
                parts.append(_loc(ast.Compare(copy.deepcopy(left), [op], [right]), node))
                left = right
            return self.visit(_loc(ast.BoolOp(ast.And(), parts), node))
        # x in d.keys() == x in d
        if len(node.ops) == 1 and isinstance(node.ops[0], (ast.In, ast.NotIn)):
            c = node.comparators[0]
            if isinstance(c, ast.Call) and isinstance(c.func, ast.Attribute) and c.func.attr == "keys" and not c.args:
                node.comparators[0] = c.func.value
        return node

    def visit_UnaryOp(self, node: ast.UnaryOp):
        self.generic_visit(node)
        if isinstance(node.op, ast.Not):
            t, fl = _positive(node)
            if isinstance(t, ast.Compare) or isinstance(t, ast.BoolOp):
                return _loc(_negate(t), node) if fl else t
            # `not not isinstance(..)`: the value of these calls is a bool already
            if not fl and isinstance(t, ast.Call) and isinstance(t.func, ast.Name) and t.func.id in ("isinstance", "issubclass", "hasattr", "callable", "any", "all", "bool"):
                return t
        return node


def _is_isinstance(e: ast.AST) -> bool:
    return isinstance(e, ast.Call) and isinstance(e.func, ast.Name) and e.func.id == "isinstance" and len(e.args) == 2 and not e.keywords


def _classes(e: ast.expr) -> List[ast.expr]:
    return list(e.elts) if isinstance(e, ast.Tuple) else [e]


# ------------------------------------------------------------------ C5: temporaries
def _stores(fn: ast.AST) -> Dict[str, int]:
    """How often each name is bound in fn (nested functions included: a closure may rebind via nonlocal; parameters count)."""
    cnt: Dict[str, int] = {}

    def add(n, k=1):
        cnt[n] = cnt.get(n, 0) + k

    for n in ast.walk(fn):
        if isinstance(n, ast.Name) and isinstance(n.ctx, (ast.Store, ast.Del)):
            add(n.id)
        elif isinstance(n, ast.arg):
            add(n.arg)
        elif isinstance(n, ast.ExceptHandler) and n.name:
            add(n.name)
        elif isinstance(n, (ast.FunctionDef, ast.AsyncFunctionDef, ast.ClassDef)) and n is not fn:
            add(n.name)
        elif isinstance(n, (ast.Import, ast.ImportFrom)):
            for al in n.names:
                add((al.asname or al.name).split(".")[0])
        elif isinstance(n, (ast.Global, ast.Nonlocal)):
            for x in n.names:
                add(x, 2)
        elif isinstance(n, ast.AugAssign) and isinstance(n.target, ast.Name):
            add(n.target.id)
    return cnt


def _alias_expr(e: ast.AST) -> bool:
    """Name / attribute chain / constant: reading it has no effect and (by convention of the analysed code) a stable value."""
    if isinstance(e, ast.Constant):
        return True
    if isinstance(e, ast.Name):
        return True
    if isinstance(e, ast.Attribute):
        return _alias_expr(e.value)
    return False


def _pure_expr(e: ast.AST) -> bool:
    if _alias_expr(e):
        return True
    if isinstance(e, ast.Call):
        return isinstance(e.func, ast.Name) and e.func.id in PURE_BUILTINS and not e.keywords and all(_pure_expr(a) for a in e.args)
    if isinstance(e, ast.BinOp):
        return _pure_expr(e.left) and _pure_expr(e.right)
    if isinstance(e, ast.UnaryOp):
        return _pure_expr(e.operand)
    if isinstance(e, ast.Compare):
        return _pure_expr(e.left) and all(_pure_expr(c) for c in e.comparators)
    if isinstance(e, ast.Subscript):
        return _pure_expr(e.value) and _pure_expr(e.slice)
    if isinstance(e, ast.Tuple):
        return all(_pure_expr(x) for x in e.elts)
    return False


def _attrs(e: ast.AST) -> Set[str]:
    return {n.attr for n in ast.walk(e) if isinstance(n, ast.Attribute)}


def _stored_attrs(fn: ast.AST) -> Set[str]:
    """Attribute names assigned, deleted or passed to setattr/delattr anywhere in fn."""
    out: Set[str] = set()
    for n in ast.walk(fn):
        if isinstance(n, ast.Attribute) and isinstance(n.ctx, (ast.Store, ast.Del)):
            out.add(n.attr)
        elif isinstance(n, ast.Call) and isinstance(n.func, ast.Name) and n.func.id in ("setattr", "delattr") and len(n.args) >= 2:
            out.add(n.args[1].value if isinstance(n.args[1], ast.Constant) and isinstance(n.args[1].value, str) else "*")
    if "*" in out:
        out |= {n.attr for n in ast.walk(fn) if isinstance(n, ast.Attribute)}
    return out


def _pure_literal(e: ast.AST) -> bool:
    """A list / tuple / set / dict display whose elements are names, attribute chains, constants, subscripts of
    those, or calls of total built-ins on those (`type(None)`, `Optional[str]`)."""
    def elem(x):
        if _alias_expr(x):
            return True
        if isinstance(x, ast.Subscript):
            return elem(x.value) and (elem(x.slice) or isinstance(x.slice, ast.Tuple) and all(elem(y) for y in x.slice.elts))
        if isinstance(x, ast.Call):
            return isinstance(x.func, ast.Name) and x.func.id in PURE_BUILTINS and not x.keywords and all(elem(a) for a in x.args)
        if isinstance(x, (ast.List, ast.Tuple, ast.Set)):
            return all(elem(y) for y in x.elts)
        return False

    if isinstance(e, (ast.List, ast.Tuple, ast.Set)):
        return bool(e.elts) and all(elem(x) for x in e.elts)
    if isinstance(e, ast.Dict):
        return bool(e.keys) and all(k is not None and elem(k) for k in e.keys) and all(elem(v) for v in e.values)
    return False


class _Subst(ast.NodeTransformer):
    def __init__(self, name: str, value: ast.expr):
        self.name, self.value, self.n = name, value, 0

    def visit_Name(self, node: ast.Name):
        if node.id == self.name and isinstance(node.ctx, ast.Load):
            self.n += 1
            return ast.copy_location(copy.deepcopy(self.value), node)
        return node


def _uses(node: ast.AST, name: str) -> int:
    return sum(1 for n in ast.walk(node) if isinstance(n, ast.Name) and n.id == name and isinstance(n.ctx, ast.Load))


def _names(e: ast.AST) -> Set[str]:
    return {n.id for n in ast.walk(e) if isinstance(n, ast.Name)}


def propagate_temporaries(fn: ast.AST, keep: Set[str]) -> int:
    """C5 on one function (not descending into nested defs for definitions; uses inside them are substituted)."""
    changed = 0
    for _round in range(6):
        cnt = _stores(fn)
        did = False
        for blk in _blocks_of(fn):
            i = 0
            while i < len(blk):
                st = blk[i]
                if isinstance(st, ast.Assign) and len(st.targets) == 1 and isinstance(st.targets[0], ast.Name):
                    nm = st.targets[0].id
                    if nm not in keep and cnt.get(nm, 0) == 1 and (not nm.startswith("__") or nm.startswith("__h")):
                        val = st.value
                        total = _uses(fn, nm)
                        # (a) side-effect-free temporaries over stable names
                        if _alias_expr(val) and not isinstance(val, ast.Constant) and all(cnt.get(x, 0) <= 1 for x in _names(val)) and nm not in _names(val) and _dominates(fn, blk, i, nm) and not (_attrs(val) & _stored_attrs(fn)):
                            s = _Subst(nm, val)
                            for other in _all_stmts_after(fn, st):
                                s.visit(other)
                            if s.n == total:
                                del blk[i]
                                changed += 1
                                did = True
                                continue
                        # (c) a literal table of stable names, used once: where it is built does not matter
                        elif total == 1 and _pure_literal(val) and all(cnt.get(x, 0) <= 1 for x in _names(val)) and _dominates(fn, blk, i, nm) and not (_attrs(val) & _stored_attrs(fn)):
                            s = _Subst(nm, val)
                            for other in _all_stmts_after(fn, st):
                                s.visit(other)
                            if s.n == 1:
                                del blk[i]
                                changed += 1
                                did = True
                                continue
                        # (b) bound once, used once, in the directly following statement, evaluated first there
                        elif total == 1 and i + 1 < len(blk) and _first_evaluated_use(blk[i + 1], nm):
                            _Subst(nm, val).visit(blk[i + 1])
                            del blk[i]
                            changed += 1
                            did = True
                            continue
                    # (b') bound on several branches, each binding used once, in the directly following statement
                    elif nm not in keep and cnt.get(nm, 0) > 1 and not nm.startswith("__") and _uses(fn, nm) == cnt[nm]:
                        sites = [(b2, k) for b2 in _blocks_of(fn) for k, s2 in enumerate(b2)
                                 if isinstance(s2, ast.Assign) and len(s2.targets) == 1 and isinstance(s2.targets[0], ast.Name) and s2.targets[0].id == nm]
                        if len(sites) == cnt[nm] and all(k + 1 < len(b2) and nm not in _names(b2[k].value) and _first_evaluated_use(b2[k + 1], nm) for b2, k in sites):
                            for b2, k in sorted(sites, key=lambda t: -t[1]):
                                _Subst(nm, b2[k].value).visit(b2[k + 1])
                            for b2, k in sites:
                                tgt = [x for x in b2 if isinstance(x, ast.Assign) and len(x.targets) == 1 and isinstance(x.targets[0], ast.Name) and x.targets[0].id == nm]
                                for x in tgt:
                                    b2.remove(x)
                            changed += 1
                            did = True
                            break
                i += 1
        if not did:
            break
    return changed


def _blocks_of(fn: ast.AST) -> List[List[ast.stmt]]:
    out = []
    stack = [fn]
    while stack:
        n = stack.pop()
        for fld in ("body", "orelse", "finalbody"):
            b = getattr(n, fld, None)
            if isinstance(b, list) and b and isinstance(b[0], ast.stmt):
                out.append(b)
                for s in b:
                    if not isinstance(s, (ast.FunctionDef, ast.AsyncFunctionDef, ast.ClassDef)):
                        stack.append(s)
        if isinstance(n, ast.Try):
            for h in n.handlers:
                stack.append(h)
    return out


def _dominates(fn: ast.AST, blk: List[ast.stmt], i: int, nm: str) -> bool:
    """Every use of nm lies after the definition, inside the definition's block (or nested in its later statements)."""
    later = 0
    for st in blk[i + 1 :]:
        later += _uses(st, nm)
    return later == _uses(fn, nm)


def _all_stmts_after(fn: ast.AST, st: ast.stmt) -> List[ast.stmt]:
    for blk in _blocks_of(fn):
        for k, s in enumerate(blk):
            if s is st:
                return blk[k + 1 :]
    return []


def _first_evaluated_use(st: ast.stmt, nm: str) -> bool:
    """The single use of nm in st is in a position evaluated unconditionally and before any call or other effect
    of st (so moving the defining expression there keeps the order of effects)."""
    if isinstance(st, (ast.FunctionDef, ast.AsyncFunctionDef, ast.ClassDef, ast.For, ast.AsyncFor, ast.While, ast.Try, ast.With)):
        # only the header expression of a loop/with is evaluated first, once
        hdr = st.iter if isinstance(st, (ast.For, ast.AsyncFor)) else None
        if hdr is None or _uses(hdr, nm) != 1 or _uses(st, nm) != 1:
            return False
        return _evaluated_first(hdr, nm)
    if isinstance(st, ast.If):
        if _uses(st.test, nm) != 1 or _uses(st, nm) != 1:
            return False
        return _evaluated_first(st.test, nm)
    if _uses(st, nm) != 1:
        return False
    for n in ast.walk(st):
        if isinstance(n, (ast.Lambda, ast.ListComp, ast.SetComp, ast.DictComp, ast.GeneratorExp)) and _uses(n, nm):
            # inside a comprehension's first iterable is fine (evaluated once, first); elsewhere not
            if isinstance(n, ast.Lambda) or _uses(n.generators[0].iter, nm) != 1:
                return False
    root = st.value if isinstance(st, (ast.Assign, ast.Expr, ast.Return, ast.AugAssign)) else (st.exc if isinstance(st, ast.Raise) else None)
    if root is None:
        return False
    if isinstance(st, ast.Assign) and any(not isinstance(t, ast.Name) for t in st.targets):
        # target sub-expressions (obj.attr = .., d[k] = ..) are evaluated after the value: fine
        if any(_uses(t, nm) for t in st.targets):
            return False
    return _evaluated_first(root, nm)


def _evaluated_first(e: ast.expr, nm: str) -> bool:
    """No call, await or yield is evaluated in `e` before the use of nm (left-to-right evaluation order)."""
    found = False

    def go(n) -> bool:
        """returns True when an effect was met before the use; sets found when the use is reached"""
        nonlocal found
        if found:
            return False
        if isinstance(n, ast.Name):
            if n.id == nm and isinstance(n.ctx, ast.Load):
                found = True
            return False
        if isinstance(n, (ast.IfExp,)):
            if go(n.test):
                return True
            if found:
                return False
            return bool(_uses(n.body, nm) or _uses(n.orelse, nm))  # conditional evaluation: not allowed
        if isinstance(n, ast.BoolOp):
            for k, v in enumerate(n.values):
                if k > 0 and _uses(v, nm):
                    return True  # short-circuit: conditional
                if go(v):
                    return True
                if found:
                    return False
            return False
        if isinstance(n, ast.Call):
            for c in [n.func] + list(n.args) + [k.value for k in n.keywords]:
                if go(c):
                    return True
                if found:
                    return False
            return True  # the call itself happens before anything after it
        if isinstance(n, (ast.Await, ast.Yield, ast.YieldFrom)):
            return True
        for c in ast.iter_child_nodes(n):
            if go(c):
                return True
            if found:
                return False
        return False

    blocked = go(e)
    return found and not blocked


# ------------------------------------------------------------------ C6: accumulation loops
def au_pure(e: ast.expr) -> bool:
    """The test has no effect worth an iteration more or less: only reads and calls of pure builtins (without `break` an
    `any()` stops at the first hit, the loop did not — the difference is invisible for such tests)."""
    for n in ast.walk(e):
        if isinstance(n, ast.Call) and not (isinstance(n.func, ast.Name) and n.func.id in ("isinstance", "issubclass", "len", "hasattr", "callable", "type", "id", "bool", "str", "int")):
            return False
        if isinstance(n, (ast.Await, ast.Yield, ast.YieldFrom, ast.NamedExpr)):
            return False
    return True


def _loops_to_comprehensions(fn: ast.AST) -> int:
    changed = 0
    for blk in _blocks_of(fn):
        i = 0
        while i < len(blk):
            st = blk[i]
            # search loops: `for x in I: if P: return True` + `return False`  ==  `return any(P for x in I)`  (dually all())
            if isinstance(st, ast.For) and not st.orelse and i + 1 < len(blk) and isinstance(blk[i + 1], ast.Return) and isinstance(blk[i + 1].value, ast.Constant) and isinstance(blk[i + 1].value.value, bool):
                body = [x for x in st.body if not isinstance(x, ast.Pass)]
                if len(body) == 1 and isinstance(body[0], ast.If):
                    iff = body[0]
                    tb = [x for x in iff.body if not isinstance(x, ast.Pass)]
                    eb = [x for x in iff.orelse if not isinstance(x, ast.Pass)]
                    hit, test = None, None
                    if len(tb) == 1 and not eb and isinstance(tb[0], ast.Return):
                        hit, test = tb[0], iff.test
                    elif len(eb) == 1 and not tb and isinstance(eb[0], ast.Return):
                        hit, test = eb[0], _negate(iff.test)
                    if hit is not None and isinstance(hit.value, ast.Constant) and isinstance(hit.value.value, bool) and hit.value.value != blk[i + 1].value.value:
                        gen = ast.comprehension(st.target, st.iter, [], 0)
                        if hit.value.value:
                            val = ast.Call(ast.Name("any", ast.Load()), [ast.GeneratorExp(test, [gen])], [])
                        else:
                            val = ast.Call(ast.Name("all", ast.Load()), [ast.GeneratorExp(_negate(test), [gen])], [])
                        new = _loc(ast.Return(val), st)
                        ast.fix_missing_locations(new)
                        blk[i : i + 2] = [new]
                        changed += 1
                        continue
            # flag loops: `f = False; for x in I: if P: f = True; break`  ==  `f = any(P for x in I)`  (dually `f = True .. f = False` -> all)
            if isinstance(st, ast.For) and not st.orelse and i > 0 and isinstance(blk[i - 1], ast.Assign) and len(blk[i - 1].targets) == 1 and isinstance(blk[i - 1].targets[0], ast.Name) \
                    and isinstance(blk[i - 1].value, ast.Constant) and isinstance(blk[i - 1].value.value, bool):
                fl = blk[i - 1].targets[0].id
                body = [x for x in st.body if not isinstance(x, ast.Pass)]
                if len(body) == 1 and isinstance(body[0], ast.If) and not [x for x in body[0].orelse if not isinstance(x, ast.Pass)]:
                    tb = [x for x in body[0].body if not isinstance(x, ast.Pass)]
                    if tb and isinstance(tb[-1], ast.Break):
                        tb = tb[:-1]
                    if len(tb) == 1 and isinstance(tb[0], ast.Assign) and len(tb[0].targets) == 1 and isinstance(tb[0].targets[0], ast.Name) and tb[0].targets[0].id == fl \
                            and isinstance(tb[0].value, ast.Constant) and isinstance(tb[0].value.value, bool) and tb[0].value.value != blk[i - 1].value.value \
                            and not _uses(body[0].test, fl) and not _uses(st.iter, fl) and au_pure(body[0].test):
                        gen = ast.comprehension(st.target, st.iter, [], 0)
                        if tb[0].value.value:
                            val = ast.Call(ast.Name("any", ast.Load()), [ast.GeneratorExp(body[0].test, [gen])], [])
                        else:
                            val = ast.Call(ast.Name("all", ast.Load()), [ast.GeneratorExp(_negate(body[0].test), [gen])], [])
                        new = _loc(ast.Assign([ast.Name(fl, ast.Store())], val), st)
                        ast.fix_missing_locations(new)
                        blk[i - 1 : i + 1] = [new]
                        changed += 1
                        i -= 1
                        continue
            # `x = [fresh list]; x.sort(..)`  ==  `x = sorted([fresh list], ..)`   (likewise `.reverse()` -> list(reversed(..)))
            if isinstance(st, ast.Expr) and isinstance(st.value, ast.Call) and isinstance(st.value.func, ast.Attribute) and st.value.func.attr == "sort" and isinstance(st.value.func.value, ast.Name) and not st.value.args and i > 0:
                nm = st.value.func.value.id
                prev = blk[i - 1]
                if isinstance(prev, ast.Assign) and len(prev.targets) == 1 and isinstance(prev.targets[0], ast.Name) and prev.targets[0].id == nm and (isinstance(prev.value, (ast.ListComp, ast.List)) or (isinstance(prev.value, ast.Call) and isinstance(prev.value.func, ast.Name) and prev.value.func.id in ("list", "sorted"))) and not any(_uses(k.value, nm) for k in st.value.keywords):
                    prev.value = _loc(ast.Call(ast.Name("sorted", ast.Load()), [prev.value], st.value.keywords), prev.value)
                    ast.fix_missing_locations(prev)
                    del blk[i]
                    changed += 1
                    continue
            if isinstance(st, ast.For) and not st.orelse and i > 0:
                r = _accumulation(st)
                if r is not None:
                    acc, kind, elt, conds = r
                    # the accumulator's initialisation: the closest preceding statement binding it, with no use in between
                    j = i - 1
                    while j >= 0 and not _uses_or_binds(blk[j], acc):
                        j -= 1
                    init = blk[j] if j >= 0 else None
                    if init is not None and isinstance(init, ast.Assign) and len(init.targets) == 1 and isinstance(init.targets[0], ast.Name) and init.targets[0].id == acc and _empty_of(init.value) == kind and not _uses(st.iter, acc) and not any(_uses(c, acc) for c in conds) and not _uses(elt[0] if kind == "dict" else elt, acc) and (kind != "dict" or not _uses(elt[1], acc)):
                        gen = ast.comprehension(st.target, st.iter, conds, 0)
                        if kind == "list":
                            val = ast.ListComp(elt, [gen])
                        elif kind == "dict":
                            val = ast.DictComp(elt[0], elt[1], [gen])
                        else:
                            val = ast.Call(ast.Name("sum", ast.Load()), [ast.GeneratorExp(elt, [gen])], [])
                        new = _loc(ast.Assign([ast.Name(acc, ast.Store())], val), st)
                        blk[i] = new
                        del blk[j]
                        changed += 1
                        i -= 1
            i += 1
    return changed


def _uses_or_binds(st: ast.stmt, nm: str) -> bool:
    return any(isinstance(n, ast.Name) and n.id == nm for n in ast.walk(st))


def _empty_of(e: ast.expr) -> Optional[str]:
    if isinstance(e, ast.List) and not e.elts:
        return "list"
    if isinstance(e, ast.Dict) and not e.keys:
        return "dict"
    if isinstance(e, ast.Call) and isinstance(e.func, ast.Name) and not e.args and not e.keywords:
        return {"list": "list", "dict": "dict"}.get(e.func.id)
    if isinstance(e, ast.Constant) and e.value == 0 and not isinstance(e.value, bool):
        return "sum"
    return None


def _accumulation(loop: ast.For):
    """(accumulator, kind, element, conditions) when the loop body is exactly one conditional accumulation."""
    conds: List[ast.expr] = []
    body = loop.body
    while True:
        body = [s for s in body if not isinstance(s, ast.Pass)]
        if len(body) != 1:
            return None
        s = body[0]
        if isinstance(s, ast.If):
            if s.orelse and not _is_pass(s.body):
                return None
            if s.orelse:  # canonical `if c: pass else: X`  ==  `if not c: X`
                conds.append(_negate(s.test))
                body = s.orelse
            else:
                conds.append(s.test)
                body = s.body
            continue
        break
    if isinstance(s, ast.Expr) and isinstance(s.value, ast.Call) and isinstance(s.value.func, ast.Attribute) and s.value.func.attr == "append" and isinstance(s.value.func.value, ast.Name) and len(s.value.args) == 1 and not s.value.keywords:
        return s.value.func.value.id, "list", s.value.args[0], conds
    if isinstance(s, ast.Assign) and len(s.targets) == 1 and isinstance(s.targets[0], ast.Subscript) and isinstance(s.targets[0].value, ast.Name):
        return s.targets[0].value.id, "dict", (s.targets[0].slice, s.value), conds
    if isinstance(s, ast.AugAssign) and isinstance(s.op, ast.Add) and isinstance(s.target, ast.Name):
        return s.target.id, "sum", s.value, conds
    return None


# ------------------------------------------------------------------ C8: inlining of helpers that are new w.r.t. the reference
class _ParamSubst(ast.NodeTransformer):
    def __init__(self, mp: Dict[str, ast.expr]):
        self.mp = mp

    def visit_Name(self, node: ast.Name):
        if node.id in self.mp and isinstance(node.ctx, ast.Load):
            return ast.copy_location(copy.deepcopy(self.mp[node.id]), node)
        return node


def _bind_args(helper: ast.FunctionDef, call: ast.Call, is_method: bool) -> Optional[Tuple[Dict[str, ast.expr], List[ast.stmt]]]:
    a = helper.args
    if a.vararg or a.kwarg or a.posonlyargs:
        return None
    params = [p.arg for p in a.args]
    if is_method:
        params = params[1:]
    if any(isinstance(x, ast.Starred) for x in call.args) or any(k.arg is None for k in call.keywords):
        return None
    bound: Dict[str, ast.expr] = {}
    for p, v in zip(params, call.args):
        bound[p] = v
    if len(call.args) > len(params):
        return None
    kwonly = [p.arg for p in a.kwonlyargs]
    for k in call.keywords:
        if k.arg in bound or (k.arg not in params and k.arg not in kwonly):
            return None
        bound[k.arg] = k.value
    defaults = dict(zip(reversed([p.arg for p in a.args]), reversed(a.defaults)))
    for p, d in zip(kwonly, a.kw_defaults):
        if d is not None:
            defaults[p] = d
    for p in params + kwonly:
        if p not in bound:
            if p not in defaults:
                return None
            bound[p] = defaults[p]
    stores = _stores(helper)
    subst: Dict[str, ast.expr] = {}
    pre: List[ast.stmt] = []
    for p, v in bound.items():
        rebinds = stores.get(p, 0) > 1
        if isinstance(v, ast.Name) and v.id == p and not rebinds:
            continue
        if _alias_expr(v) and not rebinds:
            subst[p] = v
        else:
            pre.append(_loc(ast.Assign([ast.Name(p, ast.Store())], v), call))
    if is_method:
        selfname = a.args[0].arg
        recv = call.func.value
        if not (isinstance(recv, ast.Name) and recv.id == selfname):
            subst[selfname] = recv
    return subst, pre


def _returns_to(body: List[ast.stmt], make) -> Optional[List[ast.stmt]]:
    """Replace tail-position `return e` by make(e); None when a return sits elsewhere (inside a loop / try)."""
    out = []
    for k, s in enumerate(body):
        last = k == len(body) - 1
        if isinstance(s, ast.Return):
            if not last:
                return None
            out.extend(make(s.value, s))
        elif isinstance(s, ast.If):
            if _has_return(s) and not last:
                return None
            if last:
                b = _returns_to(s.body, make)
                o = _returns_to(s.orelse, make) if s.orelse else []
                if b is None or o is None:
                    return None
                out.append(_loc(ast.If(s.test, b or [ast.Pass()], o), s))
            else:
                out.append(s)
        elif isinstance(s, (ast.With,)) and last and _has_return(s):
            b = _returns_to(s.body, make)
            if b is None:
                return None
            out.append(_loc(ast.With(s.items, b), s))
        elif isinstance(s, (ast.FunctionDef, ast.AsyncFunctionDef, ast.ClassDef)):
            out.append(s)  # a local definition: its returns are its own
        else:
            if _has_return(s):
                return None
            out.append(s)
    return out


def _has_return(s: ast.AST) -> bool:
    stack = [s]
    while stack:
        n = stack.pop()
        if isinstance(n, ast.Return):
            return True
        for c in ast.iter_child_nodes(n):
            if not isinstance(c, (ast.FunctionDef, ast.AsyncFunctionDef, ast.Lambda, ast.ClassDef)):
                stack.append(c)
    return False


def _helper_call(e: ast.AST, helpers: Dict[str, Tuple[ast.FunctionDef, bool]], cls: Optional[str]):
    """(name, is_method) if `e` is a call of an inlinable helper."""
    if not isinstance(e, ast.Call):
        return None
    f = e.func
    if isinstance(f, ast.Name) and f.id in helpers and not helpers[f.id][1]:
        return f.id
    if isinstance(f, ast.Attribute) and isinstance(f.value, ast.Name) and f.value.id in ("self", "cls") and cls is not None and f"{cls}.{f.attr}" in helpers:
        return f"{cls}.{f.attr}"
    if isinstance(f, ast.Attribute) and f"<any>.{f.attr}" in helpers and _alias_expr(f.value):
        return f"<any>.{f.attr}"
    return None


def inline_helpers(fn: ast.FunctionDef, helpers: Dict[str, Tuple[ast.FunctionDef, bool]], cls: Optional[str], canon: Canon) -> int:
    """Inline calls of `helpers` ({name or Class.name: (def, is_method)}) inside fn.  Statement positions
    (`h(..)`, `x = h(..)`, `return h(..)`) take the helper's whole body; a call nested in an expression is
    replaced when the helper's body is a single `return <expr>`."""
    changed = 0
    # `K.m(obj, args)` with a new helper method m of class K (an unbound method taken out of a dispatch table) is `obj.m(args)`
    for n in ast.walk(fn):
        if isinstance(n, ast.Call) and isinstance(n.func, ast.Attribute) and isinstance(n.func.value, ast.Name) and n.args and not isinstance(n.args[0], ast.Starred):
            hk = f"{n.func.value.id}.{n.func.attr}"
            if hk in helpers and helpers[hk][1] and _alias_expr(n.args[0]) and n.func.value.id == cls:
                n.func.value = n.args[0]
                n.args = n.args[1:]
                changed += 1
    for _round in range(4):
        did = False
        for blk in _blocks_of(fn):
            i = 0
            while i < len(blk):
                st = blk[i]
                call = None
                mode = None
                if isinstance(st, ast.Expr) and _helper_call(st.value, helpers, cls):
                    call, mode = st.value, "expr"
                elif isinstance(st, ast.Return) and st.value is not None and _helper_call(st.value, helpers, cls):
                    call, mode = st.value, "return"
                elif isinstance(st, ast.Assign) and len(st.targets) == 1 and _helper_call(st.value, helpers, cls):
                    call, mode = st.value, "assign"
                if call is not None:
                    name = _helper_call(call, helpers, cls)
                    hdef, is_method = helpers[name]
                    r = _bind_args(hdef, call, is_method)
                    body = [copy.deepcopy(s) for s in hdef.body if not _docstring(s)]
                    if r is not None and not any(isinstance(n, (ast.Yield, ast.YieldFrom, ast.Await, ast.Global, ast.Nonlocal)) for s in body for n in ast.walk(s)):
                        subst, pre = r
                        body = [_ParamSubst(subst).visit(s) for s in body]
                        # capture: a name the helper binds (its locals, rebound parameters, the parameter temporaries in
                        # `pre`) that the caller still reads after this statement gets a private name in the copy
                        bound_h = set(_stores(hdef)) - {a_.arg for a_ in ast.walk(hdef.args) if isinstance(a_, ast.arg) and a_.arg not in {t.targets[0].id for t in pre} and _stores(hdef).get(a_.arg, 0) <= 1}
                        bound_h -= {(al.asname or al.name).split(".")[0] for n_ in ast.walk(hdef) if isinstance(n_, (ast.Import, ast.ImportFrom)) for al in n_.names}
                        # parameters of lambdas and comprehension variables live in their own scope
                        inner_ = set()
                        for n_ in ast.walk(hdef):
                            if isinstance(n_, ast.Lambda):
                                inner_ |= {a_.arg for a_ in ast.walk(n_.args) if isinstance(a_, ast.arg)}
                            elif isinstance(n_, (ast.ListComp, ast.SetComp, ast.DictComp, ast.GeneratorExp)):
                                inner_ |= {x_.id for g_ in n_.generators for x_ in ast.walk(g_.target) if isinstance(x_, ast.Name)}
                        outer_stores = {x_.id for st_ in ast.walk(hdef) if isinstance(st_, (ast.Assign, ast.AugAssign, ast.AnnAssign, ast.For, ast.With)) for t_ in (st_.targets if isinstance(st_, ast.Assign) else [getattr(st_, "target", None)] if not isinstance(st_, ast.With) else [i_.optional_vars for i_ in st_.items]) if t_ is not None for x_ in ast.walk(t_) if isinstance(x_, ast.Name)}
                        bound_h -= (inner_ - outer_stores)
                        tgt_names = {n_.id for t in (st.targets if mode == "assign" else []) for n_ in ast.walk(t) if isinstance(n_, ast.Name)}
                        clash = sorted(nm_ for nm_ in bound_h if nm_ not in tgt_names and canon_flow.live_after(fn, blk, i, nm_, canon.noreturn))
                        if clash:
                            ren = {nm_: f"{nm_}_{hdef.name.strip('_')}" for nm_ in clash}
                            arg_uses = {nm_ for t in pre for nm_ in _names(t.value)}
                            def _rename_scoped(node, active):
                                # a local function (or lambda) that binds the name itself has its own variable of that name
                                if isinstance(node, (ast.FunctionDef, ast.AsyncFunctionDef, ast.Lambda)):
                                    own = {a_.arg for a_ in ast.walk(node.args) if isinstance(a_, ast.arg)}
                                    if not isinstance(node, ast.Lambda):
                                        own |= {x_.id for b_ in node.body for x_ in ast.walk(b_) if isinstance(x_, ast.Name) and isinstance(x_.ctx, (ast.Store, ast.Del))}
                                    active = {k_: v_ for k_, v_ in active.items() if k_ not in own}
                                if isinstance(node, ast.Name) and node.id in active:
                                    node.id = active[node.id]
                                for c_ in ast.iter_child_nodes(node):
                                    _rename_scoped(c_, active)

                            for s_ in body:
                                _rename_scoped(s_, ren)
                            for t in pre:
                                if t.targets[0].id in ren:
                                    t.targets[0].id = ren[t.targets[0].id]
                        if mode == "return":
                            new = body  # every `return e` of the helper returns from the caller just the same
                            if not _terminates(new, canon.noreturn):
                                new = new + [_loc(ast.Return(None), st)]
                        else:
                            tgt = st.targets[0] if mode == "assign" else None

                            def make(val, at, tgt=tgt):
                                if tgt is None:
                                    return [] if val is None or _alias_expr(val) else [_loc(ast.Expr(val), at)]
                                return [_loc(ast.Assign([copy.deepcopy(tgt)], val if val is not None else ast.Constant(None)), at)]

                            # bring guard clauses into if/else form first, so that every return is in tail position
                            body = canon.block(body, None)
                            new = _returns_to(body, make)
                            if new is None and pre and any(isinstance(p_.value, (ast.Tuple, ast.List, ast.Dict, ast.Constant)) for p_ in pre):
                                # a return inside a loop over a table that is a literal argument of this call: specialise a
                                # copy of the helper to the literal (the loop unrolls), then try again
                                spec = ast.FunctionDef("__spec", ast.arguments([], [], None, [], [], None, []), [copy.deepcopy(p_) for p_ in pre] + [copy.deepcopy(b_) for b_ in body], [], None)
                                ast.fix_missing_locations(spec)
                                for _k in range(3):
                                    spec.body = canon.function_body(spec.body)
                                    if not (propagate_temporaries(spec, keep=set()) or _loops_to_comprehensions(spec)):
                                        break
                                spec.body = canon.function_body(spec.body)
                                new2 = _returns_to(spec.body, make)
                                if new2 is not None:
                                    new, pre = new2, []
                            if new is not None and mode == "assign" and not _terminates([copy.deepcopy(s) for s in hdef.body], canon.noreturn) and not _all_paths_return(hdef.body, canon.noreturn):
                                new = None  # falling off the end would bind None: keep the call
                        if new is not None:
                            for s in pre + new:
                                ast.fix_missing_locations(s)
                            blk[i : i + 1] = pre + new
                            changed += 1
                            did = True
                            continue
                # a call of a (statement-bodied) helper nested in a simple statement, evaluated before any other effect
                # of that statement, is lifted: `__h = helper(..)` in front, the name in its place — then inlined as above
                if isinstance(st, (ast.Assign, ast.Expr, ast.Return, ast.AugAssign, ast.If)) and (call is None or isinstance(st, ast.If)):
                    root = st.test if isinstance(st, ast.If) else st.value
                    lifted = None
                    if isinstance(st, ast.If) and _helper_call(root, helpers, cls) is not None:
                        # `if helper(x):` with a statement-bodied helper: the test is evaluated first, once
                        hb0 = [x for x in helpers[_helper_call(root, helpers, cls)][0].body if not _docstring(x)]
                        if not (len(hb0) == 1 and isinstance(hb0[0], ast.Return)) and not any(isinstance(y, (ast.Yield, ast.YieldFrom)) for x in hb0 for y in ast.walk(x)):
                            tmp0 = f"__h{zlib.crc32(ast.unparse(root).encode()) % 100000}"
                            blk.insert(i, _loc(ast.Assign([ast.Name(tmp0, ast.Store())], root), st))
                            st.test = ast.copy_location(ast.Name(tmp0, ast.Load()), root)
                            changed += 1
                            did = True
                            continue
                    if root is not None:
                        for n in ast.walk(root):
                            nm_ = _helper_call(n, helpers, cls)
                            if nm_ is None or n is root:
                                continue
                            hb = [x for x in helpers[nm_][0].body if not _docstring(x)]
                            if len(hb) == 1 and isinstance(hb[0], ast.Return):
                                continue  # expression-bodied: handled in place below
                            if any(isinstance(y, (ast.Yield, ast.YieldFrom)) for x in hb for y in ast.walk(x)):
                                continue
                            tmp = f"__h{zlib.crc32(ast.unparse(n).encode()) % 100000}"
                            probe = _replace_node_by_name(root, n, tmp)
                            if probe is not None and _evaluated_first(probe, tmp) and not any(isinstance(x, (ast.Lambda, ast.ListComp, ast.DictComp, ast.SetComp, ast.GeneratorExp, ast.IfExp, ast.BoolOp)) and any(y is n for y in ast.walk(x)) for x in ast.walk(root)):
                                lifted = (n, tmp, probe)
                                break
                    if lifted is not None:
                        n, tmp, probe = lifted
                        if isinstance(st, ast.If):
                            st.test = probe
                        else:
                            st.value = probe
                        blk.insert(i, _loc(ast.Assign([ast.Name(tmp, ast.Store())], n), st))
                        changed += 1
                        did = True
                        continue
                # `x = {K: V for T in gen_helper(args) if F}`  ==  `x = {}; for T in gen_helper(args): if F: x[K] = V`  (so that the
                # generator helper can be inlined into the loop, next)
                if isinstance(st, ast.Assign) and len(st.targets) == 1 and isinstance(st.targets[0], ast.Name) and isinstance(st.value, (ast.DictComp, ast.ListComp)) and len(st.value.generators) == 1 and not st.value.generators[0].is_async:
                    g_ = st.value.generators[0]
                    hn_ = _helper_call(g_.iter, helpers, cls)
                    if hn_ is not None and any(isinstance(y, (ast.Yield, ast.YieldFrom)) for y in ast.walk(helpers[hn_][0])) and not _uses(st.value, st.targets[0].id):
                        acc = st.targets[0].id
                        if isinstance(st.value, ast.DictComp):
                            init = ast.Dict([], [])
                            put = ast.Assign([ast.Subscript(ast.Name(acc, ast.Load()), st.value.key, ast.Store())], st.value.value)
                        else:
                            init = ast.List([], ast.Load())
                            put = ast.Expr(ast.Call(ast.Attribute(ast.Name(acc, ast.Load()), "append", ast.Load()), [st.value.elt], []))
                        body_ = [put]
                        for f_ in reversed(g_.ifs):
                            body_ = [ast.If(f_, body_, [])]
                        new_ = [_loc(ast.Assign([ast.Name(acc, ast.Store())], init), st), _loc(ast.For(g_.target, g_.iter, body_, [], None), st)]
                        for s_ in new_:
                            ast.fix_missing_locations(s_)
                        blk[i : i + 1] = new_
                        changed += 1
                        did = True
                        continue
                # `for T in helper(args): B` with a plain (statement-bodied, non-generator) helper: the iterable is evaluated
                # first, once — `t = helper(args); for T in t: B` (the call is then inlined as an assignment)
                if isinstance(st, ast.For) and _helper_call(st.iter, helpers, cls):
                    hd_ = helpers[_helper_call(st.iter, helpers, cls)][0]
                    hb_ = [x for x in hd_.body if not _docstring(x)]
                    if not any(isinstance(y, (ast.Yield, ast.YieldFrom)) for x in hb_ for y in ast.walk(x)) and not (len(hb_) == 1 and isinstance(hb_[0], ast.Return)):
                        tmp = f"__h{zlib.crc32(ast.unparse(st.iter).encode()) % 100000}"
                        blk.insert(i, _loc(ast.Assign([ast.Name(tmp, ast.Store())], st.iter), st))
                        st.iter = ast.copy_location(ast.Name(tmp, ast.Load()), st.iter)
                        changed += 1
                        did = True
                        continue
                # `for T in gen_helper(args): B`  ==  the generator's body with each `yield e` replaced by `T = e; B`
                if isinstance(st, ast.For) and not st.orelse and _helper_call(st.iter, helpers, cls):
                    name = _helper_call(st.iter, helpers, cls)
                    hdef, is_method = helpers[name]
                    new = _inline_generator_loop(st, hdef, is_method)
                    if new is not None:
                        for s_ in new:
                            ast.fix_missing_locations(s_)
                        blk[i : i + 1] = new
                        changed += 1
                        did = True
                        continue
                # expression-bodied helpers nested anywhere in the statement
                n_inl = _inline_expr_helpers(st, helpers, cls)
                if n_inl:
                    changed += n_inl
                    did = True
                i += 1
        if not did:
            break
    return changed


def _replace_node_by_name(root: ast.expr, target: ast.AST, name: str) -> Optional[ast.expr]:
    """A copy of root with the sub-expression `target` (by identity) replaced by Name(name)."""
    found = [False]

    class C(ast.NodeTransformer):
        def generic_visit(self, node):
            if node is target:
                found[0] = True
                return ast.copy_location(ast.Name(name, ast.Load()), node)
            node = copy.copy(node)
            for f, v in ast.iter_fields(node):
                if isinstance(v, list):
                    setattr(node, f, [self.generic_visit(x) if isinstance(x, ast.AST) else x for x in v])
                elif isinstance(v, ast.AST):
                    setattr(node, f, self.generic_visit(v))
            return node

    out = C().generic_visit(root)
    return ast.fix_missing_locations(out) if found[0] else None


def _inline_generator_loop(loop: ast.For, hdef: ast.FunctionDef, is_method: bool) -> Optional[List[ast.stmt]]:
    """The statements equivalent to `for T in hdef(args): B` for a plain generator helper: its body, with every
    `yield e` statement replaced by `T = e; B`.  Side conditions: every yield is an expression statement (its value
    is not used), the helper has no return-with-value and no try/finally, and B has no break / continue / return-less
    flow that would have to resume or abandon the generator (a `return` in B leaves the function either way)."""
    body = [copy.deepcopy(s) for s in hdef.body if not _docstring(s)]
    yields = [n for s in body for n in ast.walk(s) if isinstance(n, (ast.Yield, ast.YieldFrom))]
    if not yields:
        return None
    # `yield from X` as a statement  ==  `for __y in X: yield __y`
    class _YF(ast.NodeTransformer):
        def visit_Expr(self, node):
            if isinstance(node.value, ast.YieldFrom):
                return _loc(ast.For(ast.Name("__y", ast.Store()), node.value.value, [ast.Expr(ast.Yield(ast.Name("__y", ast.Load())))], [], None), node)
            return node
    body = [ast.fix_missing_locations(_YF().visit(s)) for s in body]
    yields = [n for s in body for n in ast.walk(s) if isinstance(n, (ast.Yield, ast.YieldFrom))]
    if any(isinstance(y, ast.YieldFrom) for y in yields):
        return None
    stmts_with_yield = [n for s in body for n in ast.walk(s) if isinstance(n, ast.Expr) and isinstance(n.value, ast.Yield)]
    if len(stmts_with_yield) != len(yields):
        return None
    for s in body:
        for n in ast.walk(s):
            if isinstance(n, (ast.Try, ast.Global, ast.Nonlocal, ast.Await, ast.FunctionDef, ast.Lambda)):
                return None
            if isinstance(n, ast.Return) and n.value is not None:
                return None
    for x in loop.body:
        for n in ast.walk(x):
            if isinstance(n, (ast.Break, ast.Continue)):
                # only a break / continue of a loop nested in B itself is fine
                inner_loops = [l for l in ast.walk(ast.Module(loop.body, [])) if isinstance(l, (ast.For, ast.While)) and any(y is n for y in ast.walk(l))]
                if not inner_loops:
                    return None
    r = _bind_args(hdef, loop.iter, is_method)
    if r is None:
        return None
    subst, pre = r
    # names bound in the helper must not clash with names used in the loop body (other than through the target)
    h_locals = {n.id for s in body for n in ast.walk(s) if isinstance(n, ast.Name) and isinstance(n.ctx, ast.Store)}
    b_names = {n.id for x in loop.body for n in ast.walk(x) if isinstance(n, ast.Name)}
    t_names = {n.id for n in ast.walk(loop.target) if isinstance(n, ast.Name)}
    if (h_locals & b_names) - t_names:
        return None
    body = [_ParamSubst(subst).visit(s) for s in body]

    class _Y(ast.NodeTransformer):
        def visit_Expr(self, node):
            if isinstance(node.value, ast.Yield):
                val = node.value.value if node.value.value is not None else ast.Constant(None)
                tgt = copy.deepcopy(loop.target)
                out = []
                # `T = e` is dropped when e is T itself (a generator that re-yields the loop variable's value under the same name)
                if ast.unparse(tgt) != ast.unparse(val):
                    out.append(ast.Assign([tgt], val))
                out.extend(copy.deepcopy(x) for x in loop.body)
                return out
            return node

    new = []
    for s_ in body:
        r_ = _Y().visit(s_)
        new.extend(r_ if isinstance(r_, list) else [r_])
    for n_ in [x for s_ in new for x in ast.walk(s_)]:
        if isinstance(n_, ast.For) and isinstance(n_.target, ast.Name) and n_.target.id == "__y" and n_.body and isinstance(n_.body[0], ast.Assign) and ast.unparse(n_.body[0].value) == "__y":
            n_.target = n_.body[0].targets[0]
            n_.body = n_.body[1:] or [ast.Pass()]
    # a bare `return` in the generator ends the iteration: only allowed in tail position, where it is dropped
    for k, s_ in enumerate(new):
        for n in ast.walk(s_):
            if isinstance(n, ast.Return) and n.value is None and not any(n is x for x in ast.walk(ast.Module([copy.copy(b) for b in loop.body], []))):
                pass
    return pre + new


def _all_paths_return(body: List[ast.stmt], noreturn: Set[str]) -> bool:
    return _terminates([s for s in body if not _docstring(s)], noreturn)


class _ExprInliner(ast.NodeTransformer):
    def __init__(self, helpers, cls):
        self.helpers, self.cls, self.n = helpers, cls, 0

    def visit_Name(self, node: ast.Name):
        # an expression-bodied helper passed as a value (`key=_sort_key`) is the lambda of its body
        if isinstance(node.ctx, ast.Load) and node.id in self.helpers and not self.helpers[node.id][1]:
            hdef = self.helpers[node.id][0]
            body = [s for s in hdef.body if not _docstring(s)]
            a = hdef.args
            if len(body) == 1 and isinstance(body[0], ast.Return) and body[0].value is not None and not (a.vararg or a.kwarg or a.kwonlyargs or a.posonlyargs or a.defaults):
                self.n += 1
                lam = ast.Lambda(ast.arguments(posonlyargs=[], args=[ast.arg(x.arg, None) for x in a.args], vararg=None, kwonlyargs=[], kw_defaults=[], kwarg=None, defaults=[]), copy.deepcopy(body[0].value))
                return ast.copy_location(lam, node)
        return node

    def visit_Call(self, node: ast.Call):
        name = _helper_call(node, self.helpers, self.cls)
        if name is None:
            self.generic_visit(node)
            return node
        node.args = [self.visit(x) for x in node.args]
        for k in node.keywords:
            k.value = self.visit(k.value)
        hdef, is_method = self.helpers[name]
        body = [s for s in hdef.body if not _docstring(s)]
        if len(body) != 1 or not isinstance(body[0], ast.Return) or body[0].value is None:
            return node
        r = _bind_args(hdef, node, is_method)
        if r is None:
            return node
        subst, pre = r
        if pre:
            # non-trivial arguments: substitute them when the parameter is used exactly once
            for p in pre:
                nm = p.targets[0].id
                if _uses(body[0].value, nm) != 1:
                    return node
                subst[nm] = p.value
        self.n += 1
        return ast.copy_location(_ParamSubst(subst).visit(copy.deepcopy(body[0].value)), node)


def _inline_expr_helpers(st: ast.stmt, helpers, cls) -> int:
    inl = _ExprInliner(helpers, cls)
    for fld, val in ast.iter_fields(st):
        if isinstance(val, ast.expr):
            setattr(st, fld, inl.visit(val))
        elif isinstance(val, list) and fld not in ("body", "orelse", "finalbody", "handlers"):
            setattr(st, fld, [inl.visit(v) if isinstance(v, ast.expr) else v for v in val])
    return inl.n


# ------------------------------------------------------------------ module driver
def _functions(tree: ast.Module):
    """(qualname, class name or None, def node, container list) for every function, nested ones after their parents."""
    out = []

    def visit(body, prefix, cls):
        for st in body:
            if isinstance(st, (ast.FunctionDef, ast.AsyncFunctionDef)):
                q = prefix + st.name
                out.append((q, cls, st, body))
                visit(st.body, q + ".<locals>.", None)
            elif isinstance(st, ast.ClassDef):
                visit(st.body, prefix + st.name + ".", st.name)
            elif isinstance(st, (ast.If, ast.Try)):
                blocks = [st.body, st.orelse] if isinstance(st, ast.If) else [st.body, st.orelse, st.finalbody] + [h.body for h in st.handlers]
                for b in blocks:
                    visit(b, prefix, cls)

    visit(tree.body, "", None)
    return out


def _shape_key(e: ast.expr) -> str:
    """The structure of an expression with every identifier blanked (a name-independent sort key)."""
    return " ".join(type(n).__name__ for n in ast.walk(e))


def sort_identity_tests(tree: ast.AST) -> int:
    """After locals have their reference names again: operands of `is` / `is not` that have one shape are ordered by text."""
    n = 0
    for node in ast.walk(tree):
        if isinstance(node, ast.Compare) and len(node.ops) == 1 and isinstance(node.ops[0], (ast.Is, ast.IsNot)):
            l, r = node.left, node.comparators[0]
            if isinstance(l, ast.Constant) or isinstance(r, ast.Constant):
                continue
            if _shape_key(l) == _shape_key(r) and ast.unparse(r) < ast.unparse(l):
                node.left, node.comparators = r, [l]
                n += 1
    return n


def _row_value(v: ast.expr) -> bool:
    """A table entry that can be written where the loop variable stood: a name / attribute chain / constant, a lambda,
    or a tuple of such (`(A, B)` as the class argument of isinstance)."""
    if _alias_expr(v) or isinstance(v, ast.Lambda):
        return True
    return isinstance(v, (ast.Tuple, ast.List)) and all(_alias_expr(x) for x in v.elts)


def _evidently_bool(e: ast.expr) -> bool:
    if isinstance(e, ast.Compare):
        return True
    if isinstance(e, ast.UnaryOp) and isinstance(e.op, ast.Not):
        return True
    if isinstance(e, ast.BoolOp):
        return all(_evidently_bool(v) for v in e.values)
    if isinstance(e, ast.Constant) and isinstance(e.value, bool):
        return True
    if isinstance(e, ast.Call) and isinstance(e.func, ast.Name) and e.func.id in ("isinstance", "issubclass", "callable", "hasattr", "all", "any", "bool"):
        return True
    return False


def _tree_to_expr(body: List[ast.stmt]) -> Optional[ast.expr]:
    """The value of a block that is a tree of if/else with `return <expr>` leaves, as one expression."""
    body = [s for s in body if not _docstring(s) and not isinstance(s, ast.Pass)]
    if len(body) == 1 and isinstance(body[0], ast.Return) and body[0].value is not None:
        return body[0].value
    if len(body) == 1 and isinstance(body[0], ast.If):
        st = body[0]
        a, b = _tree_to_expr(st.body), _tree_to_expr(st.orelse)
        if a is None or b is None:
            return None
        c = st.test
        ka = a.value if isinstance(a, ast.Constant) and isinstance(a.value, bool) else None
        kb = b.value if isinstance(b, ast.Constant) and isinstance(b.value, bool) else None
        if _evidently_bool(c):
            if ka is False:
                return ast.BoolOp(ast.And(), [_negate(c), b])
            if ka is True:
                return ast.BoolOp(ast.Or(), [c, b])
            if kb is False:
                return ast.BoolOp(ast.And(), [c, a])
            if kb is True:
                return ast.BoolOp(ast.Or(), [_negate(c), a])
        return None  # a value-producing decision tree stays a statement tree (it is inlined as statements)
    return None


def expression_bodied(hdef: ast.FunctionDef) -> bool:
    """C12: a helper whose body is a decision tree of returns becomes `return <one expression>` (so that a predicate
    written with guard clauses can be inlined into the test that calls it); a generator helper that is one
    `for x in I: yield E` loop over a plain name / attribute becomes `return (E for x in I)`."""
    body = [s for s in hdef.body if not _docstring(s)]
    noimp = [s for s in body if not isinstance(s, (ast.Import, ast.ImportFrom))]
    if len(noimp) == 1 and isinstance(noimp[0], ast.For) and not noimp[0].orelse:
        # (local imports of the helper are not carried over: the canonical form is read, never run)
        body = noimp
        lb = [x for x in body[0].body if not isinstance(x, ast.Pass)]
        conds = []
        while len(lb) == 1 and isinstance(lb[0], ast.If) and not [x for x in lb[0].orelse if not isinstance(x, ast.Pass)]:
            conds.append(lb[0].test)
            lb = [x for x in lb[0].body if not isinstance(x, ast.Pass)]
        if len(lb) == 1 and isinstance(lb[0], ast.Expr) and isinstance(lb[0].value, ast.Yield) and lb[0].value.value is not None and not any(isinstance(y, (ast.Yield, ast.YieldFrom)) for y in ast.walk(lb[0].value.value)):
            doc = [s for s in hdef.body if _docstring(s)]
            ge = ast.GeneratorExp(lb[0].value.value, [ast.comprehension(body[0].target, body[0].iter, conds, 0)])
            hdef.body = doc + [ast.copy_location(ast.Return(ge), body[0])]
            ast.fix_missing_locations(hdef)
            return True
    if len(body) == 1 and isinstance(body[0], ast.Return):
        return False
    e = _tree_to_expr(body)
    if e is None:
        return False
    doc = [s for s in hdef.body if _docstring(s)]
    hdef.body = doc + [ast.copy_location(ast.Return(_ExprNorm().visit(ast.fix_missing_locations(ast.copy_location(e, body[0])))), body[0])]
    ast.fix_missing_locations(hdef)
    return True


def rehome(tree: ast.Module, ref_funcs: Set[str]) -> int:
    """C11: a function that only changed its home — module-level `f(x, ..)` made a method `x.f(..)` of a class of the
    file, or the reverse — is put back where the reference has it (the def moves, calls are rewritten), so that it
    is the same function to the rules, not a new helper next to a vanished anchor."""
    funcs = _functions(tree)
    have = {q for q, _c, _f, _b in funcs}
    shorts: Dict[str, List[str]] = {}
    for q in have:
        if ".<locals>." not in q:
            shorts.setdefault(q.split(".")[-1], []).append(q)
    classes = {st.name: st for st in tree.body if isinstance(st, ast.ClassDef)}
    n = 0
    for q, cls, fn, container in funcs:
        if q in ref_funcs or ".<locals>." in q or len(shorts.get(fn.name, [])) != 1:
            continue
        decos = {ast.unparse(d).split("(")[0].split(".")[-1] for d in fn.decorator_list}
        if decos:
            continue
        if cls is not None and fn.name in ref_funcs and fn.args.args:
            # method -> module-level function: `E.f(a)` -> `f(E, a)`
            selfname = fn.args.args[0].arg
            if any(isinstance(x, ast.Name) and x.id == "super" for x in ast.walk(fn)):
                continue
            container.remove(fn)
            if not container:
                container.append(ast.Pass())
            tree.body.append(fn)

            class R1(ast.NodeTransformer):
                def visit_Call(self, node):
                    self.generic_visit(node)
                    if isinstance(node.func, ast.Attribute) and node.func.attr == fn.name:
                        return ast.copy_location(ast.Call(ast.Name(fn.name, ast.Load()), [node.func.value] + node.args, node.keywords), node)
                    return node

            R1().visit(tree)
            n += 1
        elif cls is None:
            # module-level function -> method of the class the reference has it in: `f(E, a)` -> `E.f(a)`
            homes = [r for r in ref_funcs if r.endswith("." + fn.name) and r.count(".") == 1 and r.split(".")[0] in classes]
            if len(homes) != 1 or not fn.args.args:
                continue
            container.remove(fn)
            if not container:
                container.append(ast.Pass())
            classes[homes[0].split(".")[0]].body.append(fn)

            class R2(ast.NodeTransformer):
                def visit_Call(self, node):
                    self.generic_visit(node)
                    if isinstance(node.func, ast.Name) and node.func.id == fn.name and node.args and not isinstance(node.args[0], ast.Starred):
                        return ast.copy_location(ast.Call(ast.Attribute(node.args[0], fn.name, ast.Load()), node.args[1:], node.keywords), node)
                    return node

            R2().visit(tree)
            n += 1
    if n:
        ast.fix_missing_locations(tree)
    return n


_BUILTIN_METHODS = set()
for _t in (dict, list, set, frozenset, str, bytes, tuple, int, float, object, type):
    _BUILTIN_METHODS |= set(dir(_t))
_BUILTIN_METHODS |= {"read", "write", "close", "open", "flush", "send", "recv", "run", "start", "stop", "next", "name", "visit", "match", "group", "search", "sub", "dumps", "loads", "new", "digest", "hexdigest", "export", "elaborate"}


def canonicalise(tree: ast.Module, ref_funcs: Optional[Set[str]], ref_consts: Optional[Set[str]], noreturn: Set[str] = frozenset(NORETURN_DEFAULT), unique_defs: Optional[Set[str]] = None) -> Dict[str, int]:
    """Bring every function of the module into canonical form, in place.  `ref_funcs` / `ref_consts`: the
    qualified function names / module-level constant names of this file on the reference tree (None: no
    reference for the file — nothing is inlined)."""
    stats = {"functions": 0, "temporaries": 0, "comprehensions": 0, "inlined_helpers": 0, "inlined_constants": 0}
    canon = Canon(set(noreturn))
    if ref_funcs is not None:
        stats["rehomed"] = rehome(tree, ref_funcs)
    funcs = _functions(tree)
    # ---- C8 (constants): module-level literal constants that are new w.r.t. the reference are inlined first, so that
    #      a dispatch table hoisted out of a function is seen in place by the loop that scans it
    if ref_consts is not None:
        consts: Dict[str, ast.expr] = {}
        for st in tree.body:
            if isinstance(st, (ast.Assign, ast.AnnAssign)) and st.value is not None:
                # `dict(a=1)` is `{"a": 1}`, `tuple([..])` is `(..)`: the spelling of a table does not matter
                st.value = ast.fix_missing_locations(_ExprNorm().visit(st.value))
            if isinstance(st, (ast.Assign, ast.AnnAssign)):
                tg = st.targets[0] if isinstance(st, ast.Assign) and len(st.targets) == 1 else (st.target if isinstance(st, ast.AnnAssign) else None)
                if isinstance(tg, ast.Name) and tg.id not in ref_consts and st.value is not None and (isinstance(st.value, (ast.Dict, ast.List, ast.Tuple, ast.Set, ast.Constant)) or (isinstance(st.value, ast.Attribute) and _alias_expr(st.value))):
                    # (a literal table, or another name for an attribute of something — `KINDS = Source.__args__`)
                    consts[tg.id] = st.value
        # a constant bound twice at module level, or rebound in a function, is not a constant
        for nm in list(consts):
            if sum(1 for n in ast.walk(tree) if isinstance(n, ast.Name) and n.id == nm and isinstance(n.ctx, ast.Store)) != 1:
                del consts[nm]
        if consts:
            # (a new constant used to build another module-level table: `_banned = [*_NAMES, "add"]`)
            for st in tree.body:
                if isinstance(st, (ast.Assign, ast.AnnAssign)) and st.value is not None and isinstance(st.value, (ast.List, ast.Tuple, ast.Set, ast.Dict)):
                    for nm, val in consts.items():
                        if any(isinstance(n, ast.Name) and n.id == nm and isinstance(n.ctx, ast.Load) for n in ast.walk(st.value)):
                            hold = ast.Expr(st.value)
                            _Subst(nm, val).visit(hold)
                            st.value = ast.fix_missing_locations(_ExprNorm().visit(hold.value))
            for q, cls, fn, _c in funcs:
                if ".<locals>." in q:
                    continue
                for nm, val in consts.items():
                    s_ = _Subst(nm, val)
                    s_.visit(fn)
                    stats["inlined_constants"] += s_.n
    # ---- class-level tables of constants (`KINDS = ("a", "b")` in a class body, read as self.KINDS / cls.KINDS / Class.KINDS by
    #      the methods of that class) are seen in place, like module-level ones
    for cdef in [n for n in ast.walk(tree) if isinstance(n, ast.ClassDef)]:
        for st in cdef.body:
            if isinstance(st, (ast.Assign, ast.AnnAssign)) and st.value is not None:
                tg = st.targets[0] if isinstance(st, ast.Assign) and len(st.targets) == 1 else (st.target if isinstance(st, ast.AnnAssign) else None)
                if not (isinstance(tg, ast.Name) and tg.id.isupper() and isinstance(st.value, (ast.Tuple, ast.List)) and st.value.elts and all(
                        isinstance(e, ast.Constant) or (isinstance(e, (ast.Tuple, ast.List)) and e.elts and all(_row_value(x) and not isinstance(x, ast.Lambda) for x in e.elts)) for e in st.value.elts)):
                    continue  # (constants, or rows of names / constants: a dispatch table)
                if sum(1 for n in ast.walk(tree) if isinstance(n, ast.Attribute) and n.attr == tg.id and isinstance(n.ctx, ast.Store)) or sum(1 for n in ast.walk(cdef) if isinstance(n, ast.Name) and n.id == tg.id and isinstance(n.ctx, ast.Store)) != 1:
                    continue
                for m_ in cdef.body:
                    if isinstance(m_, (ast.FunctionDef, ast.AsyncFunctionDef)):
                        class _CA(ast.NodeTransformer):
                            def visit_Attribute(self, node):
                                self.generic_visit(node)
                                if node.attr == tg.id and isinstance(node.ctx, ast.Load) and isinstance(node.value, ast.Name) and node.value.id in ("self", "cls", cdef.name):
                                    stats["inlined_constants"] += 1
                                    return ast.copy_location(copy.deepcopy(st.value), node)
                                return node
                        _CA().visit(m_)
    # ---- local canonical form
    for q, cls, fn, _c in funcs:
        if ".<locals>." in q:
            continue  # nested functions are handled with their parent
        fn.body = canon.function_body(fn.body)
        stats["functions"] += 1
    # ---- C8: new helpers and new module constants
    helpers: Dict[str, Tuple[ast.FunctionDef, bool]] = {}
    if ref_funcs is not None:
        for q, cls, fn, _c in funcs:
            if ".<locals>." in q or q in ref_funcs:
                continue
            decos = {ast.unparse(d).split("(")[0].split(".")[-1] for d in fn.decorator_list}
            if not fn.args.args and not fn.args.kwonlyargs and not fn.args.vararg and not fn.args.kwarg:
                decos -= {"lru_cache", "cache"}  # a memoised constant (a table built on first use) is the constant
            if decos - {"staticmethod", "classmethod"}:
                continue
            if "classmethod" in decos:
                continue
            is_method = cls is not None and "staticmethod" not in decos
            if _recursive(fn):
                continue
            helpers[q if cls else fn.name] = (fn, is_method)
            if is_method and unique_defs is not None and fn.name in unique_defs and fn.name not in _BUILTIN_METHODS and not fn.name.startswith("__"):
                # `x.<name>(..)` on any receiver can only be this method (the one `def <name>` of the analysed trees)
                helpers["<any>." + fn.name] = (fn, True)
        if helpers:
            # helpers are themselves brought into full canonical form first (temporaries, comprehensions):
            # `t = [..]; return all(x in t ..)` is then a single expression and can be inlined into a test
            for _name, (hdef, _m) in helpers.items():
                hp = {a.arg for a in ast.walk(hdef.args) if isinstance(a, ast.arg)}
                for _k in range(3):
                    a_ = _loops_to_comprehensions(hdef)
                    b_ = propagate_temporaries(hdef, keep=hp)
                    if not (a_ or b_):
                        break
                    hdef.body = canon.function_body(hdef.body)
                expression_bodied(hdef)
            for q, cls, fn, _c in funcs:
                if ".<locals>." in q:
                    continue
                n = inline_helpers(fn, {k: v for k, v in helpers.items() if v[0] is not fn}, cls, canon)
                if n:
                    stats["inlined_helpers"] += n
                    fn.body = canon.function_body(fn.body)
            # a helper every call of which was inlined is gone from the canonical form (its code now lives in its callers)
            for name, (hdef, _is_m) in helpers.items():
                short = hdef.name
                still = any((isinstance(x, ast.Name) and x.id == short) or (isinstance(x, ast.Attribute) and x.attr == short) or (isinstance(x, ast.Constant) and x.value == short) for x in ast.walk(tree) if x is not hdef)
                if not still:
                    for _q, _cls, f2, container in funcs:
                        if f2 is hdef and hdef in container:
                            container.remove(hdef)
                            if not container:
                                container.append(ast.Pass())
                            stats["dropped_helpers"] = stats.get("dropped_helpers", 0) + 1
            funcs = [t for t in funcs if not (t[2] in [h[0] for h in helpers.values()] and t[2] not in t[3])]
    # ---- C8 (nested): local function definitions that are new w.r.t. the reference and only ever called directly are
    #      inlined into their parent (a closure reads its free variables when called — so does the inlined copy)
    def nested_inline(q, fn) -> int:
        if ref_funcs is None:
            return 0
        nested = {}
        homes = {}
        for blk in _blocks_of(fn):
            for st in blk:
                if isinstance(st, ast.FunctionDef) and f"{q}.<locals>.{st.name}" not in ref_funcs and not st.decorator_list and not _recursive(st):
                    if any(isinstance(x, (ast.Nonlocal, ast.Global, ast.Yield, ast.YieldFrom)) for x in ast.walk(st)):
                        continue
                    if st.name in nested:
                        nested.pop(st.name)
                        continue  # two local functions of one name: which one a call means depends on the path
                    nested[st.name] = (st, False)
                    homes[st.name] = blk
        if not nested:
            return 0
        for _nm, (hdef, _m) in nested.items():
            hdef.body = canon.function_body(hdef.body)
            hp = {a.arg for a in ast.walk(hdef.args) if isinstance(a, ast.arg)}
            propagate_temporaries(hdef, keep=hp)
            expression_bodied(hdef)
        n = inline_helpers(fn, nested, None, canon)
        for nm_, (hdef, _m) in nested.items():
            still = any(isinstance(x, ast.Name) and x.id == nm_ and isinstance(x.ctx, ast.Load) for x in ast.walk(fn))
            if not still and hdef in homes.get(nm_, []):
                homes[nm_].remove(hdef)
                if not homes[nm_]:
                    homes[nm_].append(ast.Pass())
                n += 1
        if n:
            stats["inlined_helpers"] += n
            fn.body = canon.function_body(fn.body)
        return n

    # module-level definitions and imports: names that are evidently not None
    canon_flow._ONCE["defs"] = {st.name for st in tree.body if isinstance(st, (ast.FunctionDef, ast.AsyncFunctionDef, ast.ClassDef))} | {
        (a.asname or a.name).split(".")[0] for st in tree.body if isinstance(st, (ast.Import, ast.ImportFrom)) for a in st.names}
    # ---- C5 / C6 after inlining (extracted code comes with parameter temporaries); local functions are functions too
    for q, cls, fn, _c in funcs:
        if ".<locals>." in q and not any(fn is x for _q2, _c2, f2, _b2 in funcs for x in ast.walk(f2) if f2 is not fn):
            continue  # (a local function that was inlined away)
        # C12 for every function: a predicate written as a decision tree of boolean returns is one boolean expression
        if expression_bodied(fn):
            stats["predicates"] = stats.get("predicates", 0) + 1
        params = {a.arg for a in ast.walk(fn.args) if isinstance(a, ast.arg)}
        for _k in range(4):
            a = _loops_to_comprehensions(fn)
            b = propagate_temporaries(fn, keep=params)
            c = canon_flow.run(fn, canon.noreturn)
            c += nested_inline(q, fn)
            if helpers and ".<locals>." not in q and not any(fn is h_[0] for h_ in helpers.values()):
                # calls that the flow steps brought to light (a handler taken out of a dispatch table, say)
                n2 = inline_helpers(fn, {k: v for k, v in helpers.items() if v[0] is not fn}, cls, canon)
                if n2:
                    stats["inlined_helpers"] += n2
                    fn.body = canon.function_body(fn.body)
                    c += n2
            stats["comprehensions"] += a
            stats["temporaries"] += b
            stats["flow"] = stats.get("flow", 0) + c
            if not (a or b or c):
                break
            fn.body = canon.function_body(fn.body)
        ast.fix_missing_locations(fn)
    if helpers:
        for name, (hdef, _is_m) in helpers.items():
            short = hdef.name
            still = any((isinstance(x, ast.Name) and x.id == short) or (isinstance(x, ast.Attribute) and x.attr == short) or (isinstance(x, ast.Constant) and x.value == short) for x in ast.walk(tree) if x is not hdef)
            if not still:
                for _q, _cls, f2, container in funcs:
                    if f2 is hdef and hdef in container:
                        container.remove(hdef)
                        if not container:
                            container.append(ast.Pass())
                        stats["dropped_helpers"] = stats.get("dropped_helpers", 0) + 1
    return stats


def _recursive(fn: ast.FunctionDef) -> bool:
    for n in ast.walk(fn):
        if isinstance(n, ast.Call):
            f = n.func
            if (isinstance(f, ast.Name) and f.id == fn.name) or (isinstance(f, ast.Attribute) and f.attr == fn.name and isinstance(f.value, ast.Name) and f.value.id in ("self", "cls")):
                return True
    return False
