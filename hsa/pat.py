"""Structural patterns over Python ASTs.

A pattern is ordinary Python source in which `$X` is a metavariable (binds any
sub-expression; repeated occurrences must bind structurally equal code) and `$_`
is a wildcard.  In a call pattern `*$_` accepts any further positional and
keyword arguments.  Keyword arguments are matched by name, in any order.
"""

from __future__ import annotations

import ast
import re
from typing import Dict, Iterator, List, Optional, Tuple

_MV = "__mv_"


def _compile(src: str) -> ast.AST:
    src2 = re.sub(r"\$([A-Za-z_][A-Za-z_0-9]*)", lambda m: _MV + m.group(1), src)
    mod = ast.parse(src2.strip())
    if len(mod.body) != 1:
        raise ValueError(f"pattern must be a single statement/expression: {src}")
    st = mod.body[0]
    # patterns are written in ordinary Python and brought into the same canonical spelling as the code (canon.py C7)
    from . import canon

    st = canon.Canon(set())._simple(st)
    if isinstance(st, ast.If):
        t, fl = canon._positive(st.test)
        if fl:
            st = ast.If(t, st.orelse or [ast.Pass()], [] if canon._is_pass(st.body) else st.body)
        ast.fix_missing_locations(st)
    if isinstance(st, ast.Expr):
        return st.value
    return st


_cache: Dict[str, ast.AST] = {}


def P(src: str) -> ast.AST:
    if src not in _cache:
        _cache[src] = _compile(src)
    return _cache[src]


def same(a: ast.AST, b: ast.AST) -> bool:
    # structural equality ignoring Load/Store context
    return ast.unparse(a) == ast.unparse(b)


def _mv(node) -> Optional[str]:
    if isinstance(node, ast.Name) and node.id.startswith(_MV):
        return node.id[len(_MV):]
    return None


def _match(p, n, b: Dict[str, ast.AST]) -> bool:
    mv = _mv(p)
    if mv is not None:
        if mv == "_":
            return True
        if mv in b:
            return same(b[mv], n)
        b[mv] = n
        return True
    # attribute-name metavariable:  $X.__mv_A  is not supported; keep simple
    if type(p) is not type(n):
        return False
    if isinstance(p, ast.Call):
        if not _match(p.func, n.func, b):
            return False
        pargs = list(p.args)
        rest = False
        if pargs and isinstance(pargs[-1], ast.Starred) and _mv(pargs[-1].value) == "_":
            rest = True
            pargs = pargs[:-1]
        if rest:
            if len(n.args) < len(pargs):
                return False
        elif len(n.args) != len(pargs):
            return False
        for pa, na in zip(pargs, n.args):
            if not _match(pa, na, b):
                return False
        nk = {k.arg: k.value for k in n.keywords if k.arg is not None}
        for k in p.keywords:
            if k.arg is None:
                # `**$X` binds the target's `**` argument
                stars = [t.value for t in n.keywords if t.arg is None]
                if _mv(k.value) == "_":
                    continue
                if len(stars) != 1 or not _match(k.value, stars[0], b):
                    return False
                continue
            if k.arg not in nk:
                return False
            if not _match(k.value, nk[k.arg], b):
                return False
        if not rest:
            pk = {k.arg for k in p.keywords}
            if set(nk) - pk:
                return False
        return True
    # identity tests are symmetric: a pattern `$X is module` matches `module is attr.p` as well (the canonical operand
    # order of the code follows the text of the operands, which a pattern with metavariables cannot know)
    if isinstance(p, ast.Compare) and len(p.ops) == 1 and isinstance(p.ops[0], (ast.Is, ast.IsNot)) and len(n.ops) == 1 and type(n.ops[0]) is type(p.ops[0]):
        for a_, c_ in ((n.left, n.comparators[0]), (n.comparators[0], n.left)):
            b2 = dict(b)
            if _match(p.left, a_, b2) and _match(p.comparators[0], c_, b2):
                b.update(b2)
                return True
        return False
    for fld in p._fields:
        pv = getattr(p, fld, None)
        nv = getattr(n, fld, None)
        if fld in ("ctx", "type_comment", "kind"):
            continue
        if isinstance(pv, list):
            if not isinstance(nv, list) or len(pv) != len(nv):
                return False
            for x, y in zip(pv, nv):
                if isinstance(x, ast.AST):
                    if not _match(x, y, b):
                        return False
                elif x != y:
                    return False
        elif isinstance(pv, ast.AST):
            if not isinstance(nv, ast.AST) or not _match(pv, nv, b):
                return False
        else:
            if pv != nv:
                return False
    return True


class Bindings(dict):
    """Metavariable bindings of a successful match; truthy even when empty."""

    def __bool__(self):
        return True


def match(pattern, node: ast.AST) -> Optional[Dict[str, ast.AST]]:
    p = P(pattern) if isinstance(pattern, str) else pattern
    b: Dict[str, ast.AST] = Bindings()
    if _match(p, node, b):
        return b
    return None


def find(pattern, root: ast.AST) -> List[Tuple[ast.AST, Dict[str, ast.AST]]]:
    p = P(pattern) if isinstance(pattern, str) else pattern
    out = []
    for n in ast.walk(root):
        if isinstance(p, ast.Assign) and isinstance(n, ast.AnnAssign) and n.value is not None:
            # an annotated assignment `x: T = v` matches the pattern `x = v`
            b: Dict[str, ast.AST] = Bindings()
            if _match(p, ast.Assign([n.target], n.value), b):
                out.append((n, b))
            continue
        if type(n) is type(p) or _mv(p) is not None:
            b: Dict[str, ast.AST] = Bindings()
            if _match(p, n, b):
                out.append((n, b))
    return out


def find_any(patterns, root) -> List[Tuple[ast.AST, Dict[str, ast.AST]]]:
    out = []
    for p in patterns:
        out.extend(find(p, root))
    return out


def src(node: Optional[ast.AST]) -> str:
    return ast.unparse(node) if node is not None else "<none>"
