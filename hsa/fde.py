"""Finite-domain evaluation of small decision code (F8).

Two entry points:

* `enum_function(fn, param, members)` — abstractly runs a function of one
  enum-valued parameter for each member and returns {member: result text}.
  Understands if/elif/else chains with `==`/`is`/`in` tests, `return`, dict
  literal lookups (`d[x]`, `d.get(x, default)`), conditional expressions.

* `decision_table(stmts, atoms, outputs)` — runs a statement list for every
  valuation of boolean atoms (tests are boolean combinations of atoms matched
  by pattern), recording the final symbolic value of the output variables.

Anything outside the understood fragment raises `Unknown`, which callers turn
into ANALYSIS-ERROR (idiom-unknown), never into a verdict.
"""

from __future__ import annotations

import ast
import itertools
from typing import Callable, Dict, List, Optional, Sequence, Tuple

from .core import dotted
from . import pat


class Unknown(Exception):
    pass


class _Return(Exception):
    def __init__(self, value):
        self.value = value


class _Raise(Exception):
    pass


class Sym(str):
    """Symbolic value (dotted constant or opaque text)."""


def _ev(e: ast.AST, env: Dict[str, object]):
    if isinstance(e, ast.Constant):
        return e.value
    if isinstance(e, ast.Name):
        if e.id in env:
            return env[e.id]
        if e.id in ("True", "False", "None"):
            return {"True": True, "False": False, "None": None}[e.id]
        return Sym(e.id)
    if isinstance(e, ast.Attribute):
        d = dotted(e)
        if d is not None:
            root = d.split(".")[0]
            if root in env:
                base = env[root]
                rest = d.split(".", 1)[1]
                if isinstance(base, Sym):
                    return Sym(f"{base}.{rest}")
                raise Unknown(f"attribute of non-symbolic value: {d}")
            return Sym(d)
        v = _ev(e.value, env)
        if isinstance(v, Sym):
            return Sym(f"{v}.{e.attr}")
        raise Unknown(ast.unparse(e))
    if isinstance(e, ast.UnaryOp) and isinstance(e.op, ast.Not):
        v = _ev(e.operand, env)
        if isinstance(v, bool):
            return not v
        raise Unknown(ast.unparse(e))
    if isinstance(e, ast.BoolOp):
        vals = [_ev(v, env) for v in e.values]
        if not all(isinstance(v, bool) for v in vals):
            raise Unknown(ast.unparse(e))
        return all(vals) if isinstance(e.op, ast.And) else any(vals)
    if isinstance(e, ast.Compare) and len(e.ops) == 1:
        a, b = _ev(e.left, env), _ev(e.comparators[0], env)
        op = e.ops[0]
        if isinstance(op, (ast.Eq, ast.Is)):
            return _same(a, b)
        if isinstance(op, (ast.NotEq, ast.IsNot)):
            return not _same(a, b)
        if isinstance(op, ast.In):
            if isinstance(b, (tuple, list, set, dict)):
                return any(_same(a, x) for x in b)
            raise Unknown(ast.unparse(e))
        if isinstance(op, ast.NotIn):
            if isinstance(b, (tuple, list, set, dict)):
                return not any(_same(a, x) for x in b)
            raise Unknown(ast.unparse(e))
        raise Unknown(ast.unparse(e))
    if isinstance(e, (ast.Tuple, ast.List, ast.Set)):
        return tuple(_ev(x, env) for x in e.elts)
    if isinstance(e, ast.Dict):
        return {(_ev(k, env)): _ev(v, env) for k, v in zip(e.keys, e.values)}
    if isinstance(e, ast.Subscript):
        base = _ev(e.value, env)
        key = _ev(e.slice, env)
        if isinstance(base, dict):
            for k, v in base.items():
                if _same(k, key):
                    return v
            raise _Raise()
        raise Unknown(ast.unparse(e))
    if isinstance(e, ast.IfExp):
        t = _ev(e.test, env)
        if not isinstance(t, bool):
            raise Unknown(ast.unparse(e.test))
        return _ev(e.body if t else e.orelse, env)
    if isinstance(e, ast.Call):
        f = e.func
        if isinstance(f, ast.Attribute) and f.attr == "get":
            base = _ev(f.value, env)
            if isinstance(base, dict):
                key = _ev(e.args[0], env)
                for k, v in base.items():
                    if _same(k, key):
                        return v
                return _ev(e.args[1], env) if len(e.args) > 1 else None
        # opaque call on symbolic args: keep as text (e.g. `x.flipped()`)
        args = [_ev(a, env) for a in e.args]
        fn = _ev(f, env) if isinstance(f, (ast.Attribute, ast.Name)) else None
        if isinstance(fn, Sym) and all(isinstance(a, (Sym, str, int, type(None))) for a in args):
            return Sym(f"{fn}({', '.join(map(str, args))})")
        raise Unknown(ast.unparse(e))
    raise Unknown(ast.unparse(e))


def _same(a, b) -> bool:
    if isinstance(a, Sym) or isinstance(b, Sym):
        return str(a) == str(b)
    return a == b and type(a) is type(b) or (a is None and b is None)


def _exec(stmts: Sequence[ast.stmt], env: Dict[str, object]):
    for st in stmts:
        if isinstance(st, ast.Expr) and isinstance(st.value, ast.Constant):
            continue  # docstring
        if isinstance(st, ast.If):
            t = _ev(st.test, env)
            if not isinstance(t, bool):
                raise Unknown(f"undetermined test `{ast.unparse(st.test)}`")
            _exec(st.body if t else st.orelse, env)
        elif isinstance(st, ast.Return):
            raise _Return(_ev(st.value, env) if st.value is not None else None)
        elif isinstance(st, ast.Raise):
            raise _Raise()
        elif isinstance(st, ast.Assign) and len(st.targets) == 1 and isinstance(st.targets[0], ast.Name):
            env[st.targets[0].id] = _ev(st.value, env)
        elif isinstance(st, ast.AnnAssign) and isinstance(st.target, ast.Name) and st.value is not None:
            env[st.target.id] = _ev(st.value, env)
        elif isinstance(st, ast.Pass):
            continue
        elif isinstance(st, ast.Expr) and isinstance(st.value, ast.Call):
            # calls for effect: treat well-known failure helpers as raise
            nm = dotted(st.value.func) or ""
            if nm.split(".")[-1] in ("fail", "failer"):
                raise _Raise()
            raise Unknown(f"call for effect `{ast.unparse(st)}`")
        else:
            raise Unknown(f"statement `{ast.unparse(st).splitlines()[0]}`")


def enum_function(fn: ast.AST, param: str, members: Sequence[str], extra_env: Optional[dict] = None) -> Dict[str, str]:
    """{member: result}; result is the returned symbol text, 'RAISE', or 'None'."""
    out: Dict[str, str] = {}
    for m in members:
        env: Dict[str, object] = {param: Sym(m)}
        if extra_env:
            env.update(extra_env)
        try:
            _exec(fn.body, env)
            out[m] = "None"
        except _Return as r:
            out[m] = str(r.value)
        except _Raise:
            out[m] = "RAISE"
    return out


Atom = Tuple[str, Callable[[ast.AST], bool]]


def _ev_atoms(test: ast.AST, val: Dict[str, bool], atoms: Sequence[Atom]) -> bool:
    if isinstance(test, ast.UnaryOp) and isinstance(test.op, ast.Not):
        return not _ev_atoms(test.operand, val, atoms)
    if isinstance(test, ast.BoolOp):
        vs = [_ev_atoms(v, val, atoms) for v in test.values]
        return all(vs) if isinstance(test.op, ast.And) else any(vs)
    if isinstance(test, ast.Compare) and len(test.ops) == 1 and isinstance(test.ops[0], (ast.Eq, ast.NotEq, ast.Is, ast.IsNot)):
        # comparison of two boolean atoms: equivalence / xor
        try:
            a = _ev_atoms(test.left, val, atoms)
            b = _ev_atoms(test.comparators[0], val, atoms)
            return (a == b) if isinstance(test.ops[0], (ast.Eq, ast.Is)) else (a != b)
        except Unknown:
            pass
    for name, matcher in atoms:
        r = matcher(test)
        if r is True:
            return val[name]
        if r == "neg":
            return not val[name]
    raise Unknown(f"test `{ast.unparse(test)}` is not a boolean combination of the known atoms")


def _block_raises(block) -> bool:
    if not block:
        return False
    last = block[-1]
    if isinstance(last, ast.Raise):
        return True
    if isinstance(last, ast.Expr) and isinstance(last.value, ast.Call) and (dotted(last.value.func) or "").split(".")[-1] in ("fail", "failer"):
        return True
    if isinstance(last, ast.If):
        return _block_raises(last.body) and _block_raises(last.orelse)
    return False


def decision_table(stmts: Sequence[ast.stmt], atoms: Sequence[Atom], outputs: Sequence[str], normalise: Callable[[ast.AST], str], tolerant: bool = False) -> Dict[Tuple[bool, ...], Dict[str, str]]:
    """For every valuation of the atoms, the final value (normalised text) of each output variable.
    Outputs may be local names or attribute stores (`leaf.vis`).  With tolerant=True the block may contain
    other work: statements that do not assign an output are skipped, and an `if` over something that is not
    a combination of the atoms is followed along its non-raising branch when the other branch raises (a guard)."""
    table = {}
    names = [a[0] for a in atoms]
    for bits in itertools.product((False, True), repeat=len(atoms)):
        val = dict(zip(names, bits))
        env: Dict[str, str] = {}
        env_ast: Dict[str, ast.AST] = {}

        def run(block):
            for st in block:
                if isinstance(st, ast.If):
                    try:
                        t = _ev_atoms(st.test, val, atoms)
                    except Unknown:
                        if not tolerant:
                            raise
                        if _block_raises(st.body) and not _block_raises(st.orelse):
                            t = False
                        elif _block_raises(st.orelse) and not _block_raises(st.body):
                            t = True
                        elif not any(isinstance(x, ast.Assign) and ast.unparse(x.targets[0]) in set(outputs) | set(env) for b in (st.body, st.orelse) for s2 in b for x in ast.walk(s2)):
                            continue  # touches no output
                        else:
                            raise
                    run(st.body if t else st.orelse)
                elif isinstance(st, ast.Assign) and len(st.targets) == 1 and isinstance(st.targets[0], (ast.Name, ast.Attribute)):
                    v = st.value
                    key = st.targets[0].id if isinstance(st.targets[0], ast.Name) else ast.unparse(st.targets[0])
                    if isinstance(v, ast.IfExp):
                        v = v.body if _ev_atoms(v.test, val, atoms) else v.orelse
                    if isinstance(v, ast.Name) and v.id in env:
                        env[key] = env[v.id]
                        if v.id in env_ast:
                            env_ast[key] = env_ast[v.id]
                    else:
                        # a value computed from locals assigned earlier on this path is normalised with them substituted
                        if env_ast and any(isinstance(x, ast.Name) and x.id in env_ast and not isinstance(env_ast[x.id], ast.Call) for x in ast.walk(v)):
                            import copy as _copy

                            class _S(ast.NodeTransformer):
                                def visit_Name(self, node):
                                    return _copy.deepcopy(env_ast[node.id]) if isinstance(node.ctx, ast.Load) and node.id in env_ast and not isinstance(env_ast[node.id], ast.Call) else node

                            v = ast.fix_missing_locations(_S().visit(_copy.deepcopy(v)))
                        env[key] = normalise(v)
                        env_ast[key] = v
                elif isinstance(st, ast.Pass) or (isinstance(st, ast.Expr) and isinstance(st.value, ast.Constant)):
                    continue
                elif isinstance(st, ast.Return):
                    v = st.value
                    # `return A and B` / `return A or B` with A a combination of the atoms: decided like `if A: return B else: return False`
                    while isinstance(v, ast.BoolOp) and len(v.values) >= 2:
                        try:
                            a0 = _ev_atoms(v.values[0], val, atoms)
                        except Unknown:
                            break
                        rest_ = v.values[1] if len(v.values) == 2 else ast.BoolOp(v.op, list(v.values[1:]))
                        if isinstance(v.op, ast.And):
                            v = rest_ if a0 else ast.Constant(False)
                        else:
                            v = ast.Constant(True) if a0 else rest_
                    if isinstance(v, ast.Name) and v.id in env:
                        env["<return>"] = env[v.id]
                    else:
                        env["<return>"] = normalise(v) if v is not None else "None"
                    raise _Return(None)
                elif isinstance(st, ast.Raise):
                    env["<return>"] = "RAISE"
                    raise _Return(None)
                elif tolerant:
                    continue
                else:
                    raise Unknown(f"statement `{ast.unparse(st).splitlines()[0]}` in a decision block")

        try:
            run(stmts)
        except _Return:
            pass
        table[bits] = {o: env.get(o, "<unset>") for o in outputs}
    return table
