"""Alpha-normalisation of local variable names against a reference.

Rules refer to some locals by the names they have on the reference tree.  A pure
rename of locals is behaviour-preserving and must not change any verdict, so on
load every function whose *shape* (its AST with local names abstracted to
indices) equals the recorded reference shape, but whose local names differ, is
renamed back to the reference names before any rule looks at it.  A function
whose shape differs is left exactly as it is.  The reference never produces a
verdict by itself.
"""

from __future__ import annotations

import ast
import hashlib
import json
from pathlib import Path
from typing import Dict, List, Optional, Tuple

REF_FILE = Path(__file__).resolve().parent / "ref_locals.json"


def _locals_of(fn: ast.AST) -> List[str]:
    """Parameter and local names of fn in order of first binding occurrence
    (nested functions' own locals excluded, comprehension targets included)."""
    out: List[str] = []
    seen = set()

    def add(n):
        if n not in seen:
            seen.add(n)
            out.append(n)

    a = fn.args
    for p in list(a.posonlyargs) + list(a.args) + ([a.vararg] if a.vararg else []) + list(a.kwonlyargs) + ([a.kwarg] if a.kwarg else []):
        add(p.arg)
    nonlocal_names = set()
    for n in ast.walk(fn):
        if isinstance(n, (ast.Global, ast.Nonlocal)):
            nonlocal_names.update(n.names)
    stack = list(reversed(fn.body))
    while stack:
        n = stack.pop()
        if isinstance(n, (ast.FunctionDef, ast.AsyncFunctionDef, ast.ClassDef)):
            add(n.name)
            continue
        if isinstance(n, ast.Lambda):
            continue
        if isinstance(n, ast.Name) and isinstance(n.ctx, (ast.Store, ast.Del)) and n.id not in nonlocal_names:
            add(n.id)
        if isinstance(n, ast.ExceptHandler) and n.name:
            add(n.name)
        if isinstance(n, (ast.Import, ast.ImportFrom)):
            for al in n.names:
                add((al.asname or al.name).split(".")[0])
        stack.extend(reversed(list(ast.iter_child_nodes(n))))
    return out


class _Abstract(ast.NodeTransformer):
    def __init__(self, index: Dict[str, int]):
        self.index = index

    def visit_Name(self, node):
        if node.id in self.index:
            return ast.copy_location(ast.Name(f"_L{self.index[node.id]}", node.ctx), node)
        return node

    def visit_arg(self, node):
        if node.arg in self.index:
            node = ast.copy_location(ast.arg(f"_L{self.index[node.arg]}", node.annotation), node)
        return self.generic_visit(node)

    def visit_ExceptHandler(self, node):
        if node.name in self.index:
            node.name = f"_L{self.index[node.name]}"
        return self.generic_visit(node)


def shape(fn: ast.AST) -> Tuple[str, List[str]]:
    import copy

    names = _locals_of(fn)
    idx = {n: i for i, n in enumerate(names)}
    f2 = copy.deepcopy(fn)
    # nested defs keep their own names but references to outer locals are abstracted too
    f2 = _Abstract(idx).visit(f2)
    f2.name = "_F"
    f2.decorator_list = []
    # docstrings and type comments do not matter
    if f2.body and isinstance(f2.body[0], ast.Expr) and isinstance(f2.body[0].value, ast.Constant) and isinstance(f2.body[0].value.value, str):
        f2.body = f2.body[1:] or [ast.Pass()]
    # message texts do not matter for the correspondence of locals: f-strings and string constants are abstracted
    class _NoStr(ast.NodeTransformer):
        def visit_JoinedStr(self, node):
            return ast.copy_location(ast.Constant("S"), node)

        def visit_Constant(self, node):
            return ast.copy_location(ast.Constant("S"), node) if isinstance(node.value, str) else node

    f2 = _NoStr().visit(f2)
    h = hashlib.sha256(ast.dump(f2, annotate_fields=False).encode()).hexdigest()[:24]
    return h, names


class _Rename(ast.NodeTransformer):
    def __init__(self, mp):
        self.mp = mp

    def visit_Name(self, node):
        if node.id in self.mp:
            node.id = self.mp[node.id]
        return node

    def visit_arg(self, node):
        if node.arg in self.mp:
            node.arg = self.mp[node.arg]
        return self.generic_visit(node)

    def visit_ExceptHandler(self, node):
        if node.name in self.mp:
            node.name = self.mp[node.name]
        return self.generic_visit(node)


_ref: Optional[dict] = None


def reference() -> dict:
    global _ref
    if _ref is None:
        _ref = json.loads(REF_FILE.read_text()) if REF_FILE.exists() else {}
    return _ref


def normalise(rel: str, tree: ast.Module) -> int:
    """Rename locals of functions in `tree` back to the reference names where the
    shape is unchanged.  Returns the number of functions renamed."""
    ref = reference().get(rel)
    if not ref:
        return 0
    n = 0
    kw_renames: Dict[str, Dict[str, str]] = {}

    def visit(body, prefix):
        nonlocal n
        for st in body:
            if isinstance(st, (ast.FunctionDef, ast.AsyncFunctionDef)):
                q = prefix + st.name
                r = ref.get(q)
                if r is not None:
                    h, names = shape(st)
                    if h == r[0] and names != r[1] and len(names) == len(r[1]):
                        # parameters keep their names (callers pass them by keyword); only true locals are renamed
                        nparams = len(_param_names(st))
                        # parameters keep their names (callers pass them by keyword) — except those of private
                        # module-level helpers, whose keyword call sites in the same file are renamed with them
                        private = prefix == "" and st.name.startswith("_") and not st.name.startswith("__")
                        if names[:nparams] == r[1][:nparams] or private:
                            if names[:nparams] != r[1][:nparams]:
                                kw_renames[st.name] = {a: b for a, b in zip(names[:nparams], r[1][:nparams]) if a != b}
                            mp = {a: b for a, b in zip(names, r[1]) if a != b}
                            # two-step to avoid capture
                            tmp = {a: f"__alpha_{i}" for i, a in enumerate(mp)}
                            _Rename(tmp).visit(st)
                            _Rename({tmp[a]: b for a, b in mp.items()}).visit(st)
                            n += 1
                visit(st.body, q + ".<locals>.")
            elif isinstance(st, ast.ClassDef):
                visit(st.body, prefix + st.name + ".")
            elif isinstance(st, (ast.If, ast.Try)):
                for blk in ([st.body, st.orelse] if isinstance(st, ast.If) else [st.body, st.orelse, st.finalbody] + [h.body for h in st.handlers]):
                    visit(blk, prefix)

    visit(tree.body, "")
    if kw_renames:
        for c in ast.walk(tree):
            if isinstance(c, ast.Call) and isinstance(c.func, ast.Name) and c.func.id in kw_renames:
                for k in c.keywords:
                    if k.arg in kw_renames[c.func.id]:
                        k.arg = kw_renames[c.func.id][k.arg]
    return n


def _param_names(fn) -> List[str]:
    a = fn.args
    return [p.arg for p in list(a.posonlyargs) + list(a.args) + ([a.vararg] if a.vararg else []) + list(a.kwonlyargs) + ([a.kwarg] if a.kwarg else [])]


def build_reference(files: Dict[str, ast.Module]) -> dict:
    out = {}
    for rel, tree in files.items():
        d = {}

        def visit(body, prefix):
            for st in body:
                if isinstance(st, (ast.FunctionDef, ast.AsyncFunctionDef)):
                    q = prefix + st.name
                    h, names = shape(st)
                    d[q] = [h, names]
                    visit(st.body, q + ".<locals>.")
                elif isinstance(st, ast.ClassDef):
                    visit(st.body, prefix + st.name + ".")
                elif isinstance(st, (ast.If, ast.Try)):
                    for blk in ([st.body, st.orelse] if isinstance(st, ast.If) else [st.body, st.orelse, st.finalbody] + [h.body for h in st.handlers]):
                        visit(blk, prefix)

        visit(tree.body, "")
        consts = []
        for st in tree.body:
            if isinstance(st, ast.Assign):
                consts += [t.id for t in st.targets if isinstance(t, ast.Name)]
            elif isinstance(st, ast.AnnAssign) and isinstance(st.target, ast.Name):
                consts.append(st.target.id)
        d["__consts__"] = sorted(set(consts))
        out[rel] = d
    return out
