"""Obligations, evidence files, violation files and known-findings matching."""

from __future__ import annotations

import json
import os
import re
import time
from dataclasses import asdict, dataclass, field
from pathlib import Path
from typing import Dict, List, Optional, Tuple

from .core import AnalysisError

VERIF = Path(__file__).resolve().parent.parent
KNOWN_FILE = VERIF / "known_findings.txt"
EVIDENCE_DIR = Path(os.environ.get("HSA_EVIDENCE_DIR", str(VERIF / "evidence")))


@dataclass
class Ob:
    prop: str
    rule: str  # rule instance id, e.g. "C01.1-source-covers-connectables"
    key: str  # stable construct key (no line numbers)
    site: str  # file:line qualname, for the reader
    ok: bool
    detail: str
    nontrivial: bool = True
    why: str = ""  # how a failure breaks the property (witness sketch)

    @property
    def ident(self) -> str:
        return f"{self.rule}::{self.key}"


class Reporter:
    def __init__(self, prop: str):
        self.prop = prop
        self.obs: List[Ob] = []
        self.floors: Dict[str, int] = {}
        self.info: List[str] = []
        self.analysed: Dict[str, object] = {}
        self.deferred: List[str] = []

    def ok(self, rule, key, site, detail, nontrivial=True):
        self.obs.append(Ob(self.prop, rule, key, site, True, detail, nontrivial))

    def bad(self, rule, key, site, detail, why=""):
        self.obs.append(Ob(self.prop, rule, key, site, False, detail, True, why))

    def check(self, cond: bool, rule, key, site, detail, why="", nontrivial=True):
        if cond:
            self.ok(rule, key, site, detail, nontrivial)
        else:
            self.bad(rule, key, site, detail, why)
        return cond

    def floor(self, rule: str, n: int):
        """Rule `rule` must have produced at least n obligations."""
        self.floors[rule] = n

    def note(self, msg: str):
        self.info.append(msg)

    def run(self, fn, *args, **kw):
        """Run one rule.  An analysis error inside it (an anchor that vanished, an idiom the rule does not know) is
        kept and does not stop the other rules: when those report a violation, that is the verdict; when nothing
        is violated the run still fails as ANALYSIS-ERROR (exit 2) — an unanalysable rule never counts as a pass."""
        def attachments():
            # clauses of another property's check attached here (rules/shared.py Retag): sub-rules of that check which could not
            # be analysed count only when nothing of the attachment is left
            for a in list(args) + list(kw.values()):
                errs = getattr(a, "_errors", None)
                if errs:
                    if getattr(a, "_n", 0) == 0:
                        self.deferred.extend(f"{getattr(fn, '__name__', fn)} (attached): {e_}" for e_ in errs)
                    else:
                        self.note(f"attached {getattr(fn, '__name__', fn)}: {len(errs)} sub-rule(s) not analysable on this tree (reported by the check they belong to); {a._n} attached obligation(s) judged")
                    errs.clear()

        try:
            r = fn(*args, **kw)
            attachments()
            return r
        except AnalysisError as e:
            attachments()
            # the attached check itself gave up half-way: an error here only if nothing of it was judged
            if any(getattr(a, "_n", 0) > 0 for a in list(args) + list(kw.values()) if hasattr(a, "_errors")):
                self.note(f"attached {getattr(fn, '__name__', fn)} stopped early: {e}")
                return None
            self.deferred.append(f"{getattr(fn, '__name__', fn)}: {e}")
            return None
        except Exception as e:  # noqa: BLE001 — a rule tripping over a shape it does not expect is an analysis error of that rule
            import traceback

            tb = traceback.extract_tb(e.__traceback__)[-1]
            self.deferred.append(f"{getattr(fn, '__name__', fn)}: internal error {type(e).__name__}: {e} ({tb.filename.split('/')[-1]}:{tb.lineno})")
            return None

    def verify_floors(self, strict: bool = True):
        counts: Dict[str, int] = {}
        for o in self.obs:
            counts[o.rule] = counts.get(o.rule, 0) + 1
        for rule, n in self.floors.items():
            if strict and counts.get(rule, 0) < n:
                raise AnalysisError(
                    f"anchor-vanished: rule {rule} found {counts.get(rule, 0)} instance(s), "
                    f"floor confirmed by hand is {n} (the rule would pass vacuously)"
                )
        return counts


# --------------------------------------------------------------------------
# known findings
# --------------------------------------------------------------------------

_KNOWN_RE = re.compile(r"^known:\s+property=(C\d+)\s+key=(\S+)\s+::\s*(.*)$")
_FIXED_RE = re.compile(r"^fixed:\s+property=(C\d+)\s+(\S+)\s+(.*)$")


def load_known() -> Tuple[Dict[Tuple[str, str], str], List[str]]:
    known: Dict[Tuple[str, str], str] = {}
    fixed: List[str] = []
    if not KNOWN_FILE.exists():
        return known, fixed
    for line in KNOWN_FILE.read_text().splitlines():
        line = line.rstrip()
        if not line or line.startswith("#"):
            continue
        m = _KNOWN_RE.match(line)
        if m:
            known[(m.group(1), m.group(2))] = m.group(3)
            continue
        m = _FIXED_RE.match(line)
        if m:
            fixed.append(line)
            continue
        raise AnalysisError(f"known_findings.txt: unparsable line: {line!r}")
    return known, fixed


# --------------------------------------------------------------------------
# evidence
# --------------------------------------------------------------------------


def finish(rep: Reporter, tier: str, seed: int, t0: float, extra: Optional[dict] = None) -> int:
    """Write evidence + violation files, print the verdict lines, return exit code."""
    known, _fixed = load_known()
    # Floors guard against passing vacuously.  When the run has unlisted violations to report,
    # those are the verdict; a rule that lost instances next to a reported violation is not an analysis error.
    has_unlisted = any((not o.ok) and (o.prop, o.ident) not in known for o in rep.obs)
    if rep.deferred and not has_unlisted:
        raise AnalysisError("; ".join(rep.deferred))
    for d in rep.deferred:
        print(f"NOTE: rule not analysable on this tree (reported next to the violation(s) below): {d}")
    counts = rep.verify_floors(strict=not has_unlisted)
    viol_dir = EVIDENCE_DIR / "violations"
    # remove stale violation files of this property
    if viol_dir.exists():
        for p in viol_dir.glob(f"{rep.prop}-*.json"):
            p.unlink()
    bad = [o for o in rep.obs if not o.ok]
    unlisted: List[Ob] = []
    listed: List[Ob] = []
    for o in bad:
        if (o.prop, o.ident) in known:
            listed.append(o)
        else:
            unlisted.append(o)
    for o in listed:
        print(f"KNOWN-FINDING: property={o.prop} {o.ident} {o.site} :: {known[(o.prop, o.ident)]}")
    # known entries that no longer fire are reported as information (stale), not as failures
    fired = {(o.prop, o.ident) for o in bad}
    stale = [k for k in known if k[0] == rep.prop and k not in fired]
    for k in stale:
        print(f"NOTE: listed known finding no longer fires: property={k[0]} {k[1]}")
    n = 0
    for o in unlisted:
        viol_dir.mkdir(parents=True, exist_ok=True)
        path = viol_dir / f"{o.prop}-{n}.json"
        path.write_text(json.dumps(asdict(o), indent=1))
        print(f"  {o.site}\n    rule {o.rule} [{o.key}]\n    {o.detail}" + (f"\n    breaks: {o.why}" if o.why else ""))
        print(f"VIOLATION property={o.prop} replay={path}")
        n += 1

    distinct = {o.ident for o in rep.obs if o.nontrivial}
    samples = []
    seen_rules = set()
    for o in rep.obs:
        if o.rule in seen_rules and len(samples) >= 12:
            continue
        if o.rule not in seen_rules or len(samples) < 12:
            samples.append({"rule": o.rule, "key": o.key, "site": o.site, "verdict": "holds" if o.ok else ("known-finding" if o in listed else "VIOLATED"), "detail": o.detail[:300]})
            seen_rules.add(o.rule)
    cov = {
        "explanation": (
            "Static analysis of /repo's current sources (ast; nothing imported or executed). "
            "Each obligation is one instance of a repository-specific structural rule that is a necessary "
            "condition of the property; see DESIGN.md §4 for the clause list and what is NOT decided."
        ),
        "obligations": len(rep.obs),
        "discharged": len([o for o in rep.obs if o.ok]),
        "known_findings": len(listed),
        "evaluations": len(rep.obs),
        "distinct_nontrivial": len(distinct),
        "rule": "one obligation per (rule instance, construct); non-trivial = verdict needed a comparison of extracted facts (not mere existence of the anchor); distinct = distinct (rule, construct key)",
        "samples": samples,
        "per_rule_counts": counts,
        "floors": rep.floors,
        "exhaustive": True,
        "analysed": rep.analysed,
        "notes": rep.info[:40],
    }
    if extra:
        cov.update(extra)
    ev = {
        "property_id": rep.prop,
        "tier": tier,
        "seed": seed,
        "level": "other",
        "coverage": cov,
        "assumptions": [
            "anchors located by qualified name/role in /repo's current tree; a vanished anchor is ANALYSIS-ERROR (exit 2)",
            "necessary structural clauses only: a green run does not establish the behavioural property (DESIGN.md §1)",
            "reader-side facts are taken from the installed vlsirtools sources",
        ],
        "wall_s": round(time.time() - t0, 3),
        "violations": len(unlisted),
    }
    EVIDENCE_DIR.mkdir(parents=True, exist_ok=True)
    (EVIDENCE_DIR / f"{rep.prop}.json").write_text(json.dumps(ev, indent=1, default=str))
    ok = len(rep.obs) - len(bad)
    print(
        f"{rep.prop}: {len(rep.obs)} obligations, {ok} hold, {len(listed)} known finding(s), "
        f"{len(unlisted)} violation(s); rules={len(counts)}; {ev['wall_s']}s"
    )
    return 1 if unlisted else 0
