"""Checker self-test: breaking variants and benign twins (DESIGN §7).

Each variant is a small textual edit of one analysed source file, applied to a
scratch mirror of the tree (symlinks to the real files, the edited file written
out) in a temporary directory that is removed afterwards.  Nothing is executed:
the variant is only re-analysed.

* a BREAKING variant must make the named rule report a violation;
* a BENIGN twin must leave the property's verdict unchanged (no new violation,
  no ANALYSIS-ERROR).

A variant whose anchor text is not present in the current tree (because /repo
has changed) is skipped and counted, not failed.  A variant that applies but
does not behave as expected makes the self-test fail: exit 2 (the checker is not
to be believed), never a VIOLATION.
"""

from __future__ import annotations

import os
import shutil
import tempfile
import time
from concurrent.futures import ProcessPoolExecutor
from pathlib import Path
from typing import Dict, List, Optional, Tuple

from .core import AnalysisError, REPO


def mirror(root: Path, edits: Dict[str, str]) -> Path:
    """Scratch copy of the analysed part of `root` with `edits` ({rel: new text}) applied."""
    tmp = Path(tempfile.mkdtemp(prefix="hsa-variant-"))
    for sub in ("hdl21", "pdks/Sky130/sky130_hdl21", "pdks/Gf180/gf180_hdl21", "pdks/Asap7/asap7_hdl21"):
        src = root / sub
        if not src.exists():
            continue
        for p in src.rglob("*.py"):
            rel = p.relative_to(root)
            dst = tmp / rel
            dst.parent.mkdir(parents=True, exist_ok=True)
            if str(rel) in edits:
                dst.write_text(edits[str(rel)])
            else:
                os.symlink(p, dst)
    return tmp


def apply_unified(patch: str, root: Path) -> Optional[Dict[str, str]]:
    """Apply a unified diff (as written by `git diff`) to the files under `root`, in memory.
    Hunks must match exactly (context and removed lines), at the stated line or anywhere the
    block occurs exactly once.  Returns {rel: new text}, or None when a hunk does not apply."""
    import re

    out: Dict[str, str] = {}
    files = re.split(r"^diff --git .*$", patch, flags=re.M)[1:]
    for f in files:
        m = re.search(r"^\+\+\+ b/(.+)$", f, flags=re.M)
        m0 = re.search(r"^--- (?:a/(.+)|/dev/null)$", f, flags=re.M)
        if not m or not m0 or m0.group(1) is None or m0.group(1) != m.group(1):
            return None  # creations, deletions and renames are not supported
        rel = m.group(1)
        path = root / rel
        if not path.exists():
            return None
        lines = out.get(rel, path.read_text()).split("\n")
        hunks = re.split(r"^@@ -(\d+)(?:,\d+)? \+\d+(?:,\d+)? @@.*$", f, flags=re.M)[1:]
        shift = 0
        for start, body in zip(hunks[0::2], hunks[1::2]):
            old, new = [], []
            for l in body.split("\n")[1:]:
                if l.startswith("\\"):
                    continue
                if l.startswith("-"):
                    old.append(l[1:])
                elif l.startswith("+"):
                    new.append(l[1:])
                elif l.startswith(" "):
                    old.append(l[1:])
                    new.append(l[1:])
                elif l == "":
                    # a blank context line whose leading space was stripped, or the end of the hunk
                    old.append("")
                    new.append("")
            while old and new and old[-1] == "" and new[-1] == "":
                old.pop()
                new.pop()
            at = int(start) - 1 + shift
            if lines[at : at + len(old)] != old:
                cands = [i for i in range(len(lines) - len(old) + 1) if lines[i : i + len(old)] == old]
                if len(cands) != 1:
                    return None
                at = cands[0]
            lines[at : at + len(old)] = new
            shift += len(new) - len(old)
        out[rel] = "\n".join(lines)
    return out or None


def corpus_variants(prop: str) -> List[dict]:
    """Patch-based variants: the confirmed seeded changes for this property (must be reported) and the
    behaviour-preserving refactorings anchored at it (must leave the verdict unchanged)."""
    import json

    base = Path(__file__).resolve().parent.parent
    out = []
    for kind, sub in (("break", "seeded"), ("benign", "benign")):
        d = base / sub
        if not d.exists():
            continue
        for v in sorted(d.iterdir()):
            mp, pp = v / "meta.json", v / "patch.diff"
            if not (mp.exists() and pp.exists()):
                continue
            meta = json.loads(mp.read_text())
            if meta.get("property") != prop or meta.get("excluded_from_selftest"):
                continue
            out.append(dict(prop=prop, kind=kind, name=f"{sub}/{v.name}", patch=pp.read_text(), rule=prop, file="", old="", new="", accept_error=False,
                            open=(sub == "benign" and v.name in open_refactorings())))
    return out


_OPEN = None


def open_refactorings() -> Dict[str, str]:
    """benign/OPEN.txt: behaviour-preserving refactorings on which some check still raises a (false) alarm or cannot
    decide — known limits of the canonical form (DESIGN.md §11.10), listed so that every *other* refactoring stays a
    hard requirement of the self-test.  `<name>: <what fires>` per line."""
    global _OPEN
    if _OPEN is None:
        _OPEN = {}
        f = Path(__file__).resolve().parent.parent / "benign" / "OPEN.txt"
        if f.exists():
            for line in f.read_text().splitlines():
                line = line.strip()
                if line and not line.startswith("#"):
                    nm, _, why = line.partition(":")
                    _OPEN[nm.strip()] = why.strip()
    return _OPEN


def _run_variant(args) -> dict:
    prop, v, root = args
    from . import check as chk
    from .rules import common

    if v.get("open"):
        return dict(name=v["name"], status="open", why="listed in benign/OPEN.txt (known false alarm on a structural refactoring)")
    if v.get("patch"):
        edits = apply_unified(v["patch"], Path(root))
        if edits is None:
            return dict(name=v["name"], status="skipped", why="the patch does not apply to the current tree")
        return _judge(prop, v, root, edits)
    rel, old, new = v["file"], v["old"], v["new"]
    src = (Path(root) / rel).read_text()
    if v.get("regex"):
        import re

        edited, n = re.subn(old, new, src)
        if n < v.get("min_count", 1):
            return dict(name=v["name"], status="skipped", why=f"pattern matches {n} times in {rel}")
    else:
        if src.count(old) != 1:
            return dict(name=v["name"], status="skipped", why=f"anchor text occurs {src.count(old)} times in {rel}")
        edited = src.replace(old, new)
    return _judge(prop, v, root, {rel: edited})


def _judge(prop: str, v: dict, root, edits: Dict[str, str]) -> dict:
    from . import check as chk
    from .rules import common

    tmp = mirror(Path(root), edits)
    try:
        common._noreturn_cache.clear()
        try:
            rep = chk.run_prop(prop, root=tmp)
            rep.verify_floors(strict=not any(not o.ok for o in rep.obs))
            if rep.deferred and not any(not o.ok for o in rep.obs):
                raise AnalysisError("; ".join(rep.deferred))
        except AnalysisError as e:
            if v["kind"] == "break" and v.get("accept_error"):
                return dict(name=v["name"], status="ok", fired=["ANALYSIS-ERROR"], detail=str(e)[:120])
            return dict(name=v["name"], status="FAILED", why=f"ANALYSIS-ERROR on the variant: {e}")
        from .report import load_known

        known, _ = load_known()
        bad = [o for o in rep.obs if not o.ok and (o.prop, o.ident) not in known]
        fired = sorted({o.rule for o in bad})
        if v["kind"] == "break":
            want = v["rule"]
            hit = [o for o in bad if o.rule.startswith(want)]
            if v.get("patch"):
                hit = bad
            if not hit:
                return dict(name=v["name"], status="FAILED", why=f"expected rule {want} to fire; fired: {fired or 'nothing'}")
            return dict(name=v["name"], status="ok", fired=fired, detail=hit[0].detail[:160])
        else:
            if bad:
                return dict(name=v["name"], status="FAILED", why=f"benign twin raised {fired}: {bad[0].detail[:160]}")
            return dict(name=v["name"], status="ok", fired=[])
    finally:
        shutil.rmtree(tmp, ignore_errors=True)


def variants_for(prop: str) -> List[dict]:
    from .variants import VARIANTS

    return [v for v in VARIANTS if v["prop"] == prop]


def run_for(prop: str, root: Path = REPO, jobs: int = 8) -> dict:
    vs = variants_for(prop) + corpus_variants(prop)
    t0 = time.time()
    results = []
    if vs:
        with ProcessPoolExecutor(max_workers=min(jobs, len(vs))) as ex:
            results = list(ex.map(_run_variant, [(prop, v, str(root)) for v in vs]))
    failed = [r for r in results if r["status"] == "FAILED"]
    skipped = [r for r in results if r["status"] == "skipped"]
    ok = [r for r in results if r["status"] == "ok"]
    opened = [r for r in results if r["status"] == "open"]
    for r in results:
        print(f"  selftest {prop} {r['name']}: {r['status']}" + (f" — {r.get('why', '')}" if r["status"] != "ok" else f" (fired {r.get('fired')})"))
    print(f"selftest {prop}: {len(ok)} ok, {len(skipped)} skipped, {len(failed)} failed, {len(opened)} open (benign/OPEN.txt) of {len(vs)} variants in {round(time.time() - t0, 1)}s")
    if failed:
        raise AnalysisError(f"checker self-test failed for {prop}: " + "; ".join(f"{r['name']}: {r['why']}" for r in failed[:3]))
    return {
        "selftest": {
            "variants": len(vs),
            "breaking_detected": len([r for r, v in zip(results, vs) if v["kind"] == "break" and r["status"] == "ok"]),
            "benign_silent": len([r for r, v in zip(results, vs) if v["kind"] == "benign" and r["status"] == "ok"]),
            "skipped_anchor_missing": len(skipped),
            "open_refactorings_not_judged": len(opened),
            "results": results,
        }
    }


def main():
    import sys

    props = sys.argv[1:] or [f"C{n:02d}" for n in range(1, 20)]
    rc = 0
    for p in props:
        try:
            run_for(p, jobs=16)
        except AnalysisError as e:
            print(f"SELFTEST-FAILED {e}")
            rc = 2
    sys.exit(rc)


if __name__ == "__main__":
    main()
