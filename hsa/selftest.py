"""Checker self-test: breaking variants and benign twins (DESIGN §7).

Each variant is a small textual edit of one analysed source file, applied to a
scratch mirror of the tree (symlinks to the real files, the edited file written
out) in a temporary directory that is removed afterwards.  Nothing is executed:
the variant is only re-analysed.

* a BREAKING variant must make the named rule report a violation;
* a BENIGN twin must leave the property's verdict unchanged (no new violation,
  no ANALYSIS-ERROR).

A variant whose anchor text is not present in the current tree (because /repo
has changed) is skipped and counted, not failed.  A variant that applies but
does not behave as expected makes the self-test fail: exit 2 (the checker is not
to be believed), never a VIOLATION.
"""

from __future__ import annotations

import os
import shutil
import tempfile
import time
from concurrent.futures import ProcessPoolExecutor
from pathlib import Path
from typing import Dict, List, Optional, Tuple

from .core import AnalysisError, REPO


def mirror(root: Path, edits: Dict[str, str]) -> Path:
    """Scratch copy of the analysed part of `root` with `edits` ({rel: new text}) applied."""
    tmp = Path(tempfile.mkdtemp(prefix="hsa-variant-"))
    for sub in ("hdl21", "pdks/Sky130/sky130_hdl21", "pdks/Gf180/gf180_hdl21", "pdks/Asap7/asap7_hdl21"):
        src = root / sub
        if not src.exists():
            continue
        for p in src.rglob("*.py"):
            rel = p.relative_to(root)
            dst = tmp / rel
            dst.parent.mkdir(parents=True, exist_ok=True)
            if str(rel) in edits:
                dst.write_text(edits[str(rel)])
            else:
                os.symlink(p, dst)
    return tmp


def _run_variant(args) -> dict:
    prop, v, root = args
    from . import check as chk
    from .rules import common

    rel, old, new = v["file"], v["old"], v["new"]
    src = (Path(root) / rel).read_text()
    if v.get("regex"):
        import re

        edited, n = re.subn(old, new, src)
        if n < v.get("min_count", 1):
            return dict(name=v["name"], status="skipped", why=f"pattern matches {n} times in {rel}")
    else:
        if src.count(old) != 1:
            return dict(name=v["name"], status="skipped", why=f"anchor text occurs {src.count(old)} times in {rel}")
        edited = src.replace(old, new)
    tmp = mirror(Path(root), {rel: edited})
    try:
        common._noreturn_cache.clear()
        try:
            rep = chk.run_prop(prop, root=tmp)
            rep.verify_floors(strict=not any(not o.ok for o in rep.obs))
        except AnalysisError as e:
            if v["kind"] == "break" and v.get("accept_error"):
                return dict(name=v["name"], status="ok", fired=["ANALYSIS-ERROR"], detail=str(e)[:120])
            return dict(name=v["name"], status="FAILED", why=f"ANALYSIS-ERROR on the variant: {e}")
        from .report import load_known

        known, _ = load_known()
        bad = [o for o in rep.obs if not o.ok and (o.prop, o.ident) not in known]
        fired = sorted({o.rule for o in bad})
        if v["kind"] == "break":
            want = v["rule"]
            hit = [o for o in bad if o.rule.startswith(want)]
            if not hit:
                return dict(name=v["name"], status="FAILED", why=f"expected rule {want} to fire; fired: {fired or 'nothing'}")
            return dict(name=v["name"], status="ok", fired=fired, detail=hit[0].detail[:160])
        else:
            if bad:
                return dict(name=v["name"], status="FAILED", why=f"benign twin raised {fired}: {bad[0].detail[:160]}")
            return dict(name=v["name"], status="ok", fired=[])
    finally:
        shutil.rmtree(tmp, ignore_errors=True)


def variants_for(prop: str) -> List[dict]:
    from .variants import VARIANTS

    return [v for v in VARIANTS if v["prop"] == prop]


def run_for(prop: str, root: Path = REPO, jobs: int = 8) -> dict:
    vs = variants_for(prop)
    t0 = time.time()
    results = []
    if vs:
        with ProcessPoolExecutor(max_workers=min(jobs, len(vs))) as ex:
            results = list(ex.map(_run_variant, [(prop, v, str(root)) for v in vs]))
    failed = [r for r in results if r["status"] == "FAILED"]
    skipped = [r for r in results if r["status"] == "skipped"]
    ok = [r for r in results if r["status"] == "ok"]
    for r in results:
        print(f"  selftest {prop} {r['name']}: {r['status']}" + (f" — {r.get('why', '')}" if r["status"] != "ok" else f" (fired {r.get('fired')})"))
    print(f"selftest {prop}: {len(ok)} ok, {len(skipped)} skipped, {len(failed)} failed of {len(vs)} variants in {round(time.time() - t0, 1)}s")
    if failed:
        raise AnalysisError(f"checker self-test failed for {prop}: " + "; ".join(f"{r['name']}: {r['why']}" for r in failed[:3]))
    return {
        "selftest": {
            "variants": len(vs),
            "breaking_detected": len([r for r, v in zip(results, vs) if v["kind"] == "break" and r["status"] == "ok"]),
            "benign_silent": len([r for r, v in zip(results, vs) if v["kind"] == "benign" and r["status"] == "ok"]),
            "skipped_anchor_missing": len(skipped),
            "results": results,
        }
    }


def main():
    import sys

    props = sys.argv[1:] or [f"C{n:02d}" for n in range(1, 20)]
    rc = 0
    for p in props:
        try:
            run_for(p, jobs=16)
        except AnalysisError as e:
            print(f"SELFTEST-FAILED {e}")
            rc = 2
    sys.exit(rc)


if __name__ == "__main__":
    main()
