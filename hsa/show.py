"""Print the canonical form of a function as the rules see it: python -m hsa.show <rel> <qual> [--root R]"""
import ast, sys
from pathlib import Path
from .core import build_repo, REPO

def main():
    args = [a for a in sys.argv[1:] if not a.startswith("--")]
    root = Path(sys.argv[sys.argv.index("--root") + 1]) if "--root" in sys.argv else REPO
    if "--root" in sys.argv:
        args = [a for a in args if a != str(root)]
    repo = build_repo(root)
    rel, qual = args[0], args[1]
    fi = repo.func(rel, qual)
    print(ast.unparse(fi.node))

main()
