"""AST utilities: local inlining, affine normal form, dispatch extraction."""

from __future__ import annotations

import ast
import copy
from fractions import Fraction
from typing import Dict, Iterable, Iterator, List, Optional, Sequence, Set, Tuple

from .core import dotted


# --------------------------------------------------------------------------
# traversal helpers
# --------------------------------------------------------------------------


def walk_no_nested(fn: ast.AST) -> Iterator[ast.AST]:
    """ast.walk that does not descend into nested function/class definitions
    (the root itself may be one)."""
    stack = [fn]
    first = True
    while stack:
        n = stack.pop()
        if not first and isinstance(n, (ast.FunctionDef, ast.AsyncFunctionDef, ast.ClassDef, ast.Lambda)):
            continue
        first = False
        yield n
        stack.extend(reversed(list(ast.iter_child_nodes(n))))  # pre-order, source order


def parents(root: ast.AST) -> Dict[ast.AST, ast.AST]:
    out = {}
    for n in ast.walk(root):
        for c in ast.iter_child_nodes(n):
            out[c] = n
    return out


def calls_in(fn: ast.AST, nested=False) -> List[ast.Call]:
    it = ast.walk(fn) if nested else walk_no_nested(fn)
    return [n for n in it if isinstance(n, ast.Call)]


def call_name(c: ast.Call) -> str:
    return dotted(c.func) or ast.unparse(c.func)


def stmts(fn: ast.AST) -> Iterator[ast.stmt]:
    for n in walk_no_nested(fn):
        if isinstance(n, ast.stmt) and n is not fn:
            yield n


def names_in(node: ast.AST) -> Set[str]:
    return {n.id for n in ast.walk(node) if isinstance(n, ast.Name)}


def attr_chain_root(node: ast.AST) -> Optional[str]:
    while isinstance(node, (ast.Attribute, ast.Subscript, ast.Call)):
        node = node.value if not isinstance(node, ast.Call) else node.func
    return node.id if isinstance(node, ast.Name) else None


# --------------------------------------------------------------------------
# local single-definition inlining
# --------------------------------------------------------------------------

_PURE_CALLS = {"len", "abs", "int", "str", "tuple", "list", "min", "max", "width", "type", "id"}


def _is_pure(e: ast.AST) -> bool:
    for n in ast.walk(e):
        if isinstance(n, ast.Call):
            if not (isinstance(n.func, ast.Name) and n.func.id in _PURE_CALLS):
                # method calls like index.indices(...) / x.get(...) are treated as pure values
                if isinstance(n.func, ast.Attribute) and n.func.attr in ("indices", "get", "keys", "values", "items", "path", "root", "to_name"):
                    continue
                if isinstance(n.func, ast.Attribute) and dotted(n.func) in ("slice.__getattribute__",):
                    continue
                return False
        if isinstance(n, (ast.Yield, ast.YieldFrom, ast.Await, ast.NamedExpr, ast.Lambda)):
            return False
    return True


def local_defs(fn: ast.AST) -> Dict[str, ast.AST]:
    """Like local_env, but keeps impure definitions (calls) too.  Use only to
    ask "where does this value come from", never to duplicate evaluation."""
    return local_env(fn, pure_only=False)


def local_env(fn: ast.AST, pure_only: bool = True) -> Dict[str, ast.AST]:
    """name -> defining expression, for locals bound exactly once by a plain
    `name = <pure expr>` (tuple unpacking of a tuple literal is split)."""
    counts: Dict[str, int] = {}
    defs: Dict[str, ast.AST] = {}

    def bump(t):
        for n in ast.walk(t):
            if isinstance(n, ast.Name) and isinstance(n.ctx, (ast.Store, ast.Del)):
                counts[n.id] = counts.get(n.id, 0) + 1

    args = fn.args if isinstance(fn, (ast.FunctionDef, ast.AsyncFunctionDef, ast.Lambda)) else None
    if args is not None:
        for a in list(args.posonlyargs) + list(args.args) + list(args.kwonlyargs):
            counts[a.arg] = counts.get(a.arg, 0) + 1
        if args.vararg:
            counts[args.vararg.arg] = 1
        if args.kwarg:
            counts[args.kwarg.arg] = 1
    for n in walk_no_nested(fn):
        if isinstance(n, ast.Assign):
            for t in n.targets:
                bump(t)
            if len(n.targets) == 1:
                t = n.targets[0]
                if isinstance(t, ast.Name):
                    defs[t.id] = n.value
                elif isinstance(t, ast.Tuple) and isinstance(n.value, ast.Tuple) and len(t.elts) == len(n.value.elts):
                    for a, b in zip(t.elts, n.value.elts):
                        if isinstance(a, ast.Name):
                            defs[a.id] = b
        elif isinstance(n, ast.AnnAssign):
            bump(n.target)
            if isinstance(n.target, ast.Name) and n.value is not None:
                defs[n.target.id] = n.value
        elif isinstance(n, (ast.AugAssign,)):
            bump(n.target)
            if isinstance(n.target, ast.Name):
                counts[n.target.id] = counts.get(n.target.id, 0) + 1
        elif isinstance(n, (ast.For, ast.AsyncFor)):
            bump(n.target)
        elif isinstance(n, (ast.With, ast.AsyncWith)):
            for it in n.items:
                if it.optional_vars is not None:
                    bump(it.optional_vars)
        elif isinstance(n, ast.ExceptHandler) and n.name:
            counts[n.name] = counts.get(n.name, 0) + 1
        elif isinstance(n, ast.comprehension):
            bump(n.target)
        elif isinstance(n, ast.NamedExpr):
            bump(n.target)
        elif isinstance(n, (ast.Import, ast.ImportFrom)):
            for a in n.names:
                nm = (a.asname or a.name).split(".")[0]
                counts[nm] = counts.get(nm, 0) + 1
    return {k: v for k, v in defs.items() if counts.get(k, 0) == 1 and (not pure_only or _is_pure(v))}


class _Subst(ast.NodeTransformer):
    def __init__(self, env, depth):
        self.env, self.depth = env, depth

    def visit_Name(self, node):
        if isinstance(node.ctx, ast.Load) and node.id in self.env and self.depth > 0:
            rep = copy.deepcopy(self.env[node.id])
            return _Subst({k: v for k, v in self.env.items() if k != node.id}, self.depth - 1).visit(rep)
        return node


def expand(e: ast.AST, env: Dict[str, ast.AST], depth: int = 6) -> ast.AST:
    return ast.fix_missing_locations(_Subst(env, depth).visit(copy.deepcopy(e)))


# --------------------------------------------------------------------------
# affine / polynomial normal form over integer expressions
# --------------------------------------------------------------------------

Poly = Dict[Tuple[str, ...], Fraction]


def _padd(a: Poly, b: Poly, s=1) -> Poly:
    out = dict(a)
    for k, v in b.items():
        out[k] = out.get(k, 0) + s * v
        if out[k] == 0:
            del out[k]
    return out


def _pmul(a: Poly, b: Poly) -> Poly:
    out: Poly = {}
    for k1, v1 in a.items():
        for k2, v2 in b.items():
            k = tuple(sorted(k1 + k2))
            out[k] = out.get(k, 0) + v1 * v2
            if out[k] == 0:
                del out[k]
    return out


def poly(e: ast.AST) -> Poly:
    """Polynomial normal form; non-arithmetic sub-expressions become atoms
    keyed by their unparsed text."""
    if isinstance(e, ast.Constant) and isinstance(e.value, (int,)) and not isinstance(e.value, bool):
        return {(): Fraction(e.value)} if e.value != 0 else {}
    if isinstance(e, ast.UnaryOp) and isinstance(e.op, ast.USub):
        return _padd({}, poly(e.operand), -1)
    if isinstance(e, ast.UnaryOp) and isinstance(e.op, ast.UAdd):
        return poly(e.operand)
    if isinstance(e, ast.BinOp):
        if isinstance(e.op, ast.Add):
            return _padd(poly(e.left), poly(e.right))
        if isinstance(e.op, ast.Sub):
            return _padd(poly(e.left), poly(e.right), -1)
        if isinstance(e.op, ast.Mult):
            return _pmul(poly(e.left), poly(e.right))
    return {(ast.unparse(e),): Fraction(1)}


def poly_eq(a: ast.AST, b: ast.AST) -> bool:
    return poly(a) == poly(b)


def poly_str(p: Poly) -> str:
    if not p:
        return "0"
    parts = []
    for k in sorted(p):
        c = p[k]
        mon = "*".join(k)
        if not mon:
            parts.append(str(c))
        elif c == 1:
            parts.append(mon)
        else:
            parts.append(f"{c}*{mon}")
    return " + ".join(parts)


def cmp_norm(test: ast.AST) -> Optional[Tuple[str, str]]:
    """Normalise an integer comparison `a ⋈ b` to ('le'|'eq'|'ne', poly-text of p)
    meaning p <= 0 / p == 0 / p != 0.  `not` flips.  None if not a single compare."""
    neg = False
    while isinstance(test, ast.UnaryOp) and isinstance(test.op, ast.Not):
        neg = not neg
        test = test.operand
    if not (isinstance(test, ast.Compare) and len(test.ops) == 1):
        return None
    a, b, op = test.left, test.comparators[0], test.ops[0]
    flip = {ast.Lt: ast.GtE, ast.LtE: ast.Gt, ast.Gt: ast.LtE, ast.GtE: ast.Lt, ast.Eq: ast.NotEq, ast.NotEq: ast.Eq}
    t = type(op)
    if t not in flip:
        return None
    if neg:
        t = flip[t]
    one = {(): Fraction(1)}
    pa, pb = poly(a), poly(b)
    if t is ast.LtE:  # a <= b  ->  a-b <= 0
        p = _padd(pa, pb, -1)
        kind = "le"
    elif t is ast.Lt:  # a < b -> a-b+1 <= 0
        p = _padd(_padd(pa, pb, -1), one)
        kind = "le"
    elif t is ast.GtE:  # a >= b -> b-a <= 0
        p = _padd(pb, pa, -1)
        kind = "le"
    elif t is ast.Gt:  # a > b -> b-a+1 <= 0
        p = _padd(_padd(pb, pa, -1), one)
        kind = "le"
    else:
        p = _padd(pa, pb, -1)
        # canonical sign: first monomial positive
        if p:
            k0 = sorted(p)[-1]
            if p[k0] < 0:
                p = _padd({}, p, -1)
        kind = "eq" if t is ast.Eq else "ne"
    return kind, poly_str(p)


# --------------------------------------------------------------------------
# dispatch extraction
# --------------------------------------------------------------------------


def isinstance_classes(call: ast.Call) -> Optional[Tuple[ast.AST, List[ast.AST]]]:
    """For `isinstance(x, C)` / `isinstance(x, (A, B))` return (x, [class exprs])."""
    if not (isinstance(call, ast.Call) and isinstance(call.func, ast.Name) and call.func.id == "isinstance" and len(call.args) == 2):
        return None
    x, c = call.args
    if isinstance(c, ast.Tuple):
        return x, list(c.elts)
    return x, [c]


def handled_classes(fn: ast.AST, subject: Optional[str] = None) -> List[Tuple[ast.Call, List[ast.AST]]]:
    """All isinstance tests in fn (optionally only those whose first argument,
    unparsed, equals `subject`)."""
    out = []
    for c in calls_in(fn):
        r = isinstance_classes(c)
        if r is None:
            continue
        x, classes = r
        if subject is not None and ast.unparse(x) != subject:
            continue
        out.append((c, classes))
    # `x is None` is the test for the class of None
    for n in walk_no_nested(fn):
        if isinstance(n, ast.Compare) and len(n.ops) == 1 and isinstance(n.ops[0], (ast.Is, ast.IsNot)) and isinstance(n.comparators[0], ast.Constant) and n.comparators[0].value is None:
            if subject is None or ast.unparse(n.left) == subject:
                out.append((n, [ast.Constant(None)]))
    return out


def terminates(body: Sequence[ast.stmt], noreturn: Set[str] = frozenset()) -> bool:
    """True if the statement list cannot fall through: ends in raise/return, or a
    call of a known no-return helper, or an if/else all of whose branches terminate."""
    if not body:
        return False
    last = body[-1]
    if isinstance(last, (ast.Raise, ast.Return, ast.Continue, ast.Break)):
        return True
    if isinstance(last, ast.Expr) and isinstance(last.value, ast.Call):
        nm = call_name(last.value)
        if nm in noreturn or nm.split(".")[-1] in noreturn:
            return True
    if isinstance(last, ast.If):
        return terminates(last.body, noreturn) and terminates(last.orelse, noreturn)
    if isinstance(last, ast.Try):
        return terminates(last.body, noreturn) and all(terminates(h.body, noreturn) for h in last.handlers)
    return False


def raises(body: Sequence[ast.stmt], noreturn: Set[str] = frozenset()) -> bool:
    """True if the block ends by raising (raise stmt or no-return helper,
    possibly returned: `return self.fail(..)`)."""
    if not body:
        return False
    last = body[-1]
    if isinstance(last, ast.Raise):
        return True
    call = None
    if isinstance(last, ast.Expr) and isinstance(last.value, ast.Call):
        call = last.value
    if isinstance(last, ast.Return) and isinstance(last.value, ast.Call):
        call = last.value
    if call is not None:
        nm = call_name(call)
        if nm in noreturn or nm.split(".")[-1] in noreturn:
            return True
    if isinstance(last, ast.If):
        return raises(last.body, noreturn) and raises(last.orelse, noreturn)
    return False


def tail_default(body: Sequence[ast.stmt]) -> Sequence[ast.stmt]:
    """The block reached when every test of the trailing if/elif chain of `body` is false
    (canonical form: guard clauses are if/else chains)."""
    while body and isinstance(body[-1], ast.If) and body[-1].orelse:
        body = body[-1].orelse
    return body


def dispatch_defaults(fn: ast.AST, subject: str) -> List[Sequence[ast.stmt]]:
    """For every if/elif chain in fn that dispatches on `isinstance(<subject>, ..)`: the block reached
    when no test of the chain matches (the final else; empty when the chain has none)."""
    heads = []
    chained = set()
    ifs = [n for n in walk_no_nested(fn) if isinstance(n, ast.If)]

    def on_subject(n: ast.If) -> bool:
        for c in ast.walk(n.test):
            if isinstance(c, ast.Call):
                r = isinstance_classes(c)
                if r is not None and ast.unparse(r[0]) == subject:
                    return True
        return False

    for n in ifs:
        if on_subject(n) and len(n.orelse) == 1 and isinstance(n.orelse[0], ast.If) and on_subject(n.orelse[0]):
            chained.add(id(n.orelse[0]))
    out = []
    for n in ifs:
        if on_subject(n) and id(n) not in chained:
            cur = n
            while len(cur.orelse) == 1 and isinstance(cur.orelse[0], ast.If) and on_subject(cur.orelse[0]):
                cur = cur.orelse[0]
            out.append(cur.orelse)
    return out


def dispatch_arms(fn: ast.AST, subject: str) -> List[Tuple[ast.If, List[ast.AST], Sequence[ast.stmt]]]:
    """The arms of the if/elif chains in fn that test `isinstance(<subject>, ..)` directly, in program order:
    (if node, class expressions, body).  Canonical form: a sequence of guard clauses is such a chain."""
    out = []
    for n in walk_no_nested(fn):
        if isinstance(n, ast.If) and isinstance(n.test, ast.Call):
            r = isinstance_classes(n.test)
            if r is not None and ast.unparse(r[0]) == subject:
                out.append((n, list(r[1]), n.body))
    return out


def dispatch_default_raises(fn: ast.AST, subject: str, noreturn: Set[str] = frozenset()) -> bool:
    """The longest isinstance-dispatch on `subject` in fn ends in an else that raises."""
    ds = dispatch_defaults(fn, subject)
    return bool(ds) and any(raises(d, noreturn) for d in ds)


def default_raises(body: Sequence[ast.stmt], noreturn: Set[str] = frozenset()) -> bool:
    """The case not covered by any test of the trailing if/elif chain ends by raising."""
    return raises(tail_default(body), noreturn)


def str_const(e: ast.AST) -> Optional[str]:
    return e.value if isinstance(e, ast.Constant) and isinstance(e.value, str) else None


def dict_literal(e: ast.AST) -> Optional[List[Tuple[ast.AST, ast.AST]]]:
    if isinstance(e, ast.Dict):
        return [(k, v) for k, v in zip(e.keys, e.values) if k is not None]
    if isinstance(e, ast.Call) and isinstance(e.func, ast.Name) and e.func.id == "dict" and not e.args:
        return [(ast.Constant(k.arg), k.value) for k in e.keywords if k.arg]
    return None
