"""Self-test variants: breaking edits (the named rule must fire) and benign twins
(the verdict must not change).  Edits are textual and must match exactly once in
the current tree; otherwise the variant is skipped (see selftest.py)."""

from .rules.common import *  # noqa: F401,F403  (file anchors)

VARIANTS = []


def B(prop, name, file, old, new, rule, accept_error=False):
    VARIANTS.append(dict(prop=prop, kind="break", name=name, file=file, old=old, new=new, rule=rule, accept_error=accept_error))


def T(prop, name, file, old, new):
    VARIANTS.append(dict(prop=prop, kind="benign", name=name, file=file, old=old, new=new))


# ------------------------------------------------------------------ C01
B("C01", "source-drops-slice", F_PORTREFS, "Source = Union[Signal, Slice, Concat, BundleInstance, BundleRef, AnonymousBundle]", "Source = Union[Signal, BundleInstance, BundleRef, AnonymousBundle]", "C01.1")
B("C01", "export-slice-top-exclusive", F_EXPORT, "top=slize.top - 1, bot=slize.bot", "top=slize.top, bot=slize.bot", "C01.2")
B("C01", "export-concat-forward", F_EXPORT, "for part in reversed(concat.parts):", "for part in concat.parts:", "C01.2")
B("C01", "import-concat-forward", F_IMPORT, "for ppart in reversed(pconc.parts):", "for ppart in pconc.parts:", "C01.2")
B("C01", "import-slice-top", F_IMPORT, "stop = pconn.slice.top + 1  # Move", "stop = pconn.slice.top  # Move", "C01.2")
B("C01", "array-slice-overlap", F_ARRAYS, "conn[k * port.width : (k + 1) * port.width]", "conn[k * port.width : (k + 1) * port.width + 1]", "C01.3")
B("C01", "array-slice-shift", F_ARRAYS, "conn[k * port.width : (k + 1) * port.width]", "conn[(k + 1) * port.width : (k + 2) * port.width]", "C01.3")
B("C01", "array-guard-wrong", F_ARRAYS, "elif port.width * array.n == conn.width:", "elif port.width + array.n == conn.width:", "C01.3")
B("C01", "bundle-conn-wrong-scope", F_FLATB, "inst.connect(flat_port.name, flat.signals[path])", "inst.connect(flat_port.name, flat_bundle_port.signals[path])", "C01.4")
B("C01", "instbundle-swap-name", F_INSTB, "new_inst.connect(portname, _bundle_ref(conn, signame))", "new_inst.connect(portname, _bundle_ref(conn, portname))", "C01.5")
B("C01", "noconn-guard-relaxed", F_PORTREFS, "if len(group) > 2:", "if len(group) > 3:", "C01.6")
B("C01", "portref-hash-name-only", F_PORTREF, "return hash((id(self.inst), self.portname))", "return hash((self.inst, self.portname))", "C01.7")
B("C01", "bundleref-eq-inst", F_BUNDLE, "return self.parent is other.parent and self.attrname == other.attrname", "return self.inst is other.inst and self.attrname == other.attrname", "C01.7")
B("C01", "list-slice-ignore-step", F_SLICES, "idx = parent.bot + slize.bot * parent.step", "idx = parent.bot + slize.bot", "C01.8")
B("C01", "list-slice-first-neg", F_SLICES, "first = _list_slice(slize.parent[slize.top - 1])", "first = _list_slice(slize.parent[slize.top])", "C01.8")
B("C01", "full-width-shortcut-any-step", F_SLICES, "if slize.step == 1 and width(slize) == width(slize.parent):", "if width(slize) == width(slize.parent):", "C01.8")
B("C01", "resolve-concat-tail-order", F_SLICES, "return Concat(*(first.parts + rest))", "return Concat(*(rest + first.parts))", "C01.8")
B("C01", "pass-writes-conns", F_SLICES, "                    inst.connect(portname, resolved)", "                    inst.conns[portname] = resolved", "C01.9")
B("C01", "update-ref-deps-break", F_RRT, "        connected_port.inst.replace(connected_port.portname, resolved)\n", "        connected_port.inst.replace(connected_port.portname, resolved)\n        break\n", "C01.10")
B("C01", "handle-portconn-skip-first", F_PORTREFS, "        for portref in group_port_refs:\n            resolve_portref(portref, source)", "        for portref in group_port_refs[1:]:\n            resolve_portref(portref, source)", "C01.10")
B("C01", "copy-port-keeps-vis", F_PORTREFS, "            sig.vis = Visibility.INTERNAL\n            sig.direction = PortDir.NONE\n            return sig", "            sig.direction = PortDir.NONE\n            return sig", "C01.11")
B("C01", "bundle-copy-removed", F_BUNDLE, "    def __copy__(self) -> \"BundleInstance\":", "    def _copy_disabled(self) -> \"BundleInstance\":", "C01.12")
B("C01", "bundle-copy-drops-flipped", F_BUNDLE, "            flipped=self.flipped,\n            role=self.role,", "            role=self.role,", "C01.12")
B("C01", "noconn-array-width", F_PORTREFS, "sig.width = port.width * portref.inst.n", "sig.width = port.width", "C01.13")
B("C01", "resolve-portref-no-primary", F_PORTREFS, "    pref.inst.connect(pref.portname, to)\n", "", "C01.14")
B("C01", "concat-parts-subst", F_RRT, "parts = [resolved if p is ref else p for p in parts]", "parts = [resolved for p in parts]", "C01.14")
T("C01", "rename-local-sliced", F_ARRAYS, "                            slize = conn[k * port.width : (k + 1) * port.width]\n                            if slize.width != port.width:\n                                msg = f\"Width mismatch connecting {slize} to {port}\"\n                                self.fail(msg)\n                            inst.connect(portname, slize)",
  "                            piece = conn[k * port.width : (k + 1) * port.width]\n                            if piece.width != port.width:\n                                msg = f\"Width mismatch connecting {piece} to {port}\"\n                                self.fail(msg)\n                            inst.connect(portname, piece)")
T("C01", "array-slice-respelled", F_ARRAYS, "conn[k * port.width : (k + 1) * port.width]", "conn[port.width * k : port.width * k + port.width]")
T("C01", "export-concat-slice-reversal", F_EXPORT, "for part in reversed(concat.parts):", "for part in concat.parts[::-1]:")
T("C01", "source-reordered", F_PORTREFS, "Source = Union[Signal, Slice, Concat, BundleInstance, BundleRef, AnonymousBundle]", "Source = Union[Concat, Slice, Signal, AnonymousBundle, BundleInstance, BundleRef]")
T("C01", "comment-and-blank-lines", F_RRT, "    # Reconnect all connected ports\n", "    # Reconnect all connected ports\n\n    # (each of them, through the owner API)\n")

# ------------------------------------------------------------------ C02
B("C02", "repeat-plain-classes", F_ELAB, "                ConnTypesRepeat,\n                OrphanageRepeat,", "                ConnTypes,\n                Orphanage,", "C02.1")
B("C02", "no-late-orphanage", F_ELAB, "                ConnTypesRepeat,\n                OrphanageRepeat,", "                ConnTypesRepeat,", "C02.2")
B("C02", "mark-before-checks", F_ELAB, "                SliceResolver,\n", "                SliceResolver,\n                MarkModules,\n", "C02.")
B("C02", "orphanage-drops-concat", F_ORPH, "        if isinstance(conn, Concat):\n            # Check each of the concatenated signals, also recursively across inner types\n            for part in conn.parts:\n                self.check_connectable(module, part)\n            return\n", "        if isinstance(conn, Concat):\n            return\n", "C02.3")
B("C02", "width-check-one-sided", F_CONNT, "if self.get_width(sig) != self.get_width(other):", "if self.get_width(sig) < self.get_width(other):", "C02.4")
B("C02", "extra-conn-ignored", F_CONNT, "            statuses[conn_name] = NoPort(conn_name)", "            pass", "C02.4")
B("C02", "bad-conns-not-failing", F_CONNT, "        if bad_conns:\n            msg = f\"Invalid connections", "        if False and bad_conns:\n            msg = f\"Invalid connections", "C02.4")
B("C02", "orphan-foreign-dropped", F_ORPH, "        if attr._parent_module is not module:", "        if False:", "C02.4")
B("C02", "converse-member-check-removed", F_FLATB, "        if extra:\n", "        if False:\n", "C02.4")
B("C02", "unnamed-module-accepted", F_MARK, "        if not module.name:", "        if module.name == 0:", "C02.4")
B("C02", "int-index-no-lower-bound", F_SLICE, "if index >= parent_width or index < -parent_width:", "if index >= parent_width:", "C02.5")
B("C02", "empty-slice-accepted", F_SLICE, "        if width < 1:\n            raise ValueError(f\"Empty slice {index} into {parent}\")\n", "", "C02.5")
B("C02", "elaborated-never-set", F_MARK, "        module._elaborated = module\n", "", "C02.6")
T("C02", "guard-respelled", F_SLICE, "if index >= parent_width or index < -parent_width:", "if index > parent_width - 1 or -parent_width > index:")
T("C02", "repeat-classes-renamed", F_ELAB, "class ConnTypesRepeat(ConnTypes):", "class ConnTypesRepeat(ConnTypes):  # second, post-flattening run")

# ------------------------------------------------------------------ C03
B("C03", "int-upper-off-by-one", F_SLICE, "if index >= parent_width or index < -parent_width:", "if index > parent_width or index < -parent_width:", "C03.1")
B("C03", "neg-index-not-normalised", F_SLICE, "        if index < 0:\n            index += parent_width\n", "", "C03.1")
B("C03", "width-floor-div", F_SLICE, "width = len(range(start, stop, step))", "width = (stop - start) // step", "C03.2", accept_error=True)
B("C03", "indices-wrong-length", F_SLICE, "start, stop, step = index.indices(parent_width)", "start, stop, step = index.indices(parent_width + 1)", "C03.2")
B("C03", "bot-top-negative-step", F_SLICE, "            bot, top = last, start + 1", "            bot, top = last, start", "C03.2")
B("C03", "slice-top-reads-bot", F_SLICE, "        return _get_inner(self).top", "        return _get_inner(self).bot + 1", "C03.3")
B("C03", "parent-width-attribute", F_SLICE, "parent_width = width_of(parent)", "parent_width = parent.width", "C03.7")
B("C03", "concat-width-max", F_WIDTH, "return sum([width(p) for p in conn.parts])", "return max([width(p) for p in conn.parts])", "C03.6")
B("C03", "portref-not-sliceable", F_WIDTH, "Sliceable = HasWidth = Union[Signal, Slice, Concat, BundleRef, PortRef]", "Sliceable = HasWidth = Union[Signal, Slice, Concat, BundleRef]", "C03.5")
B("C03", "list-slice-rest-stop", F_SLICES, "stop = slize.bot - 1 if slize.bot > 0 else None", "stop = slize.bot - 1", "C03.4")
T("C03", "width-helper-renamed", F_SLICE, "from .elab.helpers.width import width as width_of", "from .elab.helpers.width import width as width_of  # covers references too")

# ------------------------------------------------------------------ C04
B("C04", "replace-forgets-remove", F_INSTANCE, "        old._connected_ports.remove(connref)\n", "", "C04.1")
B("C04", "replace-forgets-add", F_INSTANCE, "        self.conns[portname] = conn\n        conn._connected_ports.add(connref)\n        return old", "        self.conns[portname] = conn\n        return old", "C04.1")
B("C04", "connect-overwrites", F_INSTANCE, "        if portname in self.conns:\n            # Replace and disconnect any prior connection. Disregards the returned old connection.\n            self.replace(portname, conn)\n        else:\n            self.conns[portname] = conn\n            conn._connected_ports.add(_get_connref(self, portname))", "        self.conns[portname] = conn\n        conn._connected_ports.add(_get_connref(self, portname))", "C04.1")
B("C04", "disconnect-forgets-remove", F_INSTANCE, "        conn._connected_ports.remove(_get_connref(self, portname))\n        return conn", "        return conn", "C04.1")
B("C04", "connref-new-object", F_INSTANCE, "    refs = self.__getattribute__(\"_refs\")\n    if key in refs.all:\n        refs.connrefs[key] = refs.all[key]\n        return refs.all[key]\n", "    refs = self.__getattribute__(\"_refs\")\n", "C04.3")
B("C04", "no-snapshot", F_RRT, "for connected_port in list(ref._connected_ports):", "for connected_port in ref._connected_ports:", "C04.4")
B("C04", "call-bypasses-connect", F_INSTANCE, "        for key, val in kwargs.items():\n            self.connect(key, val)\n        # Don't forget", "        for key, val in kwargs.items():\n            self.conns[key] = val\n        # Don't forget", "C04.2")
T("C04", "replace-reordered", F_INSTANCE, "        old = self.conns[portname]\n        old._connected_ports.remove(connref)\n        # And replace it in the `conns` dict\n        self.conns[portname] = conn\n        conn._connected_ports.add(connref)", "        old = self.conns[portname]\n        conn._connected_ports.add(connref)\n        old._connected_ports.remove(connref)\n        # And replace it in the `conns` dict\n        self.conns[portname] = conn")

# ------------------------------------------------------------------ C05
B("C05", "array-name-no-avoid", F_ARRAYS, "segments=[array.name, str(k)], avoid=module.namespace", "segments=[array.name, str(k)]", "C05.1")
B("C05", "noconn-raw-name", F_PORTREFS, "sig.name = self.flatname(segments=[noconn.name], avoid=module.namespace)", "sig.name = noconn.name", "C05.1")
B("C05", "bundle-flat-avoid-other", F_FLATB, "                avoid=module.namespace,\n            )\n            # And add it to the Module namespace", "                avoid=module.signals,\n            )\n            # And add it to the Module namespace", "C05.1")
B("C05", "flatname-returns-unchecked", F_BASE, "            if name not in avoid:  # Done!\n                break\n            name += \"_\"  # Collision; append underscore\n        return name", "            if name not in avoid:  # Done!\n                break\n            name += \"_\"  # Collision; append underscore\n        return name + \"_\"", "C05.2")
B("C05", "pass-writes-namespace", F_PORTREFS, "        module.add(sig)\n        return sig", "        module.namespace[sig.name] = sig\n        module.signals[sig.name] = sig\n        return sig", "C05.3")
T("C05", "name-via-local", F_ARRAYS, "                name = self.flatname(\n                    segments=[array.name, str(k)], avoid=module.namespace\n                )\n                inst = module.add(Instance(of=target, name=name))", "                flat = self.flatname(\n                    segments=[array.name, str(k)], avoid=module.namespace\n                )\n                inst = module.add(Instance(of=target, name=flat))")

# ------------------------------------------------------------------ C06
B("C06", "append-before-children", F_EXPORT, "        # Create each Proto-Instance\n        for inst in module.instances.values():", "        self.pkg.modules.append(pmod)\n        # Create each Proto-Instance\n        for inst in module.instances.values():", "C06.1", accept_error=True)
B("C06", "no-memo", F_EXPORT, "        if id(module) in self.modules_by_id:  # Already done\n            return self.modules_by_id[id(module)].pmod\n", "", "C06.2")
B("C06", "ports-not-in-signals", F_EXPORT, "for sig in list(module.signals.values()) + list(module.ports.values()):", "for sig in list(module.signals.values()):", "C06.3")
B("C06", "module-level-exporter", F_EXPORT, "def to_proto(\n", "_SHARED = dict()\n\n\ndef to_proto(\n", "C06.6")
B("C13", "ccvs-vccs-swapped", F_EXPORT, "\"CurrentControlledVoltageSource\": \"ccvs\",\n                        \"VoltageControlledCurrentSource\": \"vccs\",", "\"CurrentControlledVoltageSource\": \"vccs\",\n                        \"VoltageControlledCurrentSource\": \"ccvs\",", "C13.5")

# ------------------------------------------------------------------ C07
B("C07", "snapshot-after-flatten", F_FLATB, "        # Cache the state of the Module's IOs before flattening\n        module._pre_flattening_io = copy.copy(io(module))\n\n        # Remove and replace each `BundleInstance` from the Module\n        while module.bundles:\n            name, bundle_inst = module.bundles.popitem()\n            module.namespace.pop(name)\n            self.replace_bundle_inst(module, bundle_inst)\n",
  "        # Remove and replace each `BundleInstance` from the Module\n        while module.bundles:\n            name, bundle_inst = module.bundles.popitem()\n            module.namespace.pop(name)\n            self.replace_bundle_inst(module, bundle_inst)\n        module._pre_flattening_io = copy.copy(io(module))\n", "C07.1")
B("C07", "io-choice-swapped", F_CONNT, "    if parent_flattened != child_flattened:\n", "    if parent_flattened == child_flattened:\n", "C07.2")
B("C07", "freeze-guard-late", F_MODULE, "    if module._elaborated is not None:\n        raise RuntimeError(f\"Cannot add {val} to {module} after elaboration.\")\n", "", "C07.3")
B("C07", "anon-cache-unpinned", F_FLATB, "        scope = BundleScope(src=anon)\n", "        scope = BundleScope(src=AnonymousBundle())\n", "C07.4")
B("C07", "cache-cleared-elsewhere", F_ELAB, "    global the_global_elaborator\n    the_global_elaborator = Elaborator.default()", "    global the_global_elaborator\n    for p in Elaborator.default().passes:\n        p.CLASS_LEVEL_CACHE.done.clear()\n    the_global_elaborator = Elaborator.default()", "C07.5")

# ------------------------------------------------------------------ C08
B("C08", "obvious-repair-only-clears-pending", F_BASE, "            self.CLASS_LEVEL_CACHE.pending.discard(module)\n            self.CLASS_LEVEL_CACHE.failed[module] = e\n            raise", "            self.CLASS_LEVEL_CACHE.pending.discard(module)\n            raise", "C08.3")
B("C08", "no-pending-release", F_BASE, "            self.CLASS_LEVEL_CACHE.pending.discard(module)\n            self.CLASS_LEVEL_CACHE.failed[module] = e\n            raise", "            self.CLASS_LEVEL_CACHE.failed[module] = e\n            raise", "C08.1")
B("C08", "generator-body-only-try", F_GENERATOR, "    try:\n        # Check that the call has a valid instance of the generator's parameter-class\n        if not isinstance(call.params, call.gen.Params):\n            msg = f\"Invalid Generator Call {call}: {call.gen.Params} instance required, got {call.params}\"\n            raise RuntimeError(msg)\n",
  "    if not isinstance(call.params, call.gen.Params):\n        msg = f\"Invalid Generator Call {call}: {call.gen.Params} instance required, got {call.params}\"\n        raise RuntimeError(msg)\n    try:\n", "C08.1")
B("C08", "done-in-finally", F_BASE, "        except Exception as e:\n            # The visit failed.", "        finally:\n            self.CLASS_LEVEL_CACHE.done.add(module)\n        try:\n            pass\n        except Exception as e:\n            # The visit failed.", "C08.2", accept_error=True)
T("C08", "try-finally-style", F_GENERATOR, "    except Exception:\n        # The call failed, and is no longer in flight. A later, identical call runs the generator again.\n        the_cache.stack.pop()\n        if call.gen.enable_cache:\n            # Only cached calls are tracked (and hashed): an un-cached call may have un-hashable parameters.\n            the_cache.pending.discard(call)\n        raise\n", "    except BaseException:\n        if call.gen.enable_cache:\n            the_cache.pending.discard(call)\n        the_cache.stack.pop()\n        raise\n")

# ------------------------------------------------------------------ C09
B("C09", "names-verbatim-strings", F_PARAMS, "    if isinstance(val, str):\n        return repr(val)\n    return str(val)", "    return str(val)", "C09.2")
B("C09", "rename-foreign", F_GENERATOR, "        if not handed_on:\n", "        if True:\n", "C09.4")
B("C09", "hash-builtin", F_PARAMS, "    return h.hexdigest()", "    return str(hash(jsonstr))", "C09.3")
B("C09", "store-before-body", F_GENERATOR, "    # The main event: Run the generator-function\n", "    the_cache.done[call] = None\n    # The main event: Run the generator-function\n", "C09.8", accept_error=True)
B("C09", "eq-ignores-generator", F_GENERATOR, "return self.gen is other.gen and self.params == other.params", "return self.params == other.params", "C09.1")

# ------------------------------------------------------------------ C10
B("C10", "flipped-identity", F_SIGNAL, "        if self == PortDir.INPUT:\n            return PortDir.OUTPUT", "        if self == PortDir.INPUT:\n            return PortDir.INPUT", "C10.1")
B("C10", "role-src-input", F_FLATB, "                elif bundle_inst.role == newsig.src:\n                    dir_ = PortDir.OUTPUT", "                elif bundle_inst.role == newsig.src:\n                    dir_ = PortDir.INPUT", "C10.2")
B("C10", "flip-ignored", F_FLATB, "                    if flip_state:  # Flip direction\n                        dir_ = newsig.direction.flipped()", "                    if flip_state:  # Flip direction\n                        dir_ = newsig.direction", "C10.2")
B("C10", "parity-or", F_FLATB, "                flip_state if not sub_bundle_inst.flipped else not flip_state", "                flip_state or sub_bundle_inst.flipped", "C10.3")
B("C10", "prepend-appends", F_FLATB, "        return Path(segs=prefix.segs + self.segs)", "        return Path(segs=self.segs + prefix.segs)", "C10.4")
B("C10", "internal-gets-port", F_FLATB, "            else:\n                vis_ = Visibility.INTERNAL\n                dir_ = PortDir.NONE", "            else:\n                vis_ = Visibility.PORT\n                dir_ = PortDir.NONE", "C10.2")
T("C10", "parity-xor-spelling", F_FLATB, "                flip_state if not sub_bundle_inst.flipped else not flip_state", "                flip_state != sub_bundle_inst.flipped")

# ------------------------------------------------------------------ C11
B("C11", "importer-drops-spicetype", F_IMPORT, "            spicetype=SpiceType.from_schema(pmod.spicetype),\n", "", "C11.2")
B("C11", "prefix-milli-micro", F_IMPORT, "vlsir.SIPrefix.MILLI: Prefix.MILLI,", "vlsir.SIPrefix.MILLI: Prefix.MICRO,", "C11.1")
B("C11", "port-dir-swapped", F_IMPORT, "    if pport.direction == vckt.Port.Direction.INPUT:\n        return PortDir.INPUT", "    if pport.direction == vckt.Port.Direction.INPUT:\n        return PortDir.OUTPUT", "C11.1")
B("C11", "pulse-rise-fall", F_IMPORT, "            rise=params.get(\"tr\", None),\n            fall=params.get(\"tf\", None),", "            rise=params.get(\"tf\", None),\n            fall=params.get(\"tr\", None),", "C11.1")
B("C11", "literals-dropped", F_IMPORT, "        for plit in pmod.literals:\n            module.literals.append(Literal(text=plit))\n", "", "C11.2")
B("C11", "prefixed-string-arm-missing", F_IMPORT, "    elif ptype == \"string_value\":\n        number = vpref.string_value\n", "", "C11.3")

# ------------------------------------------------------------------ C12
B("C12", "unsorted-bundle-loop", F_FLATB, "        for portref in sorted_portrefs(bundle_inst._connected_ports):", "        for portref in list(bundle_inst._connected_ports):", "C12.1")
B("C12", "sort-by-id", F_FLATB, "return sorted(portrefs, key=lambda p: (p.inst.name or \"\", p.portname))", "return sorted(portrefs, key=lambda p: id(p))", "C12.2")
B("C12", "name-from-id", F_PORTREFS, "            segments=[f\"{portref.inst.name}_{portref.portname}\"],\n            avoid=module.namespace,\n        )\n        sig.name = signame", "            segments=[f\"{portref.inst.name}_{portref.portname}\", str(id(portref))],\n            avoid=module.namespace,\n        )\n        sig.name = signame", "C12.3")
B("C12", "sort-key-not-total", F_FLATB, "return sorted(portrefs, key=lambda p: (p.inst.name or \"\", p.portname))", "return sorted(portrefs, key=lambda p: p.inst.name or \"\")", "C12.2")
T("C12", "sort-key-port-first", F_FLATB, "return sorted(portrefs, key=lambda p: (p.inst.name or \"\", p.portname))", "return sorted(portrefs, key=lambda ref: (ref.portname, ref.inst.name or \"\"))")
B("C12", "parallel-ports-from-set", F_GENERATORS, "    par_ports = [port for port in io(m).values() if port not in series_conns]", "    par_ports = set(io(m).values()) - set(series_conns)", "C12.4")
T("C12", "parallel-ports-sorted-set", F_GENERATORS, "    par_ports = [port for port in io(m).values() if port not in series_conns]", "    par_ports = sorted(set(io(m).values()) - set(series_conns), key=lambda q: q.name)")
B("C08", "circular-check-on-stack", F_GENERATOR, "        if call in the_cache.pending:\n", "        if call in the_cache.stack[:-1]:\n", "C08.1", accept_error=True)
T("C12", "sorted-inline", F_FLATB, "            for connected_port in sorted_portrefs(bref._connected_ports):", "            for connected_port in sorted(bref._connected_ports, key=lambda p: (p.inst.name or \"\", p.portname)):")

# ------------------------------------------------------------------ C13
B("C13", "decimal-via-float", F_EXPORT, "        return vlsir.ParamValue(literal=str(val))\n    if isinstance(val, int):", "        return vlsir.ParamValue(double_value=float(val))\n    if isinstance(val, int):", "C13.1")
B("C13", "prefixed-number-float", F_EXPORT, "    return vlsir.Prefixed(string_value=str(pref.number), prefix=prefix)", "    return vlsir.Prefixed(string_value=str(float(pref.number)), prefix=prefix)", "C13.")
B("C13", "none-exported", F_EXPORT, "                if val is None:\n                    continue  # None-valued parameters go un-set\n", "", "C13.2")
B("C13", "to-scalar-literal-first", F_SCALAR, "            return Literal(text=v)", "            return Literal(text=v.strip())", "C13.6")
B("C13", "enum-arm-name", F_EXPORT, "        return vlsir.ParamValue(literal=val.value)", "        return vlsir.ParamValue(literal=val.name)", "C13.1")

# ------------------------------------------------------------------ C14
B("C14", "hash-raw", F_PREFIX, "        return hash(_exact(self))", "        return hash((self.number, self.prefix))", "C14.1")
B("C14", "int-product", F_PREFIX, "        return int(_exact(self))", "        return int(self.number) * 10**self.prefix.value", "C14.2")
B("C14", "lt-le-swapped", F_PREFIX, "        return _compare(self, other) < 0", "        return _compare(self, other) <= 0", "C14.3")
B("C14", "compare-rounds", F_PREFIX, "    diff = (_exact(me) - _exact(other)).scaleb(-smaller)", "    diff = round((_exact(me) - _exact(other)).scaleb(-smaller), EPSILON)", "C14.3")
B("C14", "subtract-swapped", F_PREFIX, "    newnum = lhs.scale(smaller).number - rhs.scale(smaller).number", "    newnum = rhs.scale(smaller).number - lhs.scale(smaller).number", "C14.6")
B("C14", "scale-inverse", F_PREFIX, "newnum = self.number * Decimal(10) ** (self.prefix.value - prefix.value)", "newnum = self.number * Decimal(10) ** (prefix.value - self.prefix.value)", "C14.6")

# ------------------------------------------------------------------ C15
B("C15", "walker-renames", F_WALKER, "        inst.of = self.visit_instantiable(inst.of)\n", "        inst.of = self.visit_instantiable(inst.of)\n        inst.name = inst.name\n", "C15.1")
B("C15", "new-incompatible-entry", "pdks/Sky130/sky130_hdl21/primitives/prim_dicts.py", "\"PNP_5p0V_0p68x0p68\": bjt_module(\"sky130_fd_pr__pnp_05v5_W0p68L0p68\"),", "\"PNP_5p0V_0p68x0p68\": bjt_module(\"sky130_fd_pr__pnp_05v5_W0p68L0p68\", numterminals=4),", "C15.2")
B("C15", "gf180-vth-selector", "pdks/Gf180/gf180_hdl21/pdk_logic.py", "        args = (mostype, mosfam)\n", "        mosvth = h.MosVth.STD if params.vth is None else params.vth\n        args = (mostype, mosfam, mosvth)\n", "C15.3")
B("C15", "bare-next", "pdks/Sky130/sky130_hdl21/pdk_logic.py", "        if not subset:\n            msg = f\"No Mos module for parameters {args}\"\n            raise RuntimeError(msg)\n", "", "C15.3")
B("C15", "default-missing", "pdks/Sky130/sky130_hdl21/primitives/prim_dicts.py", "    \"sky130_fd_pr__pfet_20v0\": (30.000 * µ, 1.000 * µ),\n", "", "C15.3")
B("C15", "gf180-bjt-diode-cache", "pdks/Gf180/gf180_hdl21/pdk_logic.py", "        if params in CACHE.bjt_modcalls:\n            return CACHE.bjt_modcalls[params]", "        if params in CACHE.diode_modcalls:\n            return CACHE.diode_modcalls[params]", "C15.4")
B("C15", "mgr-register", F_PDK, "        register(pdk)\n", "        _mgr.register(pdk)\n", "C15.5")
B("C15", "duplicate-cell", "pdks/Gf180/gf180_hdl21/digital_cells/seven_track.py", "from ..pdk_data import logic_module\n", "from ..pdk_data import logic_module\n\ndup_1 = logic_module(\"gf180mcu_fd_sc_mcu7t5v0__dup_1\", \"7 track\", [\"A\", \"A\", \"VDD\"])\n", "C15.6")
B("C15", "asap7-enum-name", "pdks/Asap7/asap7_hdl21/pdk.py", "modname = f\"{tpname}mos{vtname}\"", "modname = f\"{tp}mos{vtname}\"", "C15.7")

# ------------------------------------------------------------------ C16
B("C16", "leaf-only-primitive", F_FLATTEN, "        if isinstance(inst.of, (h.PrimitiveCall, h.ExternalModuleCall)):\n            yield", "        if isinstance(inst.of, h.PrimitiveCall):\n            yield", "C16.1")
B("C16", "no-separator-guard", F_FLATTEN, "            if \":\" in key:\n                msg = f\"Cannot flatten Signal `{key}`, whose name includes the path-separator `:`\"\n                raise ValueError(msg)\n", "", "C16.3")
B("C16", "own-signals-first", F_FLATTEN, "            if key in conns:\n                target_sig = conns[key]\n            elif key in m.signals:", "            if key in m.signals and key not in conns:\n                target_sig = conns[key]\n            elif key in m.signals:", "C16.5")
B("C16", "slice-accepted", F_FLATTEN, "            elif isinstance(sig, (h.Slice, h.Concat)):\n                msg = f\"Flattening `Slice` and `Concat` is not (yet) supported\"\n                raise NotImplementedError(msg)\n", "            elif isinstance(sig, (h.Slice, h.Concat)):\n                key = sig.parent.name\n", "C16.2")

# ------------------------------------------------------------------ C17
B("C17", "save-generic-isinstance", F_SIMPROTO, "    elif isinstance(save.targ, list) and all(isinstance(s, Signal) for s in save.targ):", "    elif isinstance(save.targ, List[Signal]):", "C17.")
B("C17", "noise-bundle-attr", F_SIMPROTO, "            if output.of is not Diff:", "            if output.bundle is not Diff:", "C17.3")
B("C17", "ac-start-stop-swapped", F_SIMPROTO, "            fstart=export_float(ac.sweep.start),\n            fstop=export_float(ac.sweep.stop),", "            fstart=export_float(ac.sweep.stop),\n            fstop=export_float(ac.sweep.start),", "C17.7")
B("C17", "monte-inner-dropped", F_SIMPROTO, "            an=[self.export_analysis(a) for a in monte.inner],", "            an=[],", "C17.")
B("C17", "counter-not-incremented", F_SIMPROTO, "        self.analysis_count += 1\n", "", "C17.4")
B("C17", "tran-into-ac", F_SIMPROTO, "            return vsp.Analysis(tran=self.export_tran(an))", "            return vsp.Analysis(ac=self.export_tran(an))", "C17.1")
B("C17", "tb-check-removed", F_SIMPROTO, "        if not data.is_tb(self.sim.tb):\n            raise RuntimeError(f\"Invalid Testbench {self.sim.tb} for Simulation\")\n", "", "C17.6")

# ------------------------------------------------------------------ C18
B("C18", "no-eviction-module", F_MODULE, "            module.instbundles,\n            module.bundles,\n        ):\n            if ctr.get(val.name, None) is old:", "            module.instbundles,\n        ):\n            if ctr.get(val.name, None) is old:", "C18.1")
B("C18", "moved-object-keeps-old-view", F_MODULE, "            module.instbundles,\n            module.bundles,\n        ):\n            if ctr.get(key, None) is val:", "            module.instbundles,\n        ):\n            if ctr.get(key, None) is val:", "C18.1")
B("C18", "moved-object-keeps-old-key", F_MODULE, "        module.namespace.pop(key)\n", "", "C18.1")
B("C16", "no-port-name-guard", F_FLATTEN, "        if \":\" in port.name:", "        if False:", "C16.3")
B("C06", "name-recorded-late", F_EXPORT, "        mapping = ModuleMapping(module, pmod)\n        self.modules_by_name[pmod.name] = mapping\n", "        mapping = ModuleMapping(module, pmod)\n", "C06", accept_error=True)
B("C12", "portref-tie-by-instance-only", F_PORTREFS, "ordered = sorted(group, key=lambda p: (p.inst.name, p.portname))", "ordered = sorted(group, key=lambda p: p.inst.name)", "C12.2")
B("C12", "sets-named-in-hash-order", F_PARAMS, "        return sorted(json.dumps(e, default=hdl21_naming_encoder) for e in obj)", "        return [json.dumps(e, default=hdl21_naming_encoder) for e in obj]", "C12.3")
B("C19", "series-signal-ports-only", F_GENERATORS, "    for p in bundled_io(params.unit).values():", "    for p in params.unit.ports.values():", "C19.1")
B("C19", "bundle-deepcopy-removed", F_BUNDLE, "    def __deepcopy__(self, _memo) -> \"BundleInstance\":", "    def _deepcopy_disabled(self, _memo) -> \"BundleInstance\":", "C19.4")
B("C18", "unban-bundle-ports", F_MODULE, "    \"get\",\n    \"bundle_ports\",\n]", "    \"get\",\n]", "C18.2")
B("C18", "bundle-delattr-removed", F_BUNDLE, "    def __delattr__(self, __name: str) -> None:\n        \"\"\"Disable attribute deletion, as for `Module`s.\"\"\"", "    def _delattr_disabled(self, __name: str) -> None:\n        \"\"\"Disable attribute deletion, as for `Module`s.\"\"\"", "C18.3")
B("C18", "port-view-inverted", F_MODULE, "        if val.vis == Visibility.PORT:\n            type_ctr = module.ports\n        else:\n            type_ctr = module.signals", "        if val.vis == Visibility.PORT:\n            type_ctr = module.signals\n        else:\n            type_ctr = module.ports", "C18.5")
B("C18", "bundle-never-frozen", F_BASE, "            bundle_def._elaborated = True\n", "", "C18.7")
B("C18", "parent-link-conditional", F_MODULE, "    val._parent_module = module\n\n    # And return our newly-added attribute", "    if isinstance(val, Signal):\n        val._parent_module = module\n\n    # And return our newly-added attribute", "C18.4")

B("C08", "handler-hashes-uncached-call", F_GENERATOR, "        if call.gen.enable_cache:\n            # Only cached calls are tracked (and hashed): an un-cached call may have un-hashable parameters.\n            the_cache.pending.discard(call)\n        raise", "        the_cache.pending.discard(call)\n        raise", "C08.1")

B("C08", "generated-by-set-before-naming", F_GENERATOR, "        handed_on = m._generated_by is not None\n", "        handed_on = m._generated_by is not None\n        m._generated_by = call\n", "C08.2")
B("C11", "vpulse-params-required", F_IMPORT, "            v1=params.get(\"v1\", None),", "            v1=params[\"v1\"],", "C11.2")
B("C11", "unlisted-gets-default", F_IMPORT, "                params = target.Params(**unset_params(target, literal_params(target, params)))", "                params = target.Params(**literal_params(target, params))", "C11.2")
B("C11", "literal-imported-as-string", F_IMPORT, "                params = target.Params(**unset_params(target, literal_params(target, params)))", "                params = target.Params(**unset_params(target, params))", "C11.2")

B("C10", "roles-stay-unnamed", F_BUNDLE, "            if val.name is None:\n                val.name = key\n            roles_dict[key] = val", "            roles_dict[key] = val", "C10.2")

B("C03", "concat-tail-never-empty", F_SLICES, "        first = _resolve_concat(conc.parts[0])\n        rest = _resolve_rest(conc.parts[1:])\n        return Concat(*(first.parts + rest))", "        first = _resolve_concat(conc.parts[0])\n        rest = _resolve_concat(Concat(*conc.parts[1:]))\n        return Concat(*(first.parts + rest.parts))", "C03.9")
B("C03", "leading-slice-not-listed", F_SLICES, "        first = _list_slice(conc.parts[0])\n        # Pass everything else recursively back to this method\n        rest = _resolve_rest(conc.parts[1:])\n        # And concatenate the two\n        return Concat(*(tuple(first) + rest))", "        first = _resolve_slice(conc.parts[0])\n        # Pass everything else recursively back to this method\n        rest = _resolve_rest(conc.parts[1:])\n        # And concatenate the two\n        return Concat(*(first + rest))", "C03.9")

B("C18", "setattr-names-before-refusal", F_MODULE, "        if self._elaborated is not None:\n            raise RuntimeError(f\"Cannot add {val} to {self} after elaboration.\")\n\n        # Checks out! Name `val`", "        # Checks out! Name `val`", "C18.4")

B("C09", "definition-site-in-pydantic", "hdl21/source_info.py", "        if frame.f_code.co_filename not in files_to_skip and not _in_pydantic(frame):", "        if frame.f_code.co_filename not in files_to_skip:", "C09.5")

B("C04", "follow-stale-instances", F_PORTREFS, "                if connected_port.inst._parent_module is module:\n                    follow(connected_port, group)", "                follow(connected_port, group)", "C04.6")

B("C10", "anon-member-reference-looked-up-once", F_FLATB, "            while isinstance(attr, (BundleRef, PortRef)):", "            if isinstance(attr, (BundleRef, PortRef)):", "C10.5")
B("C09", "prefixed-left-to-default-encoder", "hdl21/params.py", "    if isinstance(obj, Prefixed):\n", "    if False and isinstance(obj, Prefixed):\n", "C09.7")
B("C09", "decimal-through-float", "hdl21/params.py", "        return \"Decimal:\" + str(obj.normalize())", "        return \"Decimal:\" + str(float(obj))", "C09.7")
B("C15", "literal-size-last-term-scaled", "pdks/Sky130/sky130_hdl21/pdk_logic.py", "return h.Literal(f\"(({orig.text}) * 1e6)\")", "return h.Literal(f\"({orig.text} * 1e6)\")", "C15.3")
B("C04", "displaced-instance-reconnected", F_FLATB, "        if inst._parent_module is None:\n", "        if False and inst._parent_module is None:\n", "C04.6")
B("C01", "handed-on-slice-not-entered", F_RRT, "            if hasattr(resolved, \"_slices\"):\n                resolved._slices.add(slice_)\n", "", "C01.14")

# ------------------------------------------------------------------ C19
B("C19", "series-net-too-wide", F_GENERATORS, "i = m.add(h.Signal(name=\"i\", width=params.nser - 1))", "i = m.add(h.Signal(name=\"i\", width=params.nser))", "C19.1")
B("C19", "series-both-first", F_GENERATORS, "unit_conns[series_conns[1].name] = h.Concat(i, series_conns[1])", "unit_conns[series_conns[1].name] = h.Concat(series_conns[1], i)", "C19.1")
B("C19", "mosstack-gate", F_GENERATORS, "conns=(\"d\", \"s\"))", "conns=(\"d\", \"g\"))", "C19.3")
B("C19", "wrapper-ports-only", F_GENERATORS, "for p in bundled_io(m).values()}", "for p in m.ports.values()}", "C19.4")
B("C19", "wrapper-clones-live-ports", F_GENERATORS, "    from .instantiable import bundled_io\n\n    # Initialize our wrapper-module", "    from .instantiable import io as bundled_io\n\n    # Initialize our wrapper-module", "C19.4")
B("C07", "series-clones-live-ports", F_GENERATORS, "    for p in bundled_io(params.unit).values():", "    for p in io(params.unit).values():", "C07.9")
B("C19", "nser-one-builds-array", F_GENERATORS, "    if params.nser == 1:\n        return Wrapper(params.unit)  # Easy mode\n", "", "C19.2")

# ------------------------------------------------------------------ pure renames of locals (alpha-normalised away)
def TR(prop, name, file, pattern, repl, min_count=2):
    VARIANTS.append(dict(prop=prop, kind="benign", name=name, file=file, old=pattern, new=repl, regex=True, min_count=min_count))


TR("C19", "series-locals-renamed", F_GENERATORS, r"\bseries_conns\b", "sconns", 6)
TR("C19", "series-net-renamed", F_GENERATORS, r"\bunit_conns\b", "uconns", 4)
TR("C01", "arrays-locals-renamed", F_ARRAYS, r"\bnew_insts\b", "flat_insts", 4)
TR("C01", "portrefs-locals-renamed", F_PORTREFS, r"\bgroup_port_refs\b", "prefs", 3)
TR("C03", "slice-locals-renamed", F_SLICE, r"\bparent_width\b", "pw", 4)
TR("C05", "flatten-bundles-locals-renamed", F_FLATB, r"\bflat_bundle_port\b", "fbp", 4)
TR("C08", "base-locals-renamed", F_BASE, r"\bresult\b", "res", 2)
TR("C10", "helper-locals-renamed", F_FLATB, r"\bnewsig\b", "leaf", 6)
TR("C13", "export-instance-locals-renamed", F_EXPORT, r"\bpinst\b", "proto_inst", 6)
TR("C14", "compare-locals-renamed", F_PREFIX, r"\bdiff\b", "delta", 3)
TR("C18", "module-add-locals-renamed", F_MODULE, r"\btype_ctr\b", "kind_ctr", 4)
TR("C09", "run-locals-renamed", F_GENERATOR, r"\bhanded_on\b", "inherited", 2)
TR("C12", "unique-name-locals-renamed", F_PARAMS, r"\bjsonstr\b", "text", 2)
TR("C04", "instance-locals-renamed", F_INSTANCE, r"\bconnref\b", "cref", 3)
TR("C07", "conntypes-locals-renamed", F_CONNT, r"\bchild_flattened\b", "child_flat", 3)
TR("C11", "importer-locals-renamed", F_IMPORT, r"\bremapped_params\b", "remapped", 2)
TR("C15", "sky130-locals-renamed", "pdks/Sky130/sky130_hdl21/pdk_logic.py", r"\bsubset\b", "cands", 4)
TR("C16", "flatten-locals-renamed", F_FLATTEN, r"\bnew_conns\b", "child_map", 3)
TR("C17", "simproto-locals-renamed", F_SIMPROTO, r"\banalysis_name\b(?!=)", "aname", 8)
TR("C02", "orphanage-locals-renamed", F_ORPH, r"\binstlike\b", "insts", 2)
TR("C06", "exporter-locals-renamed", F_EXPORT, r"\bpsig\b", "proto_sig", 4)
TR("C06", "export-module-locals-renamed", F_EXPORT, r"\bmapping\b", "entry", 3)
T("C16", "walk-locals-renamed", F_FLATTEN, "            new_sig_name = \":\".join([p.name for p in parents] + [key])", "            new_sig_name = \":\".join([q.name for q in parents] + [key])")
T("C02", "check-instance-locals-renamed", F_CONNT, "        bad_conns = {\n            name: s for name, s in statuses.items() if not isinstance(s, Valid)\n        }\n        if bad_conns:\n            msg = f\"Invalid connections `{bad_conns}` on",
  "        invalid = {\n            name: s for name, s in statuses.items() if not isinstance(s, Valid)\n        }\n        if invalid:\n            msg = f\"Invalid connections `{invalid}` on")
T("C17", "export-save-locals-renamed", F_SIMPROTO, "    if isinstance(save.targ, Signal):\n        signal = save.targ.name", "    if isinstance(save.targ, Signal):\n        signal = save.targ.name  # one signal")
