"""Loader, symbol tables and name/call resolution for the analysed tree."""

from __future__ import annotations

import ast
import glob
import os
from dataclasses import dataclass, field
from pathlib import Path
from typing import Dict, Iterable, Iterator, List, Optional, Tuple, Union

REPO = Path(os.environ.get("HSA_REPO", "/repo"))


class AnalysisError(Exception):
    """The analysis could not decide (vanished anchor, unparsable file, ...).
    Mapped to `ANALYSIS-ERROR` / exit 2, never to a VIOLATION."""


# --------------------------------------------------------------------------
# Source model
# --------------------------------------------------------------------------


@dataclass
class ImportEntry:
    module: str  # absolute dotted module ('hdl21.signal'), or third-party
    name: Optional[str]  # imported symbol (None for `import x` / `from . import x`)
    star: bool = False


@dataclass
class SourceFile:
    rel: str  # path relative to repo root (or absolute for reader files)
    path: Path
    text: str
    tree: ast.Module
    modname: str  # dotted
    is_pkg: bool
    imports: Dict[str, ImportEntry] = field(default_factory=dict)
    stars: List[str] = field(default_factory=list)
    defs: Dict[str, ast.AST] = field(default_factory=dict)  # top-level bindings

    def line(self, node: ast.AST) -> int:
        return getattr(node, "lineno", 0)


@dataclass
class ClassInfo:
    file: SourceFile
    name: str
    node: ast.ClassDef
    bases: List[str]
    decorators: List[str]
    methods: Dict[str, "FuncInfo"] = field(default_factory=dict)
    class_attrs: Dict[str, ast.AST] = field(default_factory=dict)

    @property
    def site(self) -> str:
        return f"{self.file.rel}:{self.node.lineno} class {self.name}"


@dataclass
class FuncInfo:
    file: SourceFile
    qual: str
    node: Union[ast.FunctionDef, ast.AsyncFunctionDef]
    cls: Optional[ClassInfo] = None

    @property
    def name(self) -> str:
        return self.node.name

    @property
    def site(self) -> str:
        return f"{self.file.rel}:{self.node.lineno} {self.qual}"

    def at(self, node: ast.AST) -> str:
        return f"{self.file.rel}:{getattr(node, 'lineno', self.node.lineno)} {self.qual}"

    def __hash__(self):
        return hash((self.file.rel, self.qual))

    def __eq__(self, other):
        return (
            isinstance(other, FuncInfo)
            and self.file.rel == other.file.rel
            and self.qual == other.qual
        )


def dotted(node: ast.AST) -> Optional[str]:
    """`a.b.c` for Name/Attribute chains, else None."""
    parts = []
    while isinstance(node, ast.Attribute):
        parts.append(node.attr)
        node = node.value
    if isinstance(node, ast.Name):
        parts.append(node.id)
        return ".".join(reversed(parts))
    return None


def deco_name(d: ast.AST) -> str:
    if isinstance(d, ast.Call):
        d = d.func
    return dotted(d) or ast.unparse(d)


class Repo:
    """All parsed files plus lookup helpers."""

    def __init__(self, root: Path = REPO):
        self.root = Path(root)
        self.files: Dict[str, SourceFile] = {}
        self.by_mod: Dict[str, SourceFile] = {}
        self._classes: Dict[Tuple[str, str], ClassInfo] = {}
        self._funcs: Dict[Tuple[str, str], FuncInfo] = {}
        self.nfuncs = 0
        self.nclasses = 0

    # ---------------- loading

    def load_tree(self, sub: str, pkg_root: str, exclude=("tests", "scripts")) -> int:
        """Parse every .py under root/sub.  `pkg_root` is the directory (relative
        to root) that contains the top-level package, used to derive dotted names."""
        base = self.root / sub
        if not base.exists():
            raise AnalysisError(f"anchor-vanished: source directory {sub} is missing")
        n = 0
        for p in sorted(base.rglob("*.py")):
            relp = p.relative_to(self.root)
            parts = relp.parts
            if any(x in exclude for x in parts[:-1]):
                continue
            if parts[-1].startswith("test_") or parts[-1] == "conftest.py":
                continue
            self._load(p, str(relp), pkg_root)
            n += 1
        return n

    def load_external(self, path: Path, modname: str) -> SourceFile:
        return self._load(path, str(path), None, modname=modname)

    def _unique_defs(self) -> Set[str]:
        """Names that `def` introduces exactly once in the analysed trees (hdl21/ and the PDK packages): a call
        `x.<name>(..)` of such a name can only mean that one definition, whatever x is (canon uses this to see
        through helpers that were made methods of another class of the file)."""
        if getattr(self, "_udefs", None) is None:
            import re as _re

            cnt: Dict[str, int] = {}
            for sub in ("hdl21", "pdks"):
                base = self.root / sub
                if not base.exists():
                    continue
                for p in base.rglob("*.py"):
                    try:
                        txt = p.read_text(encoding="utf-8")
                    except OSError:
                        continue
                    for m in _re.finditer(r"^\s*(?:async\s+)?def\s+(\w+)", txt, _re.M):
                        cnt[m.group(1)] = cnt.get(m.group(1), 0) + 1
            self._udefs = {k for k, v in cnt.items() if v == 1}
        return self._udefs

    def _load(self, path: Path, rel: str, pkg_root: Optional[str], modname=None) -> SourceFile:
        try:
            text = path.read_text(encoding="utf-8")
            tree = ast.parse(text, filename=str(path))
        except (OSError, SyntaxError, UnicodeDecodeError) as e:
            raise AnalysisError(f"cannot parse {rel}: {e}")
        if pkg_root is not None:
            # behaviour-preserving spellings are brought into one canonical form (see canon.py), and
            # pure renames of locals are undone (see alpha.py), before any rule looks at the code
            from . import alpha, canon

            ref = alpha.reference().get(rel)
            st = canon.canonicalise(tree, set(k for k in ref if not k.startswith("__")) if ref else None, set(ref.get("__consts__", [])) if ref else None, unique_defs=self._unique_defs())
            self.canon_stats = getattr(self, "canon_stats", {})
            for k, v in st.items():
                self.canon_stats[k] = self.canon_stats.get(k, 0) + v
            self.renamed = getattr(self, "renamed", 0) + alpha.normalise(rel, tree)
            canon.sort_identity_tests(tree)
        is_pkg = path.name == "__init__.py"
        if modname is None:
            relmod = Path(rel).relative_to(pkg_root) if pkg_root else Path(rel)
            parts = list(relmod.with_suffix("").parts)
            if is_pkg:
                parts = parts[:-1]
            modname = ".".join(parts)
        sf = SourceFile(rel, path, text, tree, modname, is_pkg)
        self._index(sf)
        self.files[rel] = sf
        self.by_mod[modname] = sf
        return sf

    def _abs_module(self, sf: SourceFile, level: int, module: Optional[str]) -> str:
        if level == 0:
            return module or ""
        pkg = sf.modname.split(".")
        if not sf.is_pkg:
            pkg = pkg[:-1]
        if level > 1:
            pkg = pkg[: len(pkg) - (level - 1)]
        if module:
            pkg = pkg + module.split(".")
        return ".".join(pkg)

    def _index(self, sf: SourceFile) -> None:
        def visit_body(body, top=True):
            for st in body:
                if isinstance(st, (ast.Import, ast.ImportFrom)):
                    self._index_import(sf, st)
                elif isinstance(st, (ast.FunctionDef, ast.AsyncFunctionDef)):
                    if top:
                        sf.defs[st.name] = st
                        fi = FuncInfo(sf, st.name, st)
                        self._funcs[(sf.rel, st.name)] = fi
                        self.nfuncs += 1
                        self._index_nested(sf, st, st.name, None)
                elif isinstance(st, ast.ClassDef):
                    if top:
                        sf.defs[st.name] = st
                        self._index_class(sf, st, st.name)
                elif isinstance(st, ast.Assign):
                    for t in st.targets:
                        for n in ast.walk(t):
                            if isinstance(n, ast.Name) and top:
                                sf.defs.setdefault(n.id, st)
                elif isinstance(st, ast.AnnAssign):
                    if isinstance(st.target, ast.Name) and top:
                        sf.defs.setdefault(st.target.id, st)
                elif isinstance(st, (ast.If, ast.Try)):
                    # conditional top-level definitions (pydantic v1/v2 switches)
                    for blk in _blocks(st):
                        visit_body(blk, top)

        visit_body(sf.tree.body)

    def _index_nested(self, sf, fn, qual, cls):
        for st in ast.walk(fn):
            if st is fn:
                continue
            if isinstance(st, (ast.FunctionDef, ast.AsyncFunctionDef)):
                q = f"{qual}.<locals>.{st.name}"
                if (sf.rel, q) not in self._funcs:
                    self._funcs[(sf.rel, q)] = FuncInfo(sf, q, st, cls)
                    self.nfuncs += 1

    def _index_class(self, sf: SourceFile, node: ast.ClassDef, qual: str) -> None:
        ci = ClassInfo(
            sf,
            qual,
            node,
            [dotted(b) or ast.unparse(b) for b in node.bases],
            [deco_name(d) for d in node.decorator_list],
        )
        self._classes[(sf.rel, qual)] = ci
        self.nclasses += 1
        for st in node.body:
            if isinstance(st, (ast.FunctionDef, ast.AsyncFunctionDef)):
                fi = FuncInfo(sf, f"{qual}.{st.name}", st, ci)
                ci.methods[st.name] = fi
                self._funcs[(sf.rel, fi.qual)] = fi
                self.nfuncs += 1
                self._index_nested(sf, st, fi.qual, ci)
            elif isinstance(st, ast.Assign):
                for t in st.targets:
                    for n in ast.walk(t):
                        if isinstance(n, ast.Name):
                            ci.class_attrs[n.id] = st.value
            elif isinstance(st, ast.AnnAssign) and isinstance(st.target, ast.Name):
                ci.class_attrs[st.target.id] = st.value if st.value is not None else st.annotation
            elif isinstance(st, ast.ClassDef):
                self._index_class(sf, st, f"{qual}.{st.name}")

    def _index_import(self, sf: SourceFile, st) -> None:
        if isinstance(st, ast.Import):
            for a in st.names:
                sf.imports[a.asname or a.name.split(".")[0]] = ImportEntry(
                    a.name if a.asname else a.name.split(".")[0], None
                )
        else:
            mod = self._abs_module(sf, st.level, st.module)
            for a in st.names:
                if a.name == "*":
                    sf.stars.append(mod)
                else:
                    sf.imports[a.asname or a.name] = ImportEntry(mod, a.name)

    # ---------------- lookup

    def file(self, rel: str) -> SourceFile:
        sf = self.files.get(rel)
        if sf is None:
            raise AnalysisError(f"anchor-vanished: file {rel} not found")
        return sf

    def find_func(self, rel: str, qual: str) -> Optional[FuncInfo]:
        return self._funcs.get((rel, qual))

    def func(self, rel: str, qual: str) -> FuncInfo:
        fi = self.find_func(rel, qual)
        if fi is None:
            self.file(rel)
            raise AnalysisError(f"anchor-vanished: function {qual} not found in {rel}")
        return fi

    def find_cls(self, rel: str, name: str) -> Optional[ClassInfo]:
        return self._classes.get((rel, name))

    def cls(self, rel: str, name: str) -> ClassInfo:
        ci = self.find_cls(rel, name)
        if ci is None:
            self.file(rel)
            raise AnalysisError(f"anchor-vanished: class {name} not found in {rel}")
        return ci

    def funcs_in(self, rel_prefix: str) -> Iterator[FuncInfo]:
        for (rel, _), fi in self._funcs.items():
            if rel.startswith(rel_prefix):
                yield fi

    def classes_in(self, rel_prefix: str) -> Iterator[ClassInfo]:
        for (rel, _), ci in self._classes.items():
            if rel.startswith(rel_prefix):
                yield ci

    def all_funcs(self) -> Iterable[FuncInfo]:
        return self._funcs.values()

    def all_classes(self) -> Iterable[ClassInfo]:
        return self._classes.values()

    # ---------------- resolution

    def resolve_name(self, sf: SourceFile, name: str, _depth=0):
        """Resolve a module-level name in `sf` to a definition.

        Returns FuncInfo | ClassInfo | ('value', SourceFile, node) |
        ('module', SourceFile) | ('external', 'mod.name') | None."""
        if _depth > 12:
            return None
        if name in sf.defs:
            node = sf.defs[name]
            if isinstance(node, (ast.FunctionDef, ast.AsyncFunctionDef)):
                return self._funcs.get((sf.rel, name))
            if isinstance(node, ast.ClassDef):
                return self._classes.get((sf.rel, name))
            # alias `A = B` ?
            if isinstance(node, ast.Assign) and isinstance(node.value, ast.Name):
                if len(node.targets) == 1 and isinstance(node.targets[0], ast.Name):
                    r = self.resolve_name(sf, node.value.id, _depth + 1)
                    if r is not None:
                        return r
            return ("value", sf, node)
        if name in sf.imports:
            ie = sf.imports[name]
            if ie.name is None:
                tgt = self.by_mod.get(ie.module)
                return ("module", tgt) if tgt else ("external", ie.module)
            tgt = self.by_mod.get(ie.module)
            if tgt is None:
                return ("external", f"{ie.module}.{ie.name}")
            r = self.resolve_name(tgt, ie.name, _depth + 1)
            if r is not None:
                return r
            sub = self.by_mod.get(f"{ie.module}.{ie.name}")
            if sub is not None:
                return ("module", sub)
            return None
        for star in sf.stars:
            tgt = self.by_mod.get(star)
            if tgt is not None:
                r = self.resolve_name(tgt, name, _depth + 1)
                if r is not None:
                    return r
        return None

    def resolve_dotted(self, sf: SourceFile, dot: str):
        parts = dot.split(".")
        cur = self.resolve_name(sf, parts[0])
        for p in parts[1:]:
            if cur is None:
                return None
            if isinstance(cur, tuple) and cur[0] == "module":
                cur = self.resolve_name(cur[1], p)
            elif isinstance(cur, ClassInfo):
                if p in cur.methods:
                    cur = cur.methods[p]
                else:
                    sub = self._classes.get((cur.file.rel, f"{cur.name}.{p}"))
                    cur = sub
            elif isinstance(cur, tuple) and cur[0] == "external":
                cur = ("external", cur[1] + "." + p)
            else:
                return None
        return cur

    def mro(self, ci: ClassInfo) -> List[ClassInfo]:
        out, seen = [], set()

        def go(c: ClassInfo):
            if (c.file.rel, c.name) in seen:
                return
            seen.add((c.file.rel, c.name))
            out.append(c)
            for b in c.bases:
                r = self.resolve_dotted(c.file, b)
                if isinstance(r, ClassInfo):
                    go(r)

        go(ci)
        return out

    def find_method(self, ci: ClassInfo, name: str) -> Optional[FuncInfo]:
        for c in self.mro(ci):
            if name in c.methods:
                return c.methods[name]
        return None

    def subclasses(self, base: ClassInfo) -> List[ClassInfo]:
        out = []
        for ci in self._classes.values():
            if ci is base:
                continue
            if any(c is base for c in self.mro(ci)):
                out.append(ci)
        return out

    def resolve_call(self, call: ast.Call, ctx: FuncInfo):
        """Resolve the callee of `call` occurring inside `ctx`.
        Returns FuncInfo | ClassInfo (constructor) | ('external', name) | None."""
        f = call.func
        if isinstance(f, ast.Name):
            # nested function of an enclosing function?
            q = ctx.qual
            while True:
                cand = self._funcs.get((ctx.file.rel, f"{q}.<locals>.{f.id}"))
                if cand is not None:
                    return cand
                if ".<locals>." in q:
                    q = q.rsplit(".<locals>.", 1)[0]
                else:
                    break
            # function-local imports
            loc = _local_imports(self, ctx)
            if f.id in loc:
                return loc[f.id]
            r = self.resolve_name(ctx.file, f.id)
            return r if not (isinstance(r, tuple) and r[0] == "value") else None
        if isinstance(f, ast.Attribute):
            base = f.value
            if isinstance(base, ast.Name) and base.id in ("self", "cls") and ctx.cls is not None:
                m = self.find_method(ctx.cls, f.attr)
                if m is not None:
                    return m
                return None
            if isinstance(base, ast.Call) and isinstance(base.func, ast.Name) and base.func.id == "super" and ctx.cls:
                for c in self.mro(ctx.cls)[1:]:
                    if f.attr in c.methods:
                        return c.methods[f.attr]
                return None
            d = dotted(f)
            if d:
                r = self.resolve_dotted(ctx.file, d)
                if isinstance(r, (FuncInfo, ClassInfo)):
                    return r
                if isinstance(r, tuple) and r[0] == "external":
                    return r
        return None

    # ---------------- type-ish helpers

    def union_members(self, sf: SourceFile, name: str, _depth=0) -> Optional[List[str]]:
        """Members (as bare class names) of a `Union[...]` alias `name` visible in `sf`.
        Follows nested aliases and chained assignment `A = B = Union[...]`."""
        if _depth > 8:
            return None
        r = self.resolve_name(sf, name)
        if isinstance(r, ClassInfo):
            return [r.name]
        if not (isinstance(r, tuple) and r[0] == "value"):
            return None
        _, dsf, node = r
        value = node.value if isinstance(node, (ast.Assign, ast.AnnAssign)) else None
        if value is None:
            return None
        return self._union_of_expr(dsf, value, _depth)

    def _union_of_expr(self, sf, value, _depth=0) -> Optional[List[str]]:
        if isinstance(value, ast.Subscript) and dotted(value.value) in ("Union", "typing.Union", "Optional", "typing.Optional"):
            sl = value.slice
            elts = sl.elts if isinstance(sl, ast.Tuple) else [sl]
            out: List[str] = []
            for e in elts:
                if isinstance(e, ast.Constant) and isinstance(e.value, str):
                    out.append(e.value.split(".")[-1])
                elif isinstance(e, ast.Constant) and e.value is None:
                    out.append("None")
                elif isinstance(e, (ast.Name, ast.Attribute)):
                    d = dotted(e)
                    sub = self.union_members(sf, d.split(".")[0], _depth + 1) if "." not in d else None
                    if sub is not None and not (len(sub) == 1 and sub[0] == d):
                        out.extend(sub)
                    else:
                        out.append(d.split(".")[-1])
                elif isinstance(e, ast.Call) and dotted(e.func) == "type":
                    out.append("None")
                elif isinstance(e, ast.Subscript):
                    out.append(ast.unparse(e))
                else:
                    out.append(ast.unparse(e))
            if dotted(value.value) in ("Optional", "typing.Optional"):
                out.append("None")
            return out
        if isinstance(value, ast.Subscript) and dotted(value.value) in ("Annotated", "typing.Annotated"):
            sl = value.slice
            first = sl.elts[0] if isinstance(sl, ast.Tuple) else sl
            return self._union_of_expr(sf, first, _depth)
        if isinstance(value, ast.Name):
            return self.union_members(sf, value.id, _depth + 1)
        return None


def _blocks(st) -> List[list]:
    if isinstance(st, ast.If):
        return [st.body, st.orelse]
    if isinstance(st, ast.Try):
        return [st.body, st.orelse, st.finalbody] + [h.body for h in st.handlers]
    return []


def _local_imports(repo: Repo, ctx: FuncInfo) -> Dict[str, object]:
    """Names bound by `from x import y` statements inside the function body
    (or an enclosing function)."""
    out: Dict[str, object] = {}
    nodes = [ctx.node]
    q = ctx.qual
    while ".<locals>." in q:
        q = q.rsplit(".<locals>.", 1)[0]
        enc = repo.find_func(ctx.file.rel, q)
        if enc:
            nodes.append(enc.node)
    for fn in nodes:
        for st in ast.walk(fn):
            if isinstance(st, ast.ImportFrom):
                mod = repo._abs_module(ctx.file, st.level, st.module)
                tgt = repo.by_mod.get(mod)
                for a in st.names:
                    if a.name == "*":
                        continue
                    nm = a.asname or a.name
                    if tgt is None:
                        out.setdefault(nm, ("external", f"{mod}.{a.name}"))
                        continue
                    r = repo.resolve_name(tgt, a.name)
                    if r is None:
                        sub = repo.by_mod.get(f"{mod}.{a.name}")
                        r = ("module", sub) if sub else None
                    if r is not None and not (isinstance(r, tuple) and r[0] == "value"):
                        out.setdefault(nm, r)
    return out


# --------------------------------------------------------------------------
# Standard repo construction
# --------------------------------------------------------------------------

_READER_FILES = [
    ("vlsirtools/netlist/base.py", "vlsirtools.netlist.base"),
    ("vlsirtools/netlist/spice.py", "vlsirtools.netlist.spice"),
    ("vlsirtools/netlist/spectre.py", "vlsirtools.netlist.spectre"),
    ("vlsirtools/netlist/spectre_spice_shared.py", "vlsirtools.netlist.spectre_spice_shared"),
    ("vlsirtools/netlist/verilog.py", "vlsirtools.netlist.verilog"),
    ("vlsirtools/primitives.py", "vlsirtools.primitives"),
    ("vlsirtools/spicetype.py", "vlsirtools.spicetype"),
]


def site_packages() -> Optional[Path]:
    for p in sorted(glob.glob("/venv/lib/python3*/site-packages")):
        if (Path(p) / "vlsirtools").exists():
            return Path(p)
    return None


def build_repo(root: Path = REPO, *, pdks: bool = True, reader: bool = True) -> Repo:
    repo = Repo(root)
    repo.counts = {}
    repo.counts["hdl21"] = repo.load_tree("hdl21", ".")
    if pdks:
        for name, pkg in (("Sky130", "sky130_hdl21"), ("Gf180", "gf180_hdl21"), ("Asap7", "asap7_hdl21")):
            sub = f"pdks/{name}/{pkg}"
            if (repo.root / sub).exists():
                repo.counts[name] = repo.load_tree(sub, f"pdks/{name}")
            else:
                repo.counts[name] = 0
    repo.reader_root = None
    if reader:
        sp = site_packages()
        if sp is not None:
            repo.reader_root = sp
            n = 0
            for rel, mod in _READER_FILES:
                p = sp / rel
                if p.exists():
                    repo.load_external(p, mod)
                    n += 1
            repo.counts["reader"] = n
    return repo
