"""Command line: `python -m hsa.check --prop C01 [--tier quick|thorough]`.

exit 0  every obligation discharged (or matched by a listed known finding)
exit 1  at least one unlisted violation (`VIOLATION property=.. replay=..` lines)
exit 2  ANALYSIS-ERROR: the analysis could not decide (never a silent pass)
"""

from __future__ import annotations

import argparse
import importlib
import json
import os
import sys
import time
import traceback
from pathlib import Path

from .core import AnalysisError, build_repo, REPO
from .report import Reporter, finish

PROPS = [f"C{n:02d}" for n in range(1, 20)]


def run_prop(prop: str, repo=None, root: Path = REPO) -> Reporter:
    mod = importlib.import_module(f"hsa.rules.{prop.lower()}")
    if repo is None:
        repo = build_repo(root, pdks=getattr(mod, "NEEDS_PDKS", False), reader=getattr(mod, "NEEDS_READER", False))
    rep = Reporter(prop)
    rep.analysed = {
        "root": str(repo.root),
        "files": len(repo.files),
        "functions": repo.nfuncs,
        "classes": repo.nclasses,
        "by_tree": getattr(repo, "counts", {}),
    }
    mod.check(repo, rep)
    return rep


def main(argv=None) -> int:
    ap = argparse.ArgumentParser()
    ap.add_argument("--prop")
    ap.add_argument("--tier", default=os.environ.get("VERIF_TIER", "quick"))
    ap.add_argument("--replay")
    ap.add_argument("--root", default=str(REPO))
    ap.add_argument("--list", action="store_true")
    args = ap.parse_args(argv)
    seed = int(os.environ.get("VERIF_SEED", "0") or 0)
    t0 = time.time()
    try:
        if args.replay:
            return replay(args.replay, Path(args.root))
        if not args.prop:
            ap.error("--prop required")
        prop = args.prop.upper()
        rep = run_prop(prop, root=Path(args.root))
        if args.list:
            for o in rep.obs:
                print(("ok  " if o.ok else "BAD ") + f"{o.rule} [{o.key}] {o.site} :: {o.detail}")
        extra = {}
        tier = "thorough" if args.tier == "thorough" else "quick"
        if tier == "thorough":
            from . import selftest

            extra = selftest.run_for(prop, Path(args.root))
        return finish(rep, tier, seed, t0, extra)
    except AnalysisError as e:
        print(f"ANALYSIS-ERROR property={args.prop} {e}")
        return 2
    except Exception:  # noqa: BLE001 — a traceback must not look like a violation
        print(f"ANALYSIS-ERROR property={args.prop} internal error:")
        traceback.print_exc()
        return 2


def replay(path: str, root: Path) -> int:
    data = json.loads(Path(path).read_text())
    prop, rule, key = data["prop"], data["rule"], data["key"]
    rep = run_prop(prop, root=root)
    hits = [o for o in rep.obs if o.rule == rule and o.key == key]
    if not hits:
        print(f"replay: obligation {rule} [{key}] no longer exists on this tree")
        return 2
    rc = 0
    for o in hits:
        print(("holds   " if o.ok else "VIOLATED ") + f"{o.site}\n  rule {o.rule} [{o.key}]\n  {o.detail}\n  {o.why}")
        if not o.ok:
            print(f"VIOLATION property={prop} replay={path}")
            rc = 1
    return rc


if __name__ == "__main__":
    sys.exit(main())
