"""C10 — bundle ports flatten to the documented names, directions and visibility.

The core of this property is finite-domain: the direction/visibility rule is a
decision table over six boolean atoms, the flip rule a parity step.  Both are
extracted from the source (F8) and compared with the table written from the
property statement.  The recursion is checked by its step, not unrolled.
"""

from __future__ import annotations

import ast
from typing import Dict, List, Optional, Tuple

from ..core import AnalysisError, FuncInfo, Repo, dotted
from .. import au, pat, fde
from .common import *  # noqa
from .common import key_of, noreturn_set
from .shared import enclosing
from . import c01


def check(repo: Repo, R) -> None:
    R.run(portdir_flipped, repo, R)
    R.run(direction_table, repo, R)
    R.run(flip_parity, repo, R)
    R.run(naming, repo, R)
    R.run(c01.bundle_conn_path, repo, R, "C10.5-both-sides-agree-on-members")
    R.run(c01.copy_aliasing, repo, R, "C10.5-both-sides-agree-on-members")
    from . import c02
    from .shared import Retag
    from .common import noreturn_set as _nrs
    R.run(c02.guard_inventory, repo, Retag(R, lambda r, k: "C10.5-both-sides-agree-on-members" if "replace_bundle_conn" in k and "member" in k else None,
                                    "a connected bundle with a surplus (or a missing) member is flattened onto the instance: the extra signal dangles, or a flattened port is left open"), _nrs(repo))
    # "one scalar port per leaf signal of the definition": the flattener walks the per-kind views of the definition, so a
    # member replaced by one of the other kind must leave its view
    from . import c18 as _c18
    R.run(_c18.check, repo, Retag(R, lambda r, k: "C10.6-definition-views-hold-current-members" if r.startswith("C18.1") and k.startswith("hdl21/bundle.py") else None,
                                 "a member replaced by a member of the other kind stays in its per-kind view: the bundle port flattens to ports for leaves the definition no longer has"))
    # "both sides agree on which flattened port carries which member": the parent reads the child's flattened ports from a cache
    # keyed by the child module itself
    from . import c07 as _c07
    R.run(_c07.id_keyed_caches, repo, Retag(R, lambda r, k: "C10.5-both-sides-agree-on-members" if "flatten_bundles.py" in k else None,
                                           "the cache of flattened bundle ports answers for another module of the same name: an instance is wired onto that module's flattened port names (`b_x_` it does not have), its own `b_x` left open"))
    R.run(roles_distinguishable, repo, R)
    R.run(anonymous_members_by_key, repo, R)
    R.run(anonymous_connections_everywhere, repo, R)
    R.floor("C10.1-portdir-flipped", 1)
    R.floor("C10.2-direction-visibility-table", 1)
    R.floor("C10.3-flip-parity", 4)
    R.floor("C10.4-flattened-names", 5)


def anonymous_members_by_key(repo: Repo, R):
    """The parent side of a bundle connection made of an anonymous bundle files each member under the key it was
    given there (`bundlize(tx=rx)` connects member tx) — whatever kind the member is and whatever it is called itself."""
    rule = "C10.5-both-sides-agree-on-members"
    from . import shared as _sh
    fa = repo.func(F_FLATB, "BundleFlattener.flatten_anonymous_bundle")
    loops = [n for n in au.walk_no_nested(fa.node) if isinstance(n, ast.For) and isinstance(n.target, ast.Tuple) and len(n.target.elts) == 2 and ast.unparse(_sh.prov(fa.node, n.iter)).endswith("._namespace.items()")]
    if len(loops) != 1:
        raise AnalysisError(f"idiom-unknown: the member loop of {fa.site}")
    kv = ast.unparse(loops[0].target.elts[0])
    filed = []
    for c in au.calls_in(loops[0]):
        if isinstance(c.func, ast.Attribute) and c.func.attr == "add_subscope" and len(c.args) == 2:
            filed.append((c, _sh.prov(fa.node, c.args[0]), "sub-scope"))
    for st in au.walk_no_nested(loops[0]):
        if isinstance(st, ast.Assign) and len(st.targets) == 1 and isinstance(st.targets[0], ast.Subscript) and ast.unparse(st.targets[0].value).endswith(".signals"):
            k = _sh.prov(fa.node, st.targets[0].slice)
            if isinstance(k, ast.Call) and ast.unparse(k.func) == "Path" and len(k.args) == 1 and isinstance(k.args[0], (ast.List, ast.Tuple)) and len(k.args[0].elts) == 1:
                k = k.args[0].elts[0]
            filed.append((st, k, "signal"))
    # a member given as a port reference is looked up through `.resolved` — which may be a bundle reference (a port wired
    # to a bundle member): the look-up is repeated until no reference is left
    for st in au.walk_no_nested(loops[0]):
        if isinstance(st, ast.Assign) and len(st.targets) == 1 and isinstance(st.targets[0], ast.Name) and isinstance(st.value, ast.Call) and ast.unparse(st.value.func) == "self.resolve_bundleref" \
                and [ast.unparse(a) for a in st.value.args] == [st.targets[0].id]:
            v_ = st.targets[0].id
            kinds = _sh.admissible_kinds(fa.node, st, v_, {"BundleRef", "PortRef"})
            if "PortRef" not in kinds:
                continue
            wh = _sh.enclosing(fa.node, st, (ast.While,))
            r_ = au.isinstance_classes(wh.test) if wh is not None and isinstance(wh.test, ast.Call) else None
            ok_ = r_ is not None and ast.unparse(r_[0]) == v_ and {"BundleRef", "PortRef"} <= {ast.unparse(c).split(".")[-1] for c in r_[1]}
            R.check(ok_, rule, key_of(fa, "reference-followed-to-the-end"), fa.at(st),
                    f"a member that is a port reference is resolved until it is neither a port nor a bundle reference: {ok_}",
                    why="`AnonymousBundle(x=a.p)` with a.p wired to a bundle member is refused: `Invalid AnonBundle attribute BundleRef`")
    if len(filed) < 4:
        raise AnalysisError(f"idiom-unknown: {fa.site} files {len(filed)} kinds of member; 4 were confirmed by reading")
    bad = [(n, ast.unparse(k), what) for n, k, what in filed if ast.unparse(k) != kv]
    R.check(not bad, rule, key_of(fa, "filed-under-its-key"), fa.at(bad[0][0]) if bad else fa.site,
            f"all {len(filed)} kinds of anonymous-bundle member are filed under the member key `{kv}`" if not bad else f"a {bad[0][2]} member is filed under `{bad[0][1]}`, not under its key `{kv}`",
            why="`bundlize(tx=rx, rx=tx)` (a cross-over) is wired straight: the held instances are matched by their own names, not by the members they were given as")


def anonymous_connections_everywhere(repo: Repo, R):
    """Anonymous-bundle connections are taken apart wherever they can sit: on instances and on instance arrays (the arrays
    are flattened later, and hand each element the connection they hold then)."""
    rule = "C10.5-both-sides-agree-on-members"
    from . import shared as _sh
    fe = repo.func(F_FLATB, "BundleFlattener.elaborate_module")
    seen = set()
    n = 0
    for lp in au.walk_no_nested(fe.node):
        if isinstance(lp, ast.For) and any(isinstance(c, ast.Call) and ast.unparse(c.func) == "self.replace_anon_bundle_conn" for c in ast.walk(lp)):
            n += 1
            it = ast.unparse(au.expand(lp.iter, au.local_env(fe.node), depth=3))
            seen |= {a for a in ("instances", "instarrays") if f"module.{a}" in it}
            # through a helper of the repository that lists them (`instances_and_arrays(module)`)
            for c in [x for x in ast.walk(lp.iter) if isinstance(x, ast.Call)]:
                callee = repo.resolve_call(c, fe)
                if isinstance(callee, FuncInfo) and callee.node.args.args:
                    p0 = callee.node.args.args[0].arg
                    txt = " ".join(_sh.prov_text(callee.node, r_.value) for r_ in _sh.returns_of(callee.node) if r_.value is not None)
                    seen |= {a for a in ("instances", "instarrays") if f"{p0}.{a}" in txt}
    if n == 0:
        raise AnalysisError(f"idiom-unknown: {fe.site} has no loop that replaces anonymous-bundle connections")
    R.check(seen == {"instances", "instarrays"}, rule, key_of(fe, "anonymous-conns-on-arrays-too"), fe.site, f"anonymous-bundle connections are replaced on the module's instances and instance arrays: {sorted(seen)}",
            why="an InstanceArray with an AnonymousBundle (or dict) on a bundle port keeps it: the array flattener meets a connection it cannot hand out")


def enum_members(repo: Repo, rel: str, cls: str) -> List[str]:
    ci = repo.cls(rel, cls)
    return [k for k, v in ci.class_attrs.items() if not k.startswith("_") and isinstance(v, (ast.Constant, ast.Call, ast.Name, ast.Attribute))]


def portdir_flipped(repo: Repo, R):
    rule = "C10.1-portdir-flipped"
    fi = repo.func(F_SIGNAL, "PortDir.flipped")
    members = enum_members(repo, F_SIGNAL, "PortDir")
    if set(members) != {"INPUT", "OUTPUT", "INOUT", "NONE"}:
        R.bad(rule, f"{F_SIGNAL}::PortDir", fi.site, f"PortDir members are {members}; the property speaks of input, output, inout, undirected", "an undocumented direction exists")
        return
    try:
        tab = fde.enum_function(fi.node, fi.node.args.args[0].arg, [f"PortDir.{m}" for m in members])
    except fde.Unknown as e:
        raise AnalysisError(f"idiom-unknown: PortDir.flipped: {e}")
    want = {"PortDir.INPUT": "PortDir.OUTPUT", "PortDir.OUTPUT": "PortDir.INPUT", "PortDir.INOUT": "PortDir.INOUT", "PortDir.NONE": "PortDir.NONE"}
    R.check(tab == want, rule, key_of(fi), fi.site, f"decision table of PortDir.flipped over all 4 members: {tab}; expected {want}",
            why="flipped bundle ports get the wrong direction (input/output not swapped, or inout/undirected changed)")


def _helper(repo: Repo) -> FuncInfo:
    return repo.func(F_FLATB, "BundleFlattener.flatten_bundle_inst_helper")


def _param_roles(repo: Repo) -> Dict[str, str]:
    """Which parameters of the helper carry port-ness and flip parity: read from
    the top-level call in flatten_bundle_inst."""
    top = repo.func(F_FLATB, "BundleFlattener.flatten_bundle_inst")
    calls = pat.find("self.flatten_bundle_inst_helper(*$_)", top.node)
    if len(calls) != 1:
        raise AnalysisError(f"idiom-unknown: top-level call of the flattening helper in {top.site}")
    kw = {k.arg: ast.unparse(k.value) for k in calls[0][0].keywords}
    roles = {}
    for k, v in kw.items():
        if v.endswith(".port"):
            roles["is_port"] = k
        if v.endswith(".flipped"):
            roles["flip"] = k
    if set(roles) != {"is_port", "flip"}:
        raise AnalysisError(f"idiom-unknown: the helper is not started from (<inst>.port, <inst>.flipped): {kw}")
    return roles, kw, top, calls[0][0]


def direction_table(repo: Repo, R):
    rule = "C10.2-direction-visibility-table"
    fi = _helper(repo)
    roles, kw, top, call = _param_roles(repo)
    env = au.local_env(fi.node)
    # the loop over the bundle definition's signals
    loop = None
    for n in au.walk_no_nested(fi.node):
        if isinstance(n, ast.For) and ast.unparse(au.expand(n.iter, env)).endswith(".of.signals.values()"):
            loop = n
    if loop is None:
        raise AnalysisError(f"idiom-unknown: loop over the bundle's signals not found in {fi.site}")
    # outputs: what is stored into <leaf>.vis / <leaf>.direction, wherever in the loop body that happens
    leaves = {ast.unparse(x.targets[0].value) for x in ast.walk(loop) if isinstance(x, ast.Assign) and len(x.targets) == 1 and isinstance(x.targets[0], ast.Attribute) and x.targets[0].attr in ("vis", "direction") and isinstance(x.targets[0].value, ast.Name)}
    if len(leaves) != 1:
        raise AnalysisError(f"idiom-unknown: stores to `<leaf>.vis` / `<leaf>.direction` not found in {fi.site} (receivers {sorted(leaves)})")
    leaf = leaves.pop()
    outs = {"vis": f"{leaf}.vis", "direction": f"{leaf}.direction"}
    decision = list(loop.body)

    def m_name(nm):
        return lambda t: isinstance(t, ast.Name) and t.id == nm

    def m_pat(p, neg=None):
        def f(t):
            if pat.match(p, t) is not None:
                return True
            if neg is not None and pat.match(neg, t) is not None:
                return "neg"
            return False
        return f

    atoms = [
        ("is_port", m_name(roles["is_port"])),
        ("leaf_is_port", m_pat(f"{leaf}.vis == Visibility.PORT", f"{leaf}.vis != Visibility.PORT")),
        ("flip", m_name(roles["flip"])),
        ("role_none", m_pat("$B.role is None", "$B.role is not None")),
        ("role_is_src", m_pat(f"$B.role == {leaf}.src")),
        ("role_is_dest", m_pat(f"$B.role == {leaf}.dest")),
    ]

    FLIP = {"INPUT": "OUTPUT", "OUTPUT": "INPUT", "INOUT": "INOUT", "NONE": "NONE", "KEEP": "FLIPPED", "FLIPPED": "KEEP"}

    def norm(v):
        # `<x>.flipped()` is evaluated on the normal form of <x> (C10.1 establishes what PortDir.flipped does)
        if isinstance(v, ast.Call) and isinstance(v.func, ast.Attribute) and v.func.attr == "flipped" and not v.args and not v.keywords:
            inner = norm(v.func.value)
            return FLIP.get(inner, f"{inner}.flipped()")
        s = ast.unparse(v)
        if isinstance(v, ast.Attribute) and isinstance(v.value, ast.Name) and v.value.id in ("Visibility", "PortDir"):
            return v.attr
        if s == f"{leaf}.direction":
            return "KEEP"
        return s

    try:
        tab = fde.decision_table(decision, atoms, [outs["vis"], outs["direction"]], norm, tolerant=True)
    except fde.Unknown as e:
        raise AnalysisError(f"idiom-unknown: direction/visibility decision in {fi.site}: {e}")
    bad = []
    n = 0
    for bits, res in tab.items():
        v = dict(zip([a[0] for a in atoms], bits))
        if v["role_is_src"] and v["role_is_dest"] and not v["role_none"]:
            continue  # src == dest == role: not specified by the statement
        n += 1
        if not v["is_port"]:
            want = ("INTERNAL", "NONE")
        elif v["leaf_is_port"]:
            want = ("PORT", "FLIPPED" if v["flip"] else "KEEP")
        elif v["role_none"]:
            want = ("PORT", "NONE")
        elif v["role_is_src"]:
            want = ("PORT", "OUTPUT")
        elif v["role_is_dest"]:
            want = ("PORT", "INPUT")
        else:
            want = ("PORT", "NONE")
        got = (res[outs["vis"]], res[outs["direction"]])
        if got != want:
            bad.append((v, got, want))
    R.check(not bad, rule, key_of(fi), fi.at(loop),
            f"decision table over 6 atoms, {n} specified valuations: "
            + ("all agree with the statement (not a port: internal/undirected; declared port: flipped iff parity odd; role==src: output; role==dest: input; else undirected)"
               if not bad else f"{len(bad)} disagree, e.g. {bad[0][0]} gives {bad[0][1]}, expected {bad[0][2]}"),
            why="a flattened bundle port gets the wrong direction or visibility for some combination of port-ness, flip parity and role")
    # the leaf's own direction must be read from the copy of the definition's signal (so KEEP means the declared direction)
    cp = pat.find(f"{leaf} = copy.deepcopy($S)", loop) or pat.find(f"{leaf} = deepcopy($S)", loop) or pat.find(f"{leaf} = copy.copy($S)", loop)
    same_sig = bool(cp) and ast.unparse(cp[0][1]["S"]) == ast.unparse(loop.target)
    no_width = not any(isinstance(x, ast.Assign) and isinstance(x.targets[0], ast.Attribute) and x.targets[0].attr == "width" for x in ast.walk(loop))
    R.check(same_sig and no_width, rule, key_of(fi, "leaf-copy"), fi.at(loop),
            f"each flattened leaf is a copy of the definition's signal (so it keeps its width and declared direction): {same_sig}; its width is not changed afterwards: {no_width}",
            why="flattened ports lose the leaf's width or direction")
    R.analysed["C10_table_rows"] = n


def flip_parity(repo: Repo, R):
    rule = "C10.3-flip-parity"
    fi = _helper(repo)
    roles, kw, top, call = _param_roles(repo)
    flip, isport = roles["flip"], roles["is_port"]
    # recursive call
    recs = pat.find("self.flatten_bundle_inst_helper(*$_)", fi.node)
    if not recs:
        raise AnalysisError(f"idiom-unknown: no recursive call in {fi.site}")
    from . import shared as _sh
    env = au.local_env(fi.node)
    loops = {id(enclosing(fi.node, rc, (ast.For,))): enclosing(fi.node, rc, (ast.For,)) for rc, _b in recs}
    if len(loops) != 1 or None in loops.values():
        raise AnalysisError(f"idiom-unknown: the recursive calls of {fi.site} are not in one loop over the sub-bundles")
    loop = next(iter(loops.values()))
    sub = ast.unparse(loop.target)
    it_ok = ast.unparse(au.expand(loop.iter, env)).endswith(".of.bundles.values()")
    # one recursive call, or one per branch of a decision (the canonical form moves a call that follows an if/else into
    # its branches): every one of them is looked at
    outer = len(_sh.path_conditions(fi.node, loop))
    every = True
    port_ok = True
    entries = []  # (value passed as flip, conditions inside the loop)
    for rc, _b in recs:
        rkw = {k.arg: k.value for k in rc.keywords}
        every = every and ast.unparse(rkw.get("bundle_inst", ast.Constant(None))) == sub
        port_ok = port_ok and ast.unparse(rkw.get(isport, ast.Constant(None))) == isport
        fv = rkw.get(flip)
        if fv is None:
            raise AnalysisError(f"idiom-unknown: recursive call passes no `{flip}`")
        for v, cds in _sh.alternatives(fi.node, fv, _sh.path_conditions(fi.node, rc)[outer:], at=rc):
            entries.append((v, _sh.resolved_conditions(fi.node, cds)))
    rc = recs[0][0]
    # the calls together cover every path through the loop body (no sub-bundle is skipped)
    R.check(it_ok and every, rule, key_of(fi, "recurse-every-sub-bundle"), fi.at(rc),
            f"the helper recurses into every sub-bundle instance of the definition: {it_ok and every}", why="nested bundle members are not flattened")
    R.check(port_ok, rule, key_of(fi, "portness-inherited"), fi.at(rc),
            f"port-ness is passed down unchanged (`{isport}={isport}`): {port_ok}", why="leaves of nested bundles of a port are not ports (or vice versa)")
    # parity step: value passed as flip == flip XOR sub.flipped
    tt = {}
    expr = entries[0][0]
    try:
        for a in (False, True):
            for b in (False, True):
                vals = set()
                for v, cds in entries:
                    ok_path = True
                    for t, pol in cds:
                        try:
                            tv = fde._ev(t, {flip: a, sub: _SubFlipped(b)})
                        except fde.Unknown:
                            raise fde.Unknown(f"condition `{ast.unparse(t)}`")
                        if bool(tv) != pol:
                            ok_path = False
                    if ok_path:
                        vals.add(bool(fde._ev(v, {flip: a, sub: _SubFlipped(b)})))
                if len(vals) != 1:
                    raise fde.Unknown(f"{len(vals)} values for (flip={a}, sub.flipped={b})")
                tt[(a, b)] = vals.pop()
    except fde.Unknown as e:
        raise AnalysisError(f"idiom-unknown: flip step `{ast.unparse(expr)}`: {e}")
    want = {(a, b): (a != b) for a in (False, True) for b in (False, True)}
    R.check(tt == want, rule, key_of(fi, "parity-step"), fi.at(rc),
            f"flip state passed to a sub-bundle = `{ast.unparse(expr)}`; truth table over (flip, sub.flipped) = {tt}; expected XOR",
            why="an even number of flips on the path swaps input/output (or an odd number does not)")
    # top-level start
    R.check(kw[isport].endswith(".port") and kw[flip].endswith(".flipped") and kw[isport].split(".")[0] == kw[flip].split(".")[0], rule, key_of(top, "start"), top.at(call),
            f"flattening starts from ({kw[isport]}, {kw[flip]})", why="the instance's own flip flag or port-ness is ignored")
    # flipped(): toggles on a copy
    ff = repo.func(F_BUNDLE, "flipped")
    a = ff.node.args.args[0].arg
    defs = au.local_defs(ff.node)
    cpn = [k for k, v in defs.items() if ast.unparse(v) in (f"copy({a})", f"copy.copy({a})")]
    ok = bool(cpn) and bool(pat.find(f"{cpn[0]}.flipped = not {cpn[0]}.flipped", ff.node)) and any(isinstance(n, ast.Return) and ast.unparse(n.value) == cpn[0] for n in au.walk_no_nested(ff.node))
    R.check(ok, rule, key_of(ff), ff.site, f"flipped() returns a copy whose flag is toggled (the original is untouched): {ok}", why="flipped(b) flips b itself, or returns an unflipped copy")
    # constructor flag
    ci = repo.cls(F_BUNDLE, "BundleInstance")
    init = ci.methods["__init__"]
    ok = bool(pat.find("self.flipped = flipped", init.node)) and bool(pat.find("self.port = port", init.node)) and bool(pat.find("self.role = role", init.node))
    R.check(ok, rule, key_of(init), init.site, f"BundleInstance stores its constructor's port / flipped / role arguments unchanged: {ok}", why="constructor flags are dropped")


class _SubFlipped:
    """Stand-in for the sub-bundle instance in the parity truth table."""

    def __init__(self, v):
        self.v = v


# teach the evaluator about `<sub>.flipped`
_orig_ev = fde._ev


def _ev_with_sub(e, env):
    if isinstance(e, ast.Attribute) and e.attr == "flipped" and isinstance(e.value, ast.Name) and isinstance(env.get(e.value.id), _SubFlipped):
        return env[e.value.id].v
    if isinstance(e, ast.Name) and isinstance(env.get(e.id), bool):
        return env[e.id]
    return _orig_ev(e, env)


fde._ev = _ev_with_sub


def naming(repo: Repo, R):
    rule = "C10.4-flattened-names"
    fi = _helper(repo)
    env = au.local_env(fi.node)
    loop = None
    for n in au.walk_no_nested(fi.node):
        if isinstance(n, ast.For) and ast.unparse(au.expand(n.iter, env)).endswith(".of.signals.values()"):
            loop = n
    sig = ast.unparse(loop.target)
    key_ok = bool(pat.find(f"$P = Path([{sig}.name])", loop))
    store = pat.find("scope.signals[$K] = $V", loop) or pat.find("$SC.signals[$K] = $V", loop)
    k_same = False
    if store and key_ok:
        pn = [ast.unparse(b["P"]) for _c, b in pat.find(f"$P = Path([{sig}.name])", loop)][0]
        k_same = ast.unparse(store[0][1]["K"]) == pn
    R.check(key_ok and k_same, rule, key_of(fi, "leaf-key"), fi.at(loop), f"each leaf is keyed by its own name in the scope: {key_ok and k_same}", why="leaves are keyed (and later named and matched) by something other than their member name")
    # sub-scope key is the sub-instance's name
    recs = pat.find("scope.add_subscope(name=$N, scope=$S)", fi.node) or pat.find("$X.add_subscope(name=$N, scope=$S)", fi.node) or pat.find("$X.add_subscope($N, $S)", fi.node)
    lp = enclosing(fi.node, recs[0][0], (ast.For,)) if recs else None
    ok = bool(recs) and lp is not None and ast.unparse(recs[0][1]["N"]) == f"{ast.unparse(lp.target)}.name"
    R.check(ok, rule, key_of(fi, "subscope-key"), fi.site, f"a sub-bundle's leaves are entered under the sub-instance's name: {ok}", why="nested members are named after the bundle type instead of the member")
    fa = repo.func(F_FLATB, "BundleScope.add_subscope")
    from . import shared

    # the key under which a sub-scope's leaf enters this scope is <sub-instance name> followed by the leaf's own path
    pre = coll = False
    nm_param = fa.node.args.args[1].arg
    for lp_ in [n for n in au.walk_no_nested(fa.node) if isinstance(n, ast.For) and ast.unparse(n.iter).endswith(".signals.items()") and isinstance(n.target, ast.Tuple) and len(n.target.elts) == 2]:
        suffix = ast.unparse(lp_.target.elts[0])
        for c, b in pat.find("self.signals[$K] = $V", lp_):
            k = shared.prov(fa.node, b["K"])
            m1 = pat.match(f"{suffix}.prepend($N)", k)
            m2 = pat.match(f"$N.append({suffix})", k)
            m = m1 or m2
            if m is not None:
                ntxt = ast.unparse(shared.prov(fa.node, m["N"]))
                # `name` may have been re-bound to Path([name]) (the reference spelling) or kept apart
                pre = ntxt in (f"Path([{nm_param}])", nm_param) and (ntxt != nm_param or any(isinstance(st, ast.Assign) and ast.unparse(st) == f"{nm_param} = Path([{nm_param}])" for st in au.stmts(fa.node)))
                pre = pre and ast.unparse(b["V"]) == ast.unparse(lp_.target.elts[1])
            coll = any(t_p[1] is False and pat.match("$K in self.signals", t_p[0]) is not None and ast.unparse(shared.prov(fa.node, pat.match("$K in self.signals", t_p[0])["K"])) == ast.unparse(k) for t_p in shared.path_conditions(fa.node, c)) and any(isinstance(n, ast.If) and "in self.signals" in ast.unparse(n.test) and au.raises(n.body) for n in ast.walk(lp_))
    ci_path = repo.cls(F_FLATB, "Path")
    ap, pp = ci_path.methods.get("append"), ci_path.methods.get("prepend")
    path_sem = ap is not None and pp is not None and [ast.unparse(r.value) for r in shared.returns_of(ap.node)] == [f"Path(segs=self.segs + {ap.node.args.args[1].arg}.segs)"] and [ast.unparse(r.value) for r in shared.returns_of(pp.node)] == [f"Path(segs={pp.node.args.args[1].arg}.segs + self.segs)"]
    R.check(path_sem, rule, key_of(ap) if ap else f"{F_FLATB}::Path", ci_path.site, f"Path.append puts the argument's segments after, Path.prepend before, its own: {path_sem}", why="every nested path is built in the reverse order: flattened names read member_bundle instead of bundle_member")
    R.check(pre and coll, rule, key_of(fa), fa.site, f"add_subscope prepends the sub-instance name to every leaf path ({pre}) and rejects colliding paths ({coll})", why="paths of nested leaves miss a segment, or two leaves share one flattened name")
    fp = repo.func(F_FLATB, "Path.prepend")
    ok = bool(pat.find("Path(segs=prefix.segs + self.segs)", fp.node))
    R.check(ok, rule, key_of(fp), fp.site, f"Path.prepend puts the prefix first: {ok}", why="path segments come out in reverse order (x_sub instead of sub_x)")
    ft = repo.func(F_FLATB, "Path.to_name")
    ok = bool(pat.find("'_'.join(self.segs)", ft.node))
    R.check(ok, rule, key_of(ft), ft.site, f"Path.to_name joins with '_': {ok}", why="member paths are not joined with underscores")
    fr = repo.func(F_FLATB, "BundleFlattener.replace_bundle_inst")
    hits = pat.find("$S.name = self.flatname(segments=[bundle_inst.name, $P.to_name()], avoid=module.namespace)", fr.node)
    ok = False
    if hits:
        lp = enclosing(fr.node, hits[0][0], (ast.For,))
        ok = lp is not None and ast.unparse(lp.iter).endswith(".signals.items()") and isinstance(lp.target, ast.Tuple) and ast.unparse(lp.target.elts[0]) == ast.unparse(hits[0][1]["P"]) and ast.unparse(lp.target.elts[1]) == ast.unparse(hits[0][1]["S"])
        ok = ok and bool(pat.find(f"module.add({ast.unparse(hits[0][1]['S'])})", lp))
    R.check(ok, rule, key_of(fr, "final-name"), fr.site, f"every flattened leaf is renamed <instance name>_<member path> and added to the module: {ok}", why="flattened ports are not named instance_member (or some are not added)")
    cache = bool(pat.find("THE_CACHE.flat_bundle_ports[$E] = flat", fr.node)) and any(isinstance(n, ast.If) and ast.unparse(n.test) == "bundle_inst.port" for n in au.walk_no_nested(fr.node))
    ent = pat.find("BundlePortEntry(module, bundle_inst.name)", fr.node)
    R.check(cache and bool(ent), rule, key_of(fr, "port-scope-recorded"), fr.site, f"the flattened scope of a bundle-valued port is recorded under (module, instance name) for parents to connect to: {cache and bool(ent)}",
            why="parents cannot find (or find another port's) flattened members")



def roles_distinguishable(repo: Repo, R):
    """`role == src` / `role == dest` decide the direction of every flattened port: two roles of one bundle must not
    compare equal.  A Role is a value (compared by its name) — so every role a bundle body declares has a name:
    the decorator gives an un-named one the name of its attribute."""
    rule = "C10.2-direction-visibility-table"
    from . import shared as _sh
    cr = repo.cls("hdl21/role.py", "Role")
    by_identity = "__eq__" in cr.methods and any(ast.unparse(r_.value) in ("other is self", "self is other") for r_ in _sh.returns_of(cr.methods["__eq__"].node))
    fb = repo.func(F_BUNDLE, "bundle")
    named = False
    for st in au.walk_no_nested(fb.node):
        if isinstance(st, ast.Assign) and len(st.targets) == 1 and isinstance(st.targets[0], ast.Subscript) and ast.unparse(st.targets[0].value) == "roles_dict":
            key, val = ast.unparse(st.targets[0].slice), ast.unparse(st.value)
            # on the way to the table: `<val>.name = <key>`, for every role that has no name yet
            for nm in au.walk_no_nested(fb.node):
                if isinstance(nm, ast.Assign) and ast.unparse(nm.targets[0]) == f"{val}.name" and ast.unparse(nm.value) == key and _sh.precedes(fb.node, nm, st):
                    extra = [(ast.unparse(t), pol) for t, pol in _sh.path_conditions(fb.node, nm) if (ast.unparse(t), pol) not in {(ast.unparse(t2), p2) for t2, p2 in _sh.path_conditions(fb.node, st)}]
                    named = all(t_ == f"{val}.name is None" and pol for t_, pol in extra)
    # ... in place — so the roles handed out by `n * Role()` / `Roles(n)` are n objects, each made for its own position
    from . import c09 as _c09
    for fr_ in (repo.func("hdl21/role.py", "Role.__rmul__"), repo.func("hdl21/role.py", "Roles")):
        outs = []
        for r_ in _sh.returns_of(fr_.node):
            if r_.value is None or ast.unparse(r_.value) == "NotImplemented":
                continue
            ce = _c09._collection_elements(fr_.node, r_.value)
            if ce is None:
                outs.append((False, f"`{ast.unparse(_sh.prov(fr_.node, r_.value))[:60]}` is not built element by element"))
                continue
            for e_, _c in ce[0]:
                ev = _sh.prov(fr_.node, e_)
                fresh = isinstance(ev, ast.Call) and (dotted(ev.func) or "").split(".")[-1] in ("copy", "deepcopy", "Role", "replace")
                outs.append((fresh, f"element `{ast.unparse(ev)[:50]}`"))
        ok_ = bool(outs) and all(f_ for f_, _t in outs)
        R.check(ok_, rule, key_of(fr_, "distinct-objects"), fr_.site, f"{fr_.qual} returns a new Role object for every position: {[t for _f, t in outs]}",
                why="`Host, Device = 2 * h.Role()` is one object under two names: the bundle decorator names it `Host`, `Device` is that same role, and every role-carrying leaf becomes an output on both sides")
    R.check(by_identity or named, rule, key_of(fb, "roles-named"), fb.site,
            "roles are compared by identity" if by_identity else f"a Role is compared by its name; every un-named role of a bundle body is named after its attribute before it enters the role table: {named}",
            why="`Host, Device = 2 * h.Role()` gives one role twice: src and dest both match every instance role, and all flattened ports of the bundle become outputs")
