"""C11 — exported packages survive a round trip through from_proto.

F2 MIRROR: inverse tables (prefix, port direction, ideal-primitive names, pulse
parameter renaming, slice top, concat order, qualified-name separator), typed
field coverage per message (what the exporter writes the importer reads),
oneof-variant coverage, order preservation.  `to_proto(from_proto(P)) == P` for
all P is not decided.
"""

from __future__ import annotations

import ast
from typing import Dict, List, Optional, Set, Tuple

from ..core import AnalysisError, FuncInfo, Repo, dotted
from .. import au, pat, fde
from .common import *  # noqa
from .common import key_of
from . import protofacts as pf
from . import protoaccess as pa
from . import c01

NEEDS_READER = True


from . import shared


def check(repo: Repo, R) -> None:
    R.run(inverse_tables, repo, R)
    R.run(field_coverage, repo, R)
    R.run(variant_coverage, repo, R)
    R.run(order, repo, R)
    # connection targets are looked up by name in the module's own namespace of HDL objects (every legal name is there;
    # Python attribute lookup would find methods and properties instead, and skips names with a leading underscore)
    fct = repo.func(F_IMPORT, "import_connection_target")
    looks = [c for c in au.calls_in(fct.node) if isinstance(c.func, ast.Attribute) and c.func.attr == "get" and ast.unparse(c.func.value) == "module.namespace"]
    magic = [ast.unparse(c) for c in au.calls_in(fct.node) if (dotted(c.func) or "") in ("getattr", "module.__getattribute__", "module.__getattr__")]
    miss = shared.raises_under(fct.node, [("module.namespace.get(sname) is None", True), ("stype == 'concat'", False)]) or any(isinstance(n, ast.If) and "is None" in ast.unparse(n.test) and au.raises(n.body) for n in au.walk_no_nested(fct.node))
    R.check(len(looks) >= 1 and not magic and miss, "C11.3-variant-coverage", key_of(fct, "lookup"), fct.site,
            f"signals named by a connection are looked up in module.namespace ({len(looks) >= 1}; attribute lookups: {magic or 'none'}); an unknown name raises ({miss})",
            why="packages with signals named like Module attributes (`name`, `ports`) or with a leading underscore cannot be imported")
    R.run(external_identity, repo, R)
    R.run(absent_means_none, repo, R)
    # port order: the importer takes it from the order of the port entries inside `signals`; the exporter writes both lists
    from . import c06 as _c06
    R.run(_c06.check, repo, shared.Retag(R, lambda r, k: "C11.5-external-modules-by-qualified-name" if k.endswith("name-reserved-before-children") else None,
                                        "a module below another one of the same qualified name passes the name-conflict check while its parent is being exported: to_proto emits two modules of one name, which from_proto refuses (`Redefined Module`)"))
    R.run(_c06.check, repo, shared.Retag(R, lambda r: "C11.4-order-preserved" if r.startswith("C06.3") else None,
                                        "the importer reads port order from the `signals` list: written in another order than `ports` (namespace order differs once a name was re-used), re-imported modules have their ports permuted, and positional netlists swap nets"))
    # connection order: the importer connects in the package's order through connect() and leaves `conns` alone afterwards
    R.run(shared.owner_only_writes, repo, shared.Retag(R, lambda r, k: "C11.4-order-preserved" if k.startswith(F_IMPORT) else None,
                                                      "the importer rebuilds an instance's `conns` (in port-list order, say): re-exported instances list their connections in another order than the package had, and the connected objects keep no record of the port"),
          "C04.2-owner-only-writes", why="")
    R.run(scalar_parameters_both_spellings, repo, R)
    from . import c13 as _c13
    R.run(_c13.value_dispatch, repo, shared.Retag(R, lambda r: "C11.2-field-coverage",
                                                 "a value written to another variant of ParamValue than its kind's (a plain string as `string_value`) is read back as a kind that is exported differently: a Literal / Enum / Decimal parameter of an external module changes from `literal` to `string_value` in the round trip"))
    R.floor("C11.1-inverse-tables", 6)
    R.floor("C11.2-field-coverage", 10)
    R.floor("C11.3-variant-coverage", 4)
    R.floor("C11.4-order-preserved", 4)


def prefix_tables(repo: Repo):
    members = pf.enum_values(repo, F_PREFIX, "Prefix")  # NAME -> 'int text'
    fe = repo.func(F_EXPORT, "export_prefix")
    fi = repo.func(F_IMPORT, "import_prefix")
    er = pf.dict_by_key(fe, "pre.value", repo)
    ir = pf.dict_by_key(fi, "vpre", repo)
    if er is None or ir is None:
        raise AnalysisError("idiom-unknown: prefix tables (`<table>[pre.value]` in export_prefix, `<table>[vpre]` in import_prefix) not found as dict literals")
    return members, fe, fi, er[0], ir[0]


def inverse_tables(repo: Repo, R):
    rule = "C11.1-inverse-tables"
    members, fe, fi, emap, imap = prefix_tables(repo)
    probs = []
    for name, val in members.items():
        v = str(int(ast.literal_eval(val)))
        got = emap.get(v)
        if got != f"vlsir.SIPrefix.{name}":
            probs.append(f"export: {name} ({v}) -> {got}")
        back = imap.get(f"vlsir.SIPrefix.{name}")
        if back != f"Prefix.{name}":
            probs.append(f"import: SIPrefix.{name} -> {back}")
    extra = [k for k in emap if k not in {str(int(ast.literal_eval(v))) for v in members.values()}]
    keyed = True  # the tables are found as `<table>[pre.value]` / `<table>[vpre]` (prefix_tables)
    R.check(not probs and not extra and len(members) == 21 and keyed, rule, f"{F_EXPORT}::export_prefix<->import_prefix", fe.site,
            f"prefix tables over {len(members)} Prefix members: exporter maps each exponent to the SIPrefix of the same name, importer maps it back" if not probs else "; ".join(probs[:4]),
            why="a prefixed parameter value changes by powers of ten on export or on re-import (e.g. MILLI exported as MICRO)")
    # port directions
    members = ["INPUT", "OUTPUT", "INOUT", "NONE"]
    fx = repo.func(F_EXPORT, "export_port_dir")
    fm = repo.func(F_IMPORT, "import_port_dir")
    try:
        ex = fde.enum_function(pf.subst_attr(fx.node, f"{fx.node.args.args[0].arg}.direction", "__d"), "__d", [f"PortDir.{m}" for m in members])
        im = fde.enum_function(pf.subst_attr(fm.node, f"{fm.node.args.args[0].arg}.direction", "__d"), "__d", [f"vckt.Port.Direction.{m}" for m in members])
    except fde.Unknown as e:
        raise AnalysisError(f"idiom-unknown: port direction tables: {e}")
    ok = all(ex[f"PortDir.{m}"] == f"vckt.Port.Direction.{m}" for m in members) and all(im[f"vckt.Port.Direction.{m}"] == f"PortDir.{m}" for m in members)
    R.check(ok, rule, f"{F_EXPORT}::export_port_dir<->import_port_dir", fx.site, f"port direction tables: export {ex}; import {im}", why="port directions change on export or on re-import")
    # ideal primitive names
    prims = pf.hdl21_primitives(repo)
    ideal = {n for n, p in prims.items() if p["primtype"] == "IDEAL"}
    fxi = repo.func(F_EXPORT, "ProtoExporter.export_instance")
    fii = repo.func(F_IMPORT, "import_vlsir_primitive")
    er, ir = pf.dict_by_key(fxi, "inst.of.prim.name"), pf.dict_by_key(fii, "pref.name")
    if er is None or ir is None:
        raise AnalysisError("idiom-unknown: ideal-primitive name tables (`<table>[inst.of.prim.name]` in the exporter, `<table>[pref.name]` in the importer) not found as dict literals")
    emap, imap = er[0], ir[0]
    inv = {v: k for k, v in emap.items()}
    ok = set(emap) == ideal and inv == imap and len(inv) == len(emap)
    R.check(ok, rule, f"{F_EXPORT}::prim_map<->{F_IMPORT}::prim_map", fxi.site,
            f"ideal-primitive name tables: exporter keys = the {len(ideal)} IDEAL primitives: {set(emap) == ideal}; importer table is the exact inverse: {inv == imap}"
            + ("" if ok else f"; diff export-only {sorted(set(emap) - ideal)}, unmapped {sorted(ideal - set(emap))}, inverse mismatch {sorted(k for k in inv if imap.get(k) != inv[k])}"),
            why="an ideal element comes back from the round trip as another element (e.g. vccs and ccvs exchanged)")
    # pulse parameter renaming
    fep = repo.func(F_EXPORT, "export_primitive_params")
    fip = repo.func(F_IMPORT, "import_primitive_params")
    ed = pf.returned_mapping(fep)
    idd = pf.returned_mapping(fip)
    if idd is None and ed is not None:
        # the other way of writing the importer's side: every name is sent through a fixed renaming table
        # (`{T.get(n, n): v for n, v in params.items()}`) — read as the mapping it applies to the exporter's names
        for r_ in shared.returns_of(fip.node):
            v_ = shared.prov(fip.node, r_.value) if r_.value is not None else None
            if isinstance(v_, ast.DictComp) and len(v_.generators) == 1 and isinstance(v_.generators[0].target, ast.Tuple) and len(v_.generators[0].target.elts) == 2 and not v_.generators[0].ifs:
                n_, x_ = [ast.unparse(e) for e in v_.generators[0].target.elts]
                mk = pat.match(f"$T.get({n_}, {n_})", v_.key)
                tab = shared.prov(fip.node, mk["T"]) if mk is not None else None
                if mk is not None and ast.unparse(v_.value) == x_ and isinstance(tab, ast.Dict) and all(au.str_const(k_) and au.str_const(w_) for k_, w_ in zip(tab.keys, tab.values)):
                    t_ = {au.str_const(k_): au.str_const(w_) for k_, w_ in zip(tab.keys, tab.values)}
                    idd = {t_.get(k_, k_): f"params.get('{k_}')" for k_ in ed}
    if ed is None or idd is None:
        raise AnalysisError("idiom-unknown: pulse parameter renaming dicts")
    fields = pf.paramclass_fields(repo, F_PRIMS, "PulseVoltageSourceParams")
    e_ok = sorted(v.split(".")[-1] for v in ed.values()) == sorted(fields) and all(v.startswith("params.") for v in ed.values())
    rename = {k: v.split(".")[-1] for k, v in ed.items()}  # vlsir name -> hdl21 field
    back = {}
    for k, v in idd.items():
        ve = ast.parse(v, mode="eval").body
        m = pat.match("params[$K]", ve) or pat.match("params.get($K)", ve) or pat.match("params.get($K, None)", ve)
        back[k] = au.str_const(m["K"]) if m else None
    i_ok = back == {h: v for v, h in rename.items()}
    reader = pf.reader_primitives(repo)
    r_ok = "vpulse" in reader and set(ed) == set(reader["vpulse"]["params"])
    R.check(e_ok and i_ok and r_ok, rule, f"{F_EXPORT}::export_primitive_params<->import_primitive_params", fep.site,
            f"pulse source renaming {rename}: covers every field of PulseVoltageSourceParams once: {e_ok}; importer is the inverse: {i_ok}; exported names are the reader's vpulse parameters {reader.get('vpulse', {}).get('params')}: {r_ok}",
            why="rise and fall time (or delay and period) are exchanged on export or on re-import")
    guard = any(isinstance(n, ast.If) and ast.unparse(n.test) == "isinstance(params, PulseVoltageSourceParams)" for n in au.walk_no_nested(fep.node)) and any(isinstance(n, ast.If) and ast.unparse(n.test) in (shared.ctext("target is Vpulse"), shared.ctext("target is PulseVoltageSource")) for n in au.walk_no_nested(fip.node))
    R.check(guard, rule, f"{F_EXPORT}::pulse-guards", fep.site, f"renaming applies exactly to the pulse source on both sides: {guard}", why="another primitive's parameters are renamed")
    # qualified names
    fq = repo.func(F_QUALNAME, "qualname")
    fim = repo.func(F_IMPORT, "ProtoImporter.import_module")
    j = bool(pat.find("'.'.join(qpath)", fq.node))
    s = bool(pat.find("path = pmod.name.split('.')", fim.node)) and bool(pat.find("module._importpath = path[:-1]", fim.node)) and bool(pat.find("module.name = path[-1]", fim.node))
    fqp = repo.func(F_QUALNAME, "qualpath")
    back = any(shared.prov_text(fqp.node, r.value) in ("mod._importpath + [mod.name]", "getattr(mod, '_importpath', None) + [mod.name]") for r in shared.returns_of(fqp.node))
    # "imported" means the import path was set, even to the empty path (a module defined at top level / in a notebook)
    imp_test = None
    for r in shared.returns_of(fqp.node):
        if shared.prov_text(fqp.node, r.value) in ("mod._importpath + [mod.name]", "getattr(mod, '_importpath', None) + [mod.name]"):
            pcs = [(shared.prov(fqp.node, t), pol) for t, pol in shared.path_conditions(fqp.node, r)]
            imp_test = " and ".join(("" if pol else "not ") + f"({ast.unparse(t)})" for t, pol in pcs)
            exact = shared.conds_imply(pcs, [(shared.parse_cond("getattr(mod, '_importpath', None) is None"), False)]) is True and shared.conds_imply([(shared.parse_cond("getattr(mod, '_importpath', None) is None"), False)], pcs) is True
            exact = exact or (shared.conds_imply(pcs, [(shared.parse_cond("mod._importpath is None"), False)]) is True and shared.conds_imply([(shared.parse_cond("mod._importpath is None"), False)], pcs) is True)
    if imp_test is None:
        exact = False
    R.check(exact, rule, f"{F_QUALNAME}::qualpath::imported-test", fqp.site,
            f"a module counts as imported when its import path `is not None` (test: `{imp_test}`); an empty path is a valid import path",
            why="a module imported with an empty path (defined via exec / a notebook / python -c) is re-exported under the importer's own Python module path: names change in the round trip")
    R.check(j and s and back, rule, f"{F_QUALNAME}::qualname<->import_module", fq.site, f"module names: exported '.'.join(path) ({j}); imported split('.') into import path + name ({s}); re-exported from the import path ({back})", why="imported modules are re-exported under another qualified name")
    # slice / concat mirrors are the C01.2 obligations (shared code)
    c01_rule = "C11.1-inverse-tables"
    class _R:
        def __init__(s, R): s.R = R
        def __getattr__(s, k): return getattr(s.R, k)
        def check(s, cond, rule, key, site, detail, why="", nontrivial=True):
            if "import" in key:
                return s.R.check(cond, c01_rule, key, site, detail, why, nontrivial)
            return cond
    c01.bit_order(repo, _R(R))


def field_coverage(repo: Repo, R):
    rule = "C11.2-field-coverage"
    ex = pa.analyse(repo, F_EXPORT)
    im = pa.analyse(repo, F_IMPORT)
    msgs = ["Package", "Module", "ExternalModule", "Instance", "Connection", "ConnectionTarget", "Slice", "Concat", "Port", "Signal", "Param", "ParamValue", "Prefixed", "QualifiedName", "Reference"]
    n_fields = 0
    for m in msgs:
        w = ex.writes.get(m, {})
        r = im.reads.get(m, {})
        if not w:
            R.note(f"exporter writes no field of {m}")
            continue
        n_fields += len(w)
        # oneof members count as read when the importer dispatches on the arm's name
        read = set(r)
        for f, (t, rep, grp) in pa.SCHEMA[m].items():
            if grp and f in im.oneof_arms.get(grp, set()):
                read.add(f)
        missing = sorted(set(w) - read)
        R.check(not missing, rule, f"message::{m}", f"{F_EXPORT} / {F_IMPORT}",
                f"{m}: exporter writes {sorted(w)}; importer reads {sorted(read)}" + (f"; WRITTEN BUT NEVER READ: {missing} (written at {w[missing[0]][0]})" if missing else ""),
                why=f"`{m}.{missing[0] if missing else '?'}` is lost in the round trip: re-exporting the imported package gives a different package")
    if n_fields < 25:
        raise AnalysisError(f"anchor-vanished: only {n_fields} written message fields recognised in the exporter")
    R.analysed["C11_fields_written"] = n_fields


def variant_coverage(repo: Repo, R):
    rule = "C11.3-variant-coverage"
    ex = pa.analyse(repo, F_EXPORT)
    im = pa.analyse(repo, F_IMPORT)
    groups = {"stype": "ConnectionTarget", "to": "Reference", "value": "ParamValue", "number": "Prefixed"}
    for grp, m in groups.items():
        produced = {f for f in ex.writes.get(m, {}) if pa.SCHEMA[m][f][2] == grp}
        handled = im.oneof_arms.get(grp, set())
        missing = sorted(produced - handled)
        R.check(bool(produced) and not missing, rule, f"oneof::{m}.{grp}", f"{F_EXPORT} / {F_IMPORT}",
                f"{m}.{grp}: exporter can produce {sorted(produced)}; importer dispatches on {sorted(handled)}" + (f"; UNHANDLED {missing}" if missing else ""),
                why="a variant the exporter produces makes from_proto raise, or is imported as the default")
    # a Concat comes back as a Concat, whatever its number of parts
    fic = repo.func(F_IMPORT, "import_concat")
    rets = [n for n in au.walk_no_nested(fic.node) if isinstance(n, ast.Return)]
    ok = len(rets) == 1 and pat.match("Concat(*$P)", rets[0].value) is not None
    R.check(ok, rule, key_of(fic, "always-concat"), fic.site, f"import_concat has one exit, returning Concat(*parts): {ok} (returns: {[ast.unparse(r.value) for r in rets]})",
            why="a one-part concatenation is imported as a bare signal: re-exporting emits `sig` where the package had `concat`")
    fct = repo.func(F_IMPORT, "import_connection_target")
    ok = any(isinstance(n, ast.If) and ast.unparse(n.test) == "stype == 'concat'" and ast.unparse(n.body[-1]) == "return import_concat(pconn.concat, module)" for n in au.walk_no_nested(fct.node))
    R.check(ok, rule, key_of(fct, "concat-arm"), fct.site, f"a concat target is imported by import_concat: {ok}", why="concat targets are imported as something else")
    # importer arms build the mirror value
    fpv = repo.func(F_IMPORT, "import_parameter_value")
    arms = {}
    for n in au.walk_no_nested(fpv.node):
        if isinstance(n, ast.If) and isinstance(n.test, ast.Compare):
            lit = au.str_const(n.test.comparators[0])
            if lit and isinstance(n.body[-1], ast.Return):
                arms[lit] = ast.unparse(n.body[-1].value)
    a = fpv.node.args.args[0].arg
    want = {"int64_value": f"int({a}.int64_value)", "double_value": f"float({a}.double_value)", "literal": f"str({a}.literal)", "prefixed": f"import_prefixed({a}.prefixed)"}
    ok = all(arms.get(k) == v for k, v in want.items())
    R.check(ok, rule, key_of(fpv), fpv.site, f"import_parameter_value arms: {arms}", why="a parameter comes back with another variant's value")
    fpp = repo.func(F_IMPORT, "import_prefixed")
    a = fpp.node.args.args[0].arg
    arms = {}
    ctor = [c for c, _b in pat.find("Prefixed(number=$N, prefix=$P)", fpp.node)]
    pre_ok = bool(ctor)
    # one construction after the variant is decided, or one per variant
    for ct in ctor:
        kw = {k.arg: k.value for k in ct.keywords}
        pre_ok = pre_ok and shared.prov_text(fpp.node, kw["prefix"]) == f"import_prefix({a}.prefix)"
        for v, cds in shared.alternatives(fpp.node, kw["number"], list(shared.path_conditions(fpp.node, ct)), at=ct):
            for t, pol in cds:
                tx = shared.prov(fpp.node, t)
                if not pol or not isinstance(tx, ast.Compare) or len(tx.ops) != 1 or ast.unparse(tx.left) != f"{a}.WhichOneof('number')":
                    continue
                if isinstance(tx.ops[0], ast.Eq) and au.str_const(tx.comparators[0]):
                    arms[au.str_const(tx.comparators[0])] = ast.unparse(v)
                if isinstance(tx.ops[0], ast.In) and isinstance(tx.comparators[0], (ast.Tuple, ast.List, ast.Set)) and shared.prov_text(fpp.node, v) == f"getattr({a}, {a}.WhichOneof('number'))":
                    for x in tx.comparators[0].elts:
                        if au.str_const(x):
                            arms[au.str_const(x)] = f"{a}.{au.str_const(x)}"  # the field of the same name
    ok = arms.get("int64_value") == f"{a}.int64_value" and arms.get("string_value") == f"{a}.string_value" and pre_ok
    R.check(ok, rule, key_of(fpp), fpp.site, f"import_prefixed arms {arms}, rebuilt as Prefixed(number, prefix)", why="prefixed numbers lose their digits or prefix on import")


def order(repo: Repo, R):
    rule = "C11.4-order-preserved"
    fim = repo.func(F_IMPORT, "ProtoImporter.import_module")
    fps = repo.func(F_IMPORT, "import_ports_and_signals")
    fimp = repo.func(F_IMPORT, "ProtoImporter.import_")
    checks = [
        (fim, "pmod.instances", "instances are imported in package order"),
        (fim, "pinst.connections", "connections are made in package order"),
        (fim, "pmod.literals", "literals keep their order"),
        (fps, "pmod.signals", "signals are created in package order"),
        (fps, "pmod.ports", "ports are marked in package order"),
        (fimp, "self.pkg.modules", "modules are imported in package (dependency) order"),
        (fimp, "self.pkg.ext_modules", "external modules are imported first, in order"),
    ]
    for fi, it, what in checks:
        loops = [n for n in au.walk_no_nested(fi.node) if isinstance(n, ast.For) and ast.unparse(n.iter) == it]
        comps = [g for n in au.walk_no_nested(fi.node) if isinstance(n, (ast.ListComp, ast.DictComp, ast.GeneratorExp)) for g in n.generators if ast.unparse(g.iter) == it]
        # a forward loop without early exits, or a comprehension without a filter (canonical form of an accumulation loop)
        ok = (len(loops) == 1 and not comps and not any(isinstance(x, (ast.Break, ast.Continue)) for x in ast.walk(loops[0]))) or (len(comps) == 1 and not loops and not comps[0].ifs)
        R.check(ok, rule, key_of(fi, it), fi.site, f"{what}: plain forward loop over `{it}`: {ok}", why="the re-exported package lists elements in another order, or drops some")
        # ... and where the loop itself files the elements (`<list>.append(..)`), it files every one of them: no test decides
        for lp in loops:
            outer = len(shared.path_conditions(fi.node, lp))
            for c_ in au.calls_in(lp):
                if isinstance(c_.func, ast.Attribute) and c_.func.attr == "append" and len(c_.args) == 1:
                    inner = shared.path_conditions(fi.node, c_)[outer:]
                    R.check(not inner, rule, key_of(fi, f"{it}::every-element-filed"), fi.at(c_),
                            f"{what}: each element of `{it}` is appended" + ("" if not inner else f" only when {' and '.join(('' if p_ else 'not ') + ast.unparse(t_)[:50] for t_, p_ in inner)}"),
                            why="an element that compares equal to an earlier one (a literal stated twice) is dropped on import: the re-exported package has fewer elements than the original")
    # ports: order of the exported ports list must survive: ExternalModule port_list = list(signals.values()) keeps *signal* order
    ext_before = False
    body = [n for n in fimp.node.body if isinstance(n, ast.For)]
    if len(body) >= 2:
        ext_before = ast.unparse(body[0].iter) == "self.pkg.ext_modules" and ast.unparse(body[1].iter) == "self.pkg.modules"
    R.check(ext_before, rule, key_of(fimp, "ext-first"), fimp.site, f"external modules are imported before the modules that instantiate them: {ext_before}", why="an instance of an external module is imported before its definition and fails")



def external_identity(repo: Repo, R):
    """External modules are what the exporter says they are: identified by (domain, name), called with the parameter
    mapping as one value (foreign parameter names are arbitrary and never become Python keyword arguments of a call
    that has named parameters of its own)."""
    rule = "C11.5-external-modules-by-qualified-name"
    n = 0
    for qual in ("ProtoImporter.import_external_module", "ProtoImporter.import_instance"):
        fi = repo.func(F_IMPORT, qual)
        keys = []
        for x in au.walk_no_nested(fi.node):
            k = None
            if isinstance(x, ast.Subscript) and ast.unparse(x.value) == "self.ext_modules":
                k = x.slice
            elif isinstance(x, ast.Call) and isinstance(x.func, ast.Attribute) and x.func.attr in ("get", "pop", "setdefault") and ast.unparse(x.func.value) == "self.ext_modules" and x.args:
                k = x.args[0]
            elif isinstance(x, ast.Compare) and len(x.ops) == 1 and isinstance(x.ops[0], (ast.In, ast.NotIn)) and ast.unparse(x.comparators[0]) == "self.ext_modules":
                k = x.left
            if k is not None:
                keys.append((x, k))
        if not keys:
            raise AnalysisError(f"anchor-vanished: no use of self.ext_modules in {fi.site}")
        for x, k in keys:
            n += 1
            t = shared.prov_text(fi.node, k)
            ok = ".domain" in t and ".name" in t
            R.check(ok, rule, key_of(fi, f"key::{ast.unparse(x)[:40]}"), fi.at(x), f"external modules are keyed by `{t}`: domain and name: {ok}",
                    why="`pdk_a.nfet` and `pdk_b.nfet` of one package collide on import (or the instances of one resolve to the other)")
    fi = repo.func(F_IMPORT, "ProtoImporter.import_instance")
    tcalls = [c for c in au.calls_in(fi.node) if isinstance(c.func, ast.Name) and c.func.id == "target"]
    if not tcalls:
        raise AnalysisError(f"anchor-vanished: the imported target is not called with its parameters in {fi.site}")
    for c in tcalls:
        spread = [k for k in c.keywords if k.arg is None] + [a for a in c.args if isinstance(a, ast.Starred)]
        ok = not spread and len(c.args) == 1 and not c.keywords
        R.check(ok, rule, key_of(fi, "params-as-one-value"), fi.at(c), f"`{ast.unparse(c)}`: the parameters are handed over as one value (no `**` of foreign names): {ok}",
                why="a foreign parameter named like a parameter of the call itself (`arg`) is captured by it: the instance comes back without it, or the import fails")
    if n < 3:
        raise AnalysisError(f"anchor-vanished: only {n} ext_modules key uses found")



def absent_means_none(repo: Repo, R):
    """The exporter leaves None-valued parameters out of the package (C13.2).  The importer therefore (a) never requires
    a parameter to be listed, and (b) gives an unlisted parameter of a primitive the value None — not the parameter's
    default, which the next export would write."""
    rule = "C11.2-field-coverage"
    fp = repo.func(F_IMPORT, "import_primitive_params")
    pa = fp.node.args.args[1].arg
    req = [n for n in au.walk_no_nested(fp.node) if isinstance(n, ast.Subscript) and isinstance(n.ctx, ast.Load) and isinstance(n.value, ast.Name) and n.value.id == pa and isinstance(n.slice, ast.Constant)]
    R.check(not req, rule, key_of(fp, "no-required-parameter"), fp.at(req[0]) if req else fp.site,
            "the renaming of ideal-primitive parameters reads every one as optional" if not req else f"`{ast.unparse(req[0])}` requires the parameter to be listed in the package",
            why="an instance of Vpulse() (or any pulse source with an unset field) cannot be imported: KeyError")
    fi = repo.func(F_IMPORT, "ProtoImporter.import_instance")
    ctors = [c for c in au.calls_in(fi.node) if isinstance(c.func, ast.Attribute) and c.func.attr == "Params" and ast.unparse(c.func.value) == "target"]
    if len(ctors) < 2:
        raise AnalysisError(f"anchor-vanished: `target.Params(..)` constructions in {fi.site} ({len(ctors)})")
    for c in ctors:
        spread = [k.value for k in c.keywords if k.arg is None]
        how = ast.unparse(c)[:90]
        fills = wraps = False
        if len(spread) == 1 and not c.args:
            # the chain of helpers the parameter dictionary passes through on its way into the parameter class
            v = shared.prov(fi.node, spread[0], depth=1)
            chain = []
            while isinstance(v, ast.Call):
                callee = repo.resolve_call(v, fi)
                if callee is None or not hasattr(callee, "node") or callee.file.rel != F_IMPORT:
                    break
                chain.append(callee)
                v = shared.prov(fi.node, v.args[-1], depth=1) if v.args else None
            by_hdl21_name = []
            for callee in chain:
                rets = shared.returns_of(callee.node)
                rv = shared.prov(callee.node, rets[0].value) if len(rets) == 1 and rets[0].value is not None else None
                # (a) lays the given parameters over {every parameter name: None}
                if isinstance(rv, ast.Dict) and len(rv.keys) == 2 and rv.keys[0] is None and rv.keys[1] is None and isinstance(rv.values[0], ast.DictComp):
                    dc = rv.values[0]
                    if isinstance(dc.value, ast.Constant) and dc.value.value is None and ast.unparse(dc.generators[0].iter).endswith(".Params.__params__") and isinstance(dc.key, ast.Name):
                        fills = True
                        by_hdl21_name.append(callee)
                # (b) gives strings destined for Scalar parameters their Literal type back
                if isinstance(rv, ast.DictComp) and isinstance(rv.value, ast.IfExp):
                    t_ = ast.unparse(rv.value.test)
                    if ast.unparse(rv.value.body).startswith("Literal(") and "isinstance(" in t_ and ", str)" in t_ and "Scalar" in ast.unparse(callee.node):
                        wraps = True
                        by_hdl21_name.append(callee)
            # helpers that select by the Hdl21 parameter names see the dictionary after the VLSIR names were translated
            if fp in chain:
                early = [h_.name for h_ in by_hdl21_name if chain.index(h_) > chain.index(fp)]
                R.check(not early, rule, key_of(fi, f"renamed-before-selected::{ast.unparse(spread[0])[:40]}"), fi.at(c),
                        f"`{how}`: the VLSIR parameter names are translated before anything is selected by Hdl21 parameter name" + (f" — NOT so for {early}" if early else ""),
                        why="Vpulse(delay=Literal('1e-11')) comes back as the number 1e-11: under its VLSIR name `td` the value is not recognised as destined for a Scalar")
        R.check(fills, rule, key_of(fi, f"unlisted-is-none::{ast.unparse(spread[0])[:40] if spread else how}"), fi.at(c),
                f"`{how}`: parameters the package does not list are passed as None (laid under the listed ones): {fills}",
                why="Vdc(dc=None) comes back as dc=0: exporting the imported module again writes a parameter the package did not have")
        R.check(wraps, rule, key_of(fi, f"literal-stays-literal::{ast.unparse(spread[0])[:40] if spread else how}"), fi.at(c),
                f"`{how}`: string values destined for Scalar parameters are imported as Literals (scalar conversion leaves those alone): {wraps}",
                why="R(r=h.Literal('1.5')) comes back as the number 1.5: the re-exported package holds `prefixed` where the original holds `literal`")


def scalar_parameters_both_spellings(repo: Repo, R):
    """Which parameters of a primitive are Scalars is decided by their declared type: required ones are declared `Scalar`,
    optional ones `Optional[Scalar]` — the helper that restores Literals recognises both."""
    rule = "C11.2-field-coverage"
    fl = repo.func(F_IMPORT, "literal_params")
    tests = []
    for n in ast.walk(fl.node):
        if isinstance(n, ast.comprehension):
            for f_ in n.ifs:
                if "dtype" in ast.unparse(f_):
                    tests.append(f_)
        if isinstance(n, ast.If) and "dtype" in ast.unparse(n.test):
            tests.append(n.test)
    if not tests:
        raise AnalysisError(f"idiom-unknown: {fl.site} does not select parameters by their declared type")
    ok = False
    shown = ast.unparse(tests[0])
    for t in tests:
        names = set()
        if isinstance(t, ast.Compare) and len(t.ops) == 1 and isinstance(t.ops[0], ast.In) and isinstance(t.comparators[0], (ast.Tuple, ast.List, ast.Set)):
            names = {ast.unparse(e) for e in t.comparators[0].elts}
        elif isinstance(t, ast.BoolOp) and isinstance(t.op, ast.Or):
            names = {ast.unparse(v.comparators[0]) for v in t.values if isinstance(v, ast.Compare) and len(v.ops) == 1 and isinstance(v.ops[0], (ast.Eq, ast.Is))}
        ok = ok or {"Scalar", "Optional[Scalar]"} <= names
    R.check(ok, rule, key_of(fl, "required-and-optional-scalars"), fl.site, f"literal_params selects the parameters declared `Scalar` and those declared `Optional[Scalar]`: {ok} (`{shown[:80]}`)",
            why="R(r=Literal('100')): `r` is a required, plain-Scalar parameter — missed by a test for Optional[..] arguments only, its text comes back as the number 100 and is re-exported as `prefixed`")
