"""C17 — simulation input export is complete and faithful.

Decided: exhaustive dispatch of every attribute / analysis / control / sweep /
save-target variant with the right SimInput field per arm, validity of
isinstance tests, attribute existence on narrowed receivers, order and
multiplicity, distinct generated names, the testbench check, numeric fields
through one float conversion, and data-class field coverage by the exporter.
Value faithfulness of every field for all Sim objects is not decided.
"""

from __future__ import annotations

import ast
from typing import Dict, List, Optional, Set, Tuple

from ..core import AnalysisError, ClassInfo, FuncInfo, Repo, dotted
from .. import au, pat
from .common import *  # noqa
from .common import key_of, noreturn_set, union, isinstance_handled
from . import shared
from .shared import path_conditions

ANALYSIS_ARMS = {"Op": ("op", "export_op"), "Dc": ("dc", "export_dc"), "Ac": ("ac", "export_ac"), "Tran": ("tran", "export_tran"), "Noise": ("noise", "export_noise"),
                 "SweepAnalysis": ("sweep", "export_sweep_analysis"), "MonteCarlo": ("monte", "export_monte"), "CustomAnalysis": ("custom", "export_custom_analysis")}
CONTROL_ARMS = {"Include": ("include", "export_include"), "Lib": ("lib", "export_lib"), "Save": ("save", "export_save"), "Meas": ("meas", "export_meas"),
                "Param": ("param", "export_param"), "Literal": ("literal", "export_literal")}
SWEEP_ARMS = {"LinearSweep": "linear", "LogSweep": "log", "PointSweep": "points"}

# proto keyword -> attribute path on the data object (numeric / textual payload)
FIELD_MAP = {
    "export_dc": {"indep_name": "var", "sweep": "sweep"},
    "export_ac": {"fstart": "sweep.start", "fstop": "sweep.stop", "npts": "sweep.npts"},
    "export_tran": {"tstop": "tstop", "tstep": "tstep"},
    "export_noise": {"fstart": "sweep.start", "fstop": "sweep.stop", "npts": "sweep.npts"},
    "export_sweep_analysis": {"variable": "var", "sweep": "sweep", "an": "inner"},
    "export_monte": {"npts": "npts", "an": "inner"},
    "export_custom_analysis": {"cmd": "cmd"},
}
EXEMPT_FIELDS = {("Include", "name"), ("Lib", "name")}  # documented: class-syntax only


def arms(fi: FuncInfo, subject: str) -> Dict[str, ast.If]:
    out = {}
    for n in au.walk_no_nested(fi.node):
        if isinstance(n, ast.If):
            r = au.isinstance_classes(n.test) if isinstance(n.test, ast.Call) else None
            if r and ast.unparse(r[0]) == subject:
                for c in r[1]:
                    out[(dotted(c) or ast.unparse(c)).split(".")[-1]] = n
    return out


def check(repo: Repo, R) -> None:
    noret = noreturn_set(repo)
    R.run(dispatch, repo, R, noret)
    R.run(isinstance_valid, repo, R)
    R.run(narrowed_attrs, repo, R)
    R.run(order_and_names, repo, R, noret)
    R.run(testbench, repo, R, noret)
    R.run(numeric, repo, R)
    R.run(field_coverage, repo, R)
    rule = "C17.4-order-multiplicity-names"
    fsd = repo.func(F_SIMDATA, "sim")
    loops = [n for n in au.walk_no_nested(fsd.node) if isinstance(n, ast.For) and ast.unparse(n.iter) == "cls.__dict__.items()" and isinstance(n.target, ast.Tuple) and len(n.target.elts) == 2]
    ok = False
    if len(loops) == 1:
        kv, vv = [ast.unparse(x) for x in loops[0].target.elts]
        named = pat.find(f"{vv}.name = {kv}", loops[0])
        apps = pat.find(f"$A.append({vv})", loops[0])
        reb = [st for st in ast.walk(loops[0]) if isinstance(st, (ast.Assign, ast.AugAssign)) and any(isinstance(x, ast.Name) and x.id == vv and isinstance(x.ctx, ast.Store) for x in ast.walk(st))]
        ok = len(named) == 1 and len(apps) >= 1 and not reb
    R.check(ok, rule, key_of(fsd), fsd.site, f"the @sim decorator names each class-body attribute itself (the object other attributes refer to), not a copy, and collects that same object: {ok}",
            why="attributes that refer to other class-level attributes (a Dc over a Param, a sweep over inner analyses) keep unnamed originals: they are exported with empty or generated names")
    if len(loops) == 1 and len(named) == 1 and apps:
        # every collected attribute is named after its key, except the one documented throw-away key "_"
        (np_, nk_), nopq = shared.key_tests(fsd.node, named[0][0], kv)
        (ap_, ak_), aopq = shared.key_tests(fsd.node, apps[0][0], kv)
        extra = (nk_ - ak_) if (not np_ and not ap_) else None
        ok = extra is not None and not nopq and not aopq and extra <= {"_"}
        R.check(ok, rule, key_of(fsd, "named-unless-underscore"), fsd.at(named[0][0]),
                f"@sim leaves a collected attribute unnamed only under the key '_': " + (f"unnamed keys {sorted(extra)}" if extra is not None and not nopq and not aopq else f"decided by {nopq + aopq or 'a positive list of keys'}"),
                why="`_dc = Dc(..)` in a class body is exported as `Analysis0` (a Param as ''): the class-defined Sim differs from the procedural one")
    # exporting reads the Sim: nothing is written back onto it or its attributes
    smp = ast.parse("def f(self, an):\n    for x in an.inner:\n        x.name = self.next()\n").body[0]
    if len(shared.input_writes(smp)) != 1:
        raise AnalysisError("self-check failed: the input-writes rule does not see its positive sample")
    nfun = 0
    for fi_ in repo.funcs_in(F_SIMPROTO):
        nfun += 1
        for node_, what_ in shared.input_writes(fi_.node, extra_roots={"self.sim"}):
            R.check(False, rule, key_of(fi_, "input-written"), fi_.at(node_), f"{fi_.name} writes into the Sim it exports: {what_}",
                    why="a generated name (or any other export-time value) outlives the export: exporting the same analysis again, in another position or another Sim, yields two analyses under one name — the export depends on what was exported before")
    R.check(nfun >= 10, rule, f"{F_SIMPROTO}::read-only", F_SIMPROTO, f"{nfun} functions of {F_SIMPROTO} write nothing into the Sim, its attributes or their members", why="the export changes its input")
    # include / library paths are handed on as the user wrote them
    for fname, arg in (("export_include", "inc"), ("export_lib", "lib")):
        fp_ = repo.find_func(F_SIMPROTO, fname) or repo.find_func(F_SIMPROTO, f"SimProtoExporter.{fname}")
        if fp_ is None:
            raise AnalysisError(f"anchor-vanished: {fname} in {F_SIMPROTO}")
        a0 = fp_.node.args.args[-1].arg
        vals = [shared.prov_text(fp_.node, k.value) for c_ in au.calls_in(fp_.node) if (dotted(c_.func) or "").startswith("vsp.") for k in c_.keywords if k.arg == "path"]
        okp = bool(vals) and all(v_ == f"str({a0}.path)" for v_ in vals)
        R.check(okp, "C17.1-dispatch-complete", key_of(fp_, "path-as-given"), fp_.site, f"{fname}: the exported path is the text of the given path: {vals}",
                why="a relative include path is resolved against the exporting process's working directory: the SimInput no longer carries the path the Sim has")
    # a measurement names the analysis it belongs to by that analysis's own type tag
    fat = repo.func(F_SIMPROTO, "export_analysis_type")
    a0 = fat.node.args.args[0].arg
    n_ret = 0
    for r_ in shared.returns_of(fat.node):
        if r_.value is None:
            continue
        n_ret += 1
        pcs = [(ast.unparse(t), pol) for t, pol in shared.path_conditions(fat.node, r_)]
        got = shared.prov_text(fat.node, r_.value)
        if (f"isinstance({a0}, str)", True) in pcs:
            want = a0
        elif any(t.endswith(f"is_analysis({a0})") and pol for t, pol in pcs):
            want = f"{a0}.tp.value"
        else:
            want = None
        R.check(want is not None and got == want, "C17.1-dispatch-complete", key_of(fat, f"type-tag::{want}"), fat.at(r_),
                f"export_analysis_type returns `{got}`; a type given as text is handed on, an analysis object gives its `tp` tag (`{a0}.tp.value`)",
                why="a measurement on a sweep / Monte-Carlo / custom analysis object is exported with a type string no analysis has ('sweepanalysis'): the class name is not the tag")
    if n_ret < 2:
        raise AnalysisError(f"idiom-unknown: {fat.site}: expected a return for the text form and one for the analysis-object form")
    # each analysis class carries its own tag
    tags = {}
    for cls_ in union(repo, F_SIMDATA, "Analysis"):
        m_ = repo.find_func(F_SIMDATA, f"{cls_}.tp")
        rets_ = [ast.unparse(r.value) for r in shared.returns_of(m_.node) if r.value is not None] if m_ is not None else []
        tags[cls_] = rets_[0] if len(rets_) == 1 else None
    okt = all(v is not None and v.startswith("AnalysisType.") for v in tags.values()) and len(set(tags.values())) == len(tags)
    R.check(okt, "C17.1-dispatch-complete", f"{F_SIMDATA}::analysis-type-tags", F_SIMDATA, f"every analysis class has its own `tp` tag: {tags}", why="two analysis kinds share a type tag: measurements attach to the wrong analysis")
    # noise output forms: a form is not shadowed by a more general test placed before it
    fno = repo.func(F_SIMPROTO, "SimProtoExporter.export_noise")
    conn_members = set(union(repo, "hdl21/connect.py", "Connectable"))
    n_arm = 0
    for n_ in au.walk_no_nested(fno.node):
        if not isinstance(n_, ast.If):
            continue
        rr = au.isinstance_classes(n_.test) if isinstance(n_.test, ast.Call) else None
        if rr is None or shared.prov_text(fno.node, rr[0]) != "noise.output" or not n_.body:
            continue
        n_arm += 1
        kinds = {ast.unparse(c_).split(".")[-1] for c_ in rr[1]}
        shadow = [ast.unparse(t) for t, pol in shared.path_conditions(fno.node, n_.body[0]) if not pol and isinstance(t, ast.Call) and (dotted(t.func) or "").split(".")[-1] == "is_connectable"
                  and t.args and shared.prov_text(fno.node, t.args[0]) == "noise.output"]
        bad = bool(shadow) and bool(kinds & conn_members)
        R.check(not bad, "C17.1-dispatch-complete", key_of(fno, f"output-form::{'|'.join(sorted(kinds))}"), fno.at(n_),
                f"export_noise: the {sorted(kinds)} form of the output is reached by outputs of that kind" + (f" — only after `{shadow[0]}` has failed, which it never does for {sorted(kinds & conn_members)} (a connectable)" if bad else ""),
                why="a differential (`Diff` bundle) noise output is taken for a single-ended signal named after the bundle: the SimInput names a signal the testbench does not have")
    if n_arm < 2:
        raise AnalysisError(f"idiom-unknown: {fno.site}: the output-form chain (tests on the kind of `noise.output`) was not found")
    # the result has the form of the input: a list for a sequence of Sims (of any length), a lone SimInput for a lone Sim
    ftp = repo.func(F_SIMPROTO, "to_proto")
    i0 = ftp.node.args.args[0].arg
    n_ret = 0
    for r_ in shared.returns_of(ftp.node):
        if r_.value is None:
            continue
        n_ret += 1
        seq = [pol for t, pol in shared.path_conditions(ftp.node, r_) if f"isinstance({i0}, Sequence)" in (ast.unparse(t), shared.prov_text(ftp.node, t))]
        v_ = shared.prov(ftp.node, r_.value)
        lone = isinstance(v_, ast.Subscript) and ast.unparse(v_.slice) == "0"
        # (`x, = <list>; return x` names the single element as well)
        if isinstance(r_.value, ast.Name):
            lone = lone or any(isinstance(st, ast.Assign) and len(st.targets) == 1 and isinstance(st.targets[0], (ast.Tuple, ast.List)) and len(st.targets[0].elts) == 1
                               and isinstance(st.targets[0].elts[0], ast.Name) and st.targets[0].elts[0].id == r_.value.id for st in au.stmts(ftp.node))
        okf = len(seq) >= 1 and len(set(seq)) == 1 and seq[0] == (not lone)
        R.check(okf, "C17.6-testbench", key_of(ftp, f"form-as-given::{'lone' if lone else 'list'}"), ftp.at(r_),
                f"to_proto returns {'one SimInput' if lone else 'a list'} " + (f"when the input is{'' if seq[0] else ' not'} a sequence" if len(set(seq)) == 1 else "whatever the form of the input (decided by something else)"),
                why="a list holding a single Sim yields a bare SimInput: `run([s])` and every caller indexing the result break for exactly that length")
    if n_ret < 2:
        raise AnalysisError(f"idiom-unknown: {ftp.site}: expected a return for the sequence form and one for the lone form")
    fadd = repo.func(F_SIMDATA, "Sim.add")
    lp = [n for n in au.walk_no_nested(fadd.node) if isinstance(n, ast.For) and ast.unparse(n.iter) == "attrs"]
    ok = False
    if len(lp) == 1:
        av = ast.unparse(lp[0].target)
        apps = pat.find(f"self.attrs.append({av})", lp[0])
        skip = [x for x in ast.walk(lp[0]) if isinstance(x, (ast.Continue, ast.Break))]
        # appended under nothing but the kind check
        conds = [ast.unparse(t) for c, _b in apps for t, _p in shared.path_conditions(fadd.node, c)]
        ok = len(apps) == 1 and not skip and all(t == f"is_simattr({av})" for t in conds)
    R.check(ok, rule, key_of(fadd), fadd.site, f"Sim.add appends every attribute it is given, once each, in order (no de-duplication by value): {ok}",
            why="a second analysis / save / measurement that compares equal to an earlier one is silently dropped from the simulation input")
    R.floor("C17.1-dispatch-complete", 20)
    R.floor("C17.8-field-coverage", 12)


def dispatch(repo: Repo, R, noret):
    rule = "C17.1-dispatch-complete"
    sa = set(union(repo, F_SIMDATA, "SimAttr"))
    an = union(repo, F_SIMDATA, "Analysis")
    ct = union(repo, F_SIMDATA, "Control")
    sw = union(repo, F_SIMDATA, "Sweep")
    R.check(sa == set(an) | set(ct) | {"Options"}, rule, f"{F_SIMDATA}::SimAttr", F_SIMDATA, f"SimAttr = Analysis ∪ Control ∪ Options: {sorted(sa)}", why="an attribute kind is accepted by Sim but belongs to no export group")
    fe = repo.func(F_SIMPROTO, "SimProtoExporter.export_attr")
    txt = ast.unparse(fe.node)
    groups = {"Options": "isinstance(attr, data.Options)" in txt and "self.inp.opts.append(export_options(attr))" in txt,
              "Analysis": "is_analysis(attr)" in txt and "self.inp.an.append(self.export_analysis(attr))" in txt,
              "Control": "is_control(attr)" in txt and "self.inp.ctrls.append(export_control(attr))" in txt}
    falls = au.default_raises(fe.node.body, noret) or _chain_else_raises(fe, noret)
    R.check(all(groups.values()) and falls, rule, key_of(fe), fe.site, f"export_attr routes options/analyses/controls to opts/an/ctrls: {groups}; anything else raises: {falls}", why="a group of attributes is dropped or appended to the wrong list")
    for name, pred in (("is_analysis", "Analysis"), ("is_control", "Control"), ("is_simattr", "SimAttr"), ("is_sweep", "Sweep")):
        f = repo.func(F_SIMDATA, name)
        ok = bool(pat.find(f"isinstance($V, {pred}.__args__)", f.node))
        R.check(ok, rule, key_of(f), f.site, f"{name} tests membership in the {pred} union: {ok}", why=f"{name} misclassifies attributes")

    def arm_table(fi, subject, members, table, ctor, selfcall):
        a = arms(fi, subject)
        for cls in members:
            n = a.get(cls)
            if n is None:
                R.bad(rule, key_of(fi, cls), fi.site, f"{fi.name} has no arm for {cls}", f"{cls} raises TypeError on export")
                continue
            field, meth = table[cls] if isinstance(table[cls], tuple) else (table[cls], None)
            ret = n.body[-1]
            got = ast.unparse(ret.value) if isinstance(ret, ast.Return) and ret.value is not None else ""
            if meth is not None:
                want = f"{ctor}({field}={'self.' if selfcall else ''}{meth}({subject}))"
                ok = got == want
            else:
                ok = got.startswith(f"{ctor}({field}=vsp.{cls}(")
                want = f"{ctor}({field}=vsp.{cls}(...))"
            R.check(ok, rule, key_of(fi, cls), fi.at(n), f"{cls} -> `{got[:80]}`; expected `{want}`", why=f"a {cls} is exported into the wrong variant of the VLSIR message")
        extra = set(a) - set(members)
        fall = _chain_else_raises(fi, noret) or au.default_raises(fi.node.body, noret)
        R.check(fall, rule, key_of(fi, "else-raises"), fi.site, f"{fi.name}: unknown variants raise: {fall}", why="an unknown variant exports as an empty message")

    arm_table(repo.func(F_SIMPROTO, "SimProtoExporter.export_analysis"), "an", an, ANALYSIS_ARMS, "vsp.Analysis", True)
    arm_table(repo.func(F_SIMPROTO, "export_control"), "ctrl", ct, CONTROL_ARMS, "vsp.Control", False)
    arm_table(repo.func(F_SIMPROTO, "SimProtoExporter.export_sweep"), "sweep", sw, SWEEP_ARMS, "vsp.Sweep", False)
    # save targets
    fs = repo.func(F_SIMPROTO, "export_save")
    forms = _save_forms(fs)
    want = ["SaveMode", "Signal", "str", "list[Signal]", "list[str]"]
    missing = [w for w in want if w not in forms]
    R.check(not missing, rule, key_of(fs, "forms"), fs.site, f"export_save recognises target forms {forms}; documented SaveTarget forms {want}" + (f"; MISSING {missing}" if missing else ""),
            why="a documented save target form raises TypeError in the exporter")
    modes = _save_modes(fs)
    ok = modes.get("ALL") == "vsp.Save.SaveMode.ALL" and modes.get("NONE") == "vsp.Save.SaveMode.NONE"
    R.check(ok, rule, key_of(fs, "modes"), fs.site, f"save modes: {modes}", why="Save(ALL) exports as NONE or vice versa")
    join = {k: v for k, v in forms.items() if k.startswith("list")}
    ok = forms.get("Signal") == "save.targ.name" and forms.get("str") == "save.targ" and forms.get("list[Signal]") in ("','.join((s.name for s in save.targ))", "','.join([s.name for s in save.targ])") and forms.get("list[str]") in ("','.join([s for s in save.targ])", "','.join(save.targ)")
    R.check(ok, rule, key_of(fs, "payload"), fs.site, f"save payloads: {forms}", why="the saved signal names are wrong or in the wrong order")


def _chain_else_raises(fi: FuncInfo, noret) -> bool:
    for n in fi.node.body:
        if isinstance(n, ast.If):
            cur = n
            while len(cur.orelse) == 1 and isinstance(cur.orelse[0], ast.If):
                cur = cur.orelse[0]
            if cur.orelse and au.raises(cur.orelse, noret):
                return True
    return False


def _save_forms(fs: FuncInfo) -> Dict[str, str]:
    """{target form: exported payload}, read from what the function returns on each path: for every return and
    every alternative of its value, the form is decided by the tests on `save.targ` that govern it (its class,
    and for lists the class of all elements).  The shape of the dispatch (elif chain, guard clauses, nested ifs,
    a local `signal` or direct returns, an extracted helper) does not matter."""
    forms: Dict[str, str] = {}
    for r in shared.returns_of(fs.node):
        if r.value is None:
            continue
        for v, cds in shared.alternatives(fs.node, r.value, list(shared.path_conditions(fs.node, r))):
            kinds = {"SaveMode", "Signal", "str", "list", "<other>"}
            elem = None
            for t, pol in cds:
                t = shared.prov(fs.node, t)
                tests = t.values if isinstance(t, ast.BoolOp) and isinstance(t.op, ast.And) and pol else [t]
                for x in tests:
                    rr = au.isinstance_classes(x) if isinstance(x, ast.Call) else None
                    if rr is not None and ast.unparse(rr[0]) == "save.targ":
                        ks = {ast.unparse(c).split(".")[-1].replace("List", "list") for c in rr[1]}
                        kinds = (kinds & ks) if pol else (kinds - ks)
                    m = pat.match("all($G)", x) if pol else None
                    if m is not None and isinstance(m["G"], (ast.GeneratorExp, ast.ListComp)) and len(m["G"].generators) == 1 and ast.unparse(m["G"].generators[0].iter) == "save.targ":
                        mm = pat.match("isinstance($X, $T)", m["G"].elt)
                        if mm is not None and ast.unparse(m["G"].generators[0].target) == ast.unparse(mm["X"]):
                            elem = ast.unparse(mm["T"])
            if len(kinds) != 1:
                continue
            k = next(iter(kinds))
            vv = shared.prov(fs.node, v)
            ms = pat.match("vsp.Save(signal=$S)", vv)
            mm_ = pat.match("vsp.Save(mode=$M)", vv)
            if k == "SaveMode" and mm_ is not None:
                forms["SaveMode"] = "mode"
            elif k in ("Signal", "str") and ms is not None:
                forms[k] = ast.unparse(ms["S"]).replace('"', "'")
            elif k == "list" and elem is not None and ms is not None:
                forms[f"list[{elem}]"] = ast.unparse(ms["S"]).replace('"', "'")
    return forms


def _save_modes(fs: FuncInfo) -> Dict[str, str]:
    """{SaveMode member tested: exported mode}."""
    out: Dict[str, str] = {}
    for r in shared.returns_of(fs.node):
        if r.value is None:
            continue
        for v, cds in shared.alternatives(fs.node, r.value, list(shared.path_conditions(fs.node, r))):
            mm_ = pat.match("vsp.Save(mode=$M)", shared.prov(fs.node, v))
            if mm_ is None:
                continue
            for t, pol in cds:
                m = pat.match("save.targ == data.SaveMode.$_", shared.prov(fs.node, t)) if False else None
                tx = ast.unparse(shared.prov(fs.node, t))
                if pol and tx.startswith("save.targ == data.SaveMode."):
                    out[tx.split(".")[-1]] = ast.unparse(mm_["M"])
    return out


def isinstance_valid(repo: Repo, R):
    rule = "C17.2-isinstance-arguments-valid"
    bad = []
    n = 0
    for fi in repo.funcs_in("hdl21/"):
        for c in au.calls_in(fi.node):
            r = au.isinstance_classes(c)
            if r is None:
                continue
            n += 1
            for cls in r[1]:
                if isinstance(cls, ast.Subscript):
                    bad.append((fi, c))
    for fi, c in bad:
        R.bad(rule, key_of(fi, ast.unparse(c)), fi.at(c), f"`{ast.unparse(c)}`: a subscripted generic as second argument of isinstance raises TypeError at run time", "the arm (and every arm after it) is unreachable: the export raises TypeError")
    R.ok(rule, "hdl21/", "hdl21/", f"{n} isinstance calls inspected in hdl21/, {len(bad)} with a subscripted generic")
    probe = ast.parse("isinstance(x, List[int])").body[0].value
    if not isinstance(au.isinstance_classes(probe)[1][0], ast.Subscript):
        raise AnalysisError("self-check of the isinstance scanner failed")


MAGIC = {"BundleInstance": F_BUNDLE, "BundleRef": F_BUNDLE, "Instance": F_INSTANCE, "PortRef": F_PORTREF}


def narrowed_attrs(repo: Repo, R):
    """Attribute reads on a variable inside `isinstance(var, C)` for classes whose
    __getattr__ manufactures references: the attribute must really exist."""
    rule = "C17.3-attributes-exist-on-narrowed-receivers"
    n = 0
    for rel in (F_SIMPROTO, F_EXPORT, F_SIMDATA):
        for fi in repo.funcs_in(rel):
            for node in au.walk_no_nested(fi.node):
                if not isinstance(node, ast.If):
                    continue
                r = au.isinstance_classes(node.test) if isinstance(node.test, ast.Call) else None
                if not r or not isinstance(r[0], (ast.Name, ast.Attribute)) or len(r[1]) != 1:
                    continue
                cname = (dotted(r[1][0]) or "").split(".")[-1]
                if cname not in MAGIC:
                    continue
                ci = repo.cls(MAGIC[cname], cname)
                have = shared.instance_attrs(repo, ci)
                var = ast.unparse(r[0])
                for x in ast.walk(ast.Module(node.body, [])):
                    if isinstance(x, ast.Attribute) and isinstance(x.value, (ast.Name, ast.Attribute)) and ast.unparse(x.value) == var and isinstance(x.ctx, ast.Load):
                        n += 1
                        ok = x.attr in have
                        if cname in ("BundleInstance",) and not ok:
                            # member access (b.p) is legitimate magic only before elaboration; the exporters run after it
                            pass
                        R.check(ok, rule, key_of(fi, f"{var}.{x.attr}"), fi.at(x),
                                f"`{var}.{x.attr}` under isinstance({var}, {cname}): " + ("attribute exists" if ok else f"{cname} has no attribute `{x.attr}` (has {sorted(a for a in have if not a.startswith('_'))}); after elaboration __getattr__ raises AttributeError"),
                                why="the export of this variant raises AttributeError (or silently manufactures a reference object)")
    if n < 1:
        raise AnalysisError("anchor-vanished: no narrowed attribute reads found in the exporters")


def order_and_names(repo: Repo, R, noret):
    rule = "C17.4-order-multiplicity-names"
    fx = repo.func(F_SIMPROTO, "SimProtoExporter.export")
    loops = [n for n in au.walk_no_nested(fx.node) if isinstance(n, ast.For) and ast.unparse(n.iter) == "self.sim.attrs"]
    ok = len(loops) == 1 and bool(pat.find("self.export_attr($A)", loops[0])) and not any(isinstance(x, (ast.Break, ast.Continue, ast.Return)) for x in ast.walk(loops[0]))
    R.check(ok, rule, key_of(fx, "one-pass-in-order"), fx.site, f"every attribute of sim.attrs is exported once, in order: {ok}", why="attributes are skipped, duplicated or reordered")
    for meth, attr in (("export_sweep_analysis", "swp_an"), ("export_monte", "monte")):
        f = repo.func(F_SIMPROTO, f"SimProtoExporter.{meth}")
        a = f.node.args.args[1].arg
        ok = bool(pat.find(f"[self.export_analysis($A) for $A in {a}.inner]", f.node))
        R.check(ok, rule, key_of(f, "inner"), f.site, f"{meth} exports every inner analysis recursively, in order: {ok}", why="nested analyses are lost")
    # the generated names, by role: `Analysis<counter>`, the counter read and then incremented by one — in a helper method
    # every exporter calls for unnamed analyses, or written out in the exporters themselves
    ci = repo.cls(F_SIMPROTO, "SimProtoExporter")
    GEN = "f'Analysis{self.analysis_count}'"

    def _incs(node):
        return [n for n in au.walk_no_nested(node) if isinstance(n, ast.AugAssign) and ast.unparse(n.target) == "self.analysis_count" and isinstance(n.op, ast.Add) and ast.unparse(n.value) == "1"]

    helpers = {}
    for mname, m in ci.methods.items():
        rets = shared.returns_of(m.node)
        if len(rets) == 1 and rets[0].value is not None and shared.prov_text(m.node, rets[0].value) == GEN and len(m.node.args.args) == 1:
            helpers[mname] = m
    for mname, fn in helpers.items():
        incs = _incs(fn.node)
        cond = any(isinstance(n, (ast.If, ast.For, ast.While)) for n in au.walk_no_nested(fn.node))
        R.check(len(incs) == 1 and not cond, rule, key_of(fn), fn.site, f"{mname} names by the counter and increments it unconditionally on every call ({len(incs) == 1 and not cond})", why="two unnamed analyses receive the same generated name")
    init = repo.func(F_SIMPROTO, "SimProtoExporter.__init__")
    R.check(bool(pat.find("self.analysis_count = 0", init.node)), rule, key_of(init), init.site, "the counter starts at 0 per exported Sim", why="names depend on earlier exports")
    n_named = 0
    for cls, (_f, meth) in ANALYSIS_ARMS.items():
        f = repo.func(F_SIMPROTO, f"SimProtoExporter.{meth}")
        a = f.node.args.args[1].arg
        kw_ok = None
        how = ""
        alts = []
        sites = []
        for c in au.calls_in(f.node):
            for k in c.keywords:
                if k.arg == "analysis_name":
                    sites.append(c)
                    alts += [(ast.unparse(v), shared.resolved_conditions(f.node, cds)) for v, cds in shared.alternatives(f.node, k.value, shared.path_conditions(f.node, c), at=c)]
        if sites:
            n_named += 1
            c = sites[0]
            if True:
                texts = {t for t, _c in alts}
                via_helper = {f"{a}.name or self.{h_}()" for h_ in helpers}
                if texts and texts <= via_helper:
                    here, how = True, "the user's name, or the counter helper's"
                else:
                    # written out: the user's name when there is one, else the generated one, the counter stepped on that path only
                    def named(cds):
                        for t_, p_ in cds:
                            if ast.unparse(t_) == f"{a}.name":
                                return p_
                        return None
                    here = bool(alts) and all((t == f"{a}.name" and named(cds) is True) or (t == GEN and named(cds) is False) for t, cds in alts) and texts == {f"{a}.name", GEN}
                    incs = _incs(f.node)
                    here = here and len(incs) == 1 and any(ast.unparse(t_) == f"{a}.name" and p_ is False for t_, p_ in shared.resolved_conditions(f.node, shared.path_conditions(f.node, incs[0])))
                    # read, then step
                    gens = [st for st in au.walk_no_nested(f.node) if isinstance(st, (ast.Assign, ast.Return, ast.Expr)) and GEN in ast.unparse(st)]
                    here = here and bool(gens) and all(shared.precedes(f.node, g_, incs[0]) for g_ in gens) if here else False
                    how = "written out: the user's name, else Analysis<counter> with the counter stepped once on that path"
                kw_ok = here if kw_ok is None else (kw_ok and here)
        R.check(bool(kw_ok), rule, key_of(f, "analysis-name"), f.site, f"{meth}: analysis_name is the user's name or a fresh generated one ({how}): {bool(kw_ok)}", why="a named analysis loses its name, or an unnamed one gets an empty or a repeated name")
    if n_named < 6:
        raise AnalysisError(f"anchor-vanished: only {n_named} analysis_name fields found")


def testbench(repo: Repo, R, noret):
    rule = "C17.6-testbench"
    fx = repo.func(F_SIMPROTO, "SimProtoExporter.export")
    g = shared.fails_unless(fx.node, "data.is_tb(self.sim.tb)", noret)
    ctor = [c for c, _b in pat.find("vsp.SimInput(*$_)", fx.node)]
    before = g is not None and ctor and any(t is g.test and pol for t, pol in shared.path_conditions(fx.node, ctor[0]))
    kw = {k.arg: ast.unparse(k.value) for k in ctor[0].keywords} if ctor else {}
    R.check(bool(before) and kw.get("top") == "qualname(self.sim.tb)" and kw.get("pkg") == "self.pkg", rule, key_of(fx), fx.site,
            f"the testbench interface is checked (and failure raises) before the SimInput is built: {bool(before)}; SimInput(pkg=self.pkg, top=qualname(self.sim.tb)): {kw}",
            why="a module with several or bus ports is simulated as a testbench; or top names another module")
    ft = repo.func(F_SIMPROTO, "to_proto")
    ok = None
    for c2 in [x for x in ast.walk(ft.node) if isinstance(x, ast.ListComp)]:
        b2 = pat.match("[SimProtoExporter(sim=$S, pkg=$P).export() for $S in $L2]", c2)
        if b2 is None:
            continue
        pc = shared.path_conditions(ft.node, c2)
        # the sequence of Sims on each path: the argument itself, or the one-element list of it
        l_alts = [(ast.unparse(v), c) for v, c in shared.alternatives(ft.node, b2["L2"], pc, at=c2)]
        here = bool(l_alts) and {t for t, _c in l_alts} <= {"inp", "[inp]"}
        # the package every Sim is exported against: on each path, the co-export of the testbenches of that same sequence
        for pv, c1 in shared.alternatives(ft.node, b2["P"], pc, at=c2):
            b1 = pat.match("module_to_proto([$I.tb for $I in $L])", pv)
            if b1 is None and ast.unparse(pv) == "module_to_proto([inp.tb])":
                # (the comprehension over the one-element list `[inp]`, written out by the canonical expression form)
                for lt, cl in l_alts:
                    if not shared._contradict(c1, cl) and lt != "[inp]":
                        here = False
                continue
            if b1 is None:
                here = False
                continue
            for lt, cl in l_alts:
                if not shared._contradict(c1, cl) and lt != ast.unparse(b1["L"]):
                    here = False
        ok = here if ok is None else (ok and here)
    ok = bool(ok)
    R.check(ok, rule, key_of(ft), ft.site, f"all testbenches are co-exported into one package, then every Sim is exported against it, in order: {ok}", why="a testbench is exported twice (or not at all) when several Sims are exported together")
    fi = repo.func(F_SIMDATA, "is_tb")
    a = fi.node.args.args[0].arg
    from .. import fde

    one = scal = False
    try:
        def m_kind(t):
            r = au.isinstance_classes(t) if isinstance(t, ast.Call) else None
            return r is not None and ast.unparse(r[0]) == a

        def m_one(t):
            s_ = shared.prov_text(fi.node, t)
            return True if s_ in (f"len({a}.ports) == 1", f"1 == len({a}.ports)", f"len(list({a}.ports.values())) == 1", f"len({a}.ports.values()) == 1") else False

        # `(p,) = <the ports>` names the single element
        unpack = {}
        for st in au.stmts(fi.node):
            if isinstance(st, ast.Assign) and len(st.targets) == 1 and isinstance(st.targets[0], (ast.Tuple, ast.List)) and len(st.targets[0].elts) == 1 and isinstance(st.targets[0].elts[0], ast.Name):
                unpack[st.targets[0].elts[0].id] = ast.parse(f"({shared.prov_text(fi.node, st.value)})[0]", mode="eval").body

        def norm_ret(v):
            return ast.unparse(au.expand(shared.prov(fi.node, v), unpack)).replace(f"(list({a}.ports.values()))[0]", f"list({a}.ports.values())[0]")

        body = [st for st in fi.node.body if not (isinstance(st, ast.Expr) and isinstance(st.value, ast.Constant))]
        tab = fde.decision_table(body, [("kind", m_kind), ("one", m_one)], ["<return>"], norm_ret, tolerant=True)
        one = tab[(True, False)]["<return>"] == "False"
        scal = tab[(True, True)]["<return>"] in (f"list({a}.ports.values())[0].width == 1", f"next(iter({a}.ports.values())).width == 1")
    except fde.Unknown:
        pass
    R.check(one and scal, rule, key_of(fi), fi.site, f"is_tb: exactly one port ({one}) of width one ({scal})", why="a testbench that does not have exactly one scalar port is accepted")


def numeric(repo: Repo, R):
    rule = "C17.7-numeric-fields-single-float-conversion"
    fe = repo.func(F_SIMPROTO, "export_float")
    a = fe.node.args.args[0].arg
    ok = any(isinstance(n, ast.If) and "Prefixed" in ast.unparse(n.test) and ast.unparse(n.body[-1]) == f"return float({a})" for n in au.walk_no_nested(fe.node))
    passthru = any(isinstance(n, ast.If) and ast.unparse(n.test) == f"isinstance({a}, float)" and ast.unparse(n.body[-1]) == f"return {a}" for n in au.walk_no_nested(fe.node))
    fall = au.default_raises(fe.node.body)
    R.check(ok and passthru and fall, rule, key_of(fe), fe.site, f"export_float: Prefixed/int/Decimal -> float(x) once ({ok}); floats unchanged ({passthru}); other types raise ({fall})", why="numeric simulation inputs are not the float nearest the prefixed value")
    # every numeric proto field goes through export_float
    n = 0
    for meth, fmap in FIELD_MAP.items():
        f = repo.func(F_SIMPROTO, f"SimProtoExporter.{meth}")
        a = f.node.args.args[1].arg
        for c in au.calls_in(f.node):
            for k in c.keywords:
                if k.arg in ("fstart", "fstop", "tstop", "tstep", "start", "stop", "step"):
                    n += 1
                    want = f"export_float({a}.{fmap.get(k.arg, k.arg)})"
                    R.check(ast.unparse(k.value) == want, rule, key_of(f, k.arg), f.at(c), f"{meth}: {k.arg} = `{ast.unparse(k.value)}`; expected `{want}`", why=f"{k.arg} carries another field's value (e.g. start/stop swapped)")
    fs = repo.func(F_SIMPROTO, "SimProtoExporter.export_sweep")
    a = fs.node.args.args[1].arg
    for c in au.calls_in(fs.node):
        cname = dotted(c.func) or ""
        if cname in ("vsp.LinearSweep", "vsp.LogSweep"):
            for k in c.keywords:
                n += 1
                want = f"export_float({a}.{k.arg})"
                R.check(ast.unparse(k.value) == want, rule, key_of(fs, f"{cname}.{k.arg}"), fs.at(c), f"{cname}: {k.arg} = `{ast.unparse(k.value)}`; expected `{want}`", why="sweep bounds are exchanged")
        if cname == "vsp.PointSweep":
            ok = bool(pat.match(f"vsp.PointSweep(points=[export_float($X) for $X in {a}.points])", c))
            R.check(ok, rule, key_of(fs, "points"), fs.at(c), f"PointSweep exports every point in order: {ok}", why="sweep points are dropped or reordered")
    if n < 10:
        raise AnalysisError(f"anchor-vanished: only {n} numeric proto fields found")


def field_coverage(repo: Repo, R):
    """Every field of every data class is read by the arm that exports it."""
    rule = "C17.8-field-coverage"
    readers = {
        "Op": ["SimProtoExporter.export_op"], "Dc": ["SimProtoExporter.export_dc"], "Ac": ["SimProtoExporter.export_ac"], "Tran": ["SimProtoExporter.export_tran"],
        "Noise": ["SimProtoExporter.export_noise"], "SweepAnalysis": ["SimProtoExporter.export_sweep_analysis"], "MonteCarlo": ["SimProtoExporter.export_monte"],
        "CustomAnalysis": ["SimProtoExporter.export_custom_analysis"], "LinearSweep": ["SimProtoExporter.export_sweep"], "LogSweep": ["SimProtoExporter.export_sweep", "SimProtoExporter.export_ac", "SimProtoExporter.export_noise"],
        "PointSweep": ["SimProtoExporter.export_sweep"], "Include": ["export_include"], "Lib": ["export_lib"], "Save": ["export_save"], "Meas": ["export_meas"], "Param": ["export_param", "SimProtoExporter.export_sweep_variable"],
        "Options": ["export_options"],
    }
    for cls, fns in readers.items():
        ci = repo.cls(F_SIMDATA, cls)
        fields = [st.target.id for st in ci.node.body if isinstance(st, ast.AnnAssign) and isinstance(st.target, ast.Name)]
        read: Set[str] = set()
        for q in fns:
            f = repo.func(F_SIMPROTO, q)
            for n in ast.walk(f.node):
                if isinstance(n, ast.Attribute) and isinstance(n.ctx, ast.Load):
                    read.add(n.attr)
        missing = [f for f in fields if f not in read and (cls, f) not in EXEMPT_FIELDS]
        R.check(not missing, rule, f"{F_SIMDATA}::{cls}", ci.site, f"{cls} fields {fields}; read by {fns}: " + ("all" if not missing else f"NOT READ {missing}"),
                why=f"field `{missing[0] if missing else '?'}` of a {cls} never reaches the SimInput")
