"""C12 — output is reproducible across processes.

F6 UNORDERED → ORDERED: every iteration over an address- or str-hashed set whose
loop body (through the call graph) inserts new keys into an ordered container of
the design (Instance.conns, Module namespaces) or produces names must impose an
order first.  Direct effects only (DESIGN §3 F6): order propagated through local
accumulators is outside the rule.  Second rule: no id()/hash()/repr() flows into
a name-producing function.
"""

from __future__ import annotations

import ast
from typing import Dict, List, Optional, Set, Tuple

from ..core import AnalysisError, FuncInfo, Repo, dotted
from .. import au, pat
from .common import *  # noqa
from .common import key_of, noreturn_set

ORDER_SENSITIVE = {"connect": "inserts a new key into Instance.conns", "disconnect": "removes a key that a later connect re-inserts at the end of Instance.conns",
                   "add": "inserts into a Module's ordered containers", "flatname": "chooses a collision-avoiding name (depends on what was inserted before)"}


# objects known to be instances of the set-owning cache classes (`X = C()` at module / class level, and local aliases of them)
NEEDS_PDKS = True  # the walker-state clause covers the PDK packages

OWNER_OBJECTS = {"_mgr", "CLASS_LEVEL_CACHE", "Cache", "cache", "the_cache", "THE_CACHE"}


def set_attributes(repo: Repo) -> Set[str]:
    """Attribute names that hold sets, read from constructors and dataclass fields."""
    out: Set[str] = set()
    for fi in repo.funcs_in("hdl21/"):
        if fi.name not in ("__init__", "__post_init__"):
            continue
        for n in ast.walk(fi.node):
            if isinstance(n, (ast.Assign, ast.AnnAssign)) and n.value is not None:
                tg = n.targets[0] if isinstance(n, ast.Assign) else n.target
                if isinstance(tg, ast.Attribute) and ast.unparse(n.value) in ("set()", "WeakSet()", "frozenset()"):
                    out.add(tg.attr)
    for ci in repo.classes_in("hdl21/"):
        for st in ci.node.body:
            if isinstance(st, ast.AnnAssign) and isinstance(st.target, ast.Name) and "Set[" in ast.unparse(st.annotation):
                out.add(st.target.id)
    return out


def _iter_source(it: ast.AST, sets: Set[str]) -> Tuple[Optional[str], bool]:
    """(set attribute iterated, ordered?)"""
    ordered = False
    e = it
    while isinstance(e, ast.Call):
        nm = dotted(e.func) or ""
        if nm == "sorted":
            ordered = True
        if nm.split(".")[-1] in ("list", "tuple", "iter", "sorted", "reversed", "enumerate", "copy") and e.args:
            e = e.args[0]
            continue
        if isinstance(e.func, ast.Attribute) and e.func.attr == "copy":
            e = e.func.value
            continue
        break
    if isinstance(e, ast.Attribute) and e.attr in sets:
        if not e.attr.startswith("_"):
            # public attribute names are ambiguous (protobuf `pkg.modules` is a list): require a known owner object
            recv = ast.unparse(e.value).split(".")[-1]
            if recv not in OWNER_OBJECTS:
                return None, ordered
        return e.attr, ordered
    return None, ordered


def effects(repo: Repo, fi: FuncInfo, node: ast.AST, depth=4, seen=None) -> Dict[str, str]:
    seen = seen if seen is not None else set()
    out: Dict[str, str] = {}
    for c in au.calls_in(node, nested=True):
        f = c.func
        if isinstance(f, ast.Attribute):
            recv = ast.unparse(f.value)
            if f.attr in ("connect", "disconnect") and not recv.startswith(("self.", "THE_CACHE")):
                out.setdefault(f.attr, f"{fi.qual}: `{ast.unparse(c)[:60]}`")
            if f.attr == "add" and recv in ("module", "m"):
                out.setdefault("add", f"{fi.qual}: `{ast.unparse(c)[:60]}`")
            if f.attr == "flatname":
                out.setdefault("flatname", f"{fi.qual}: `{ast.unparse(c)[:60]}`")
        if depth > 0:
            r = repo.resolve_call(c, fi)
            if isinstance(r, FuncInfo) and r.file.rel.startswith("hdl21/") and (r.file.rel, r.qual) not in seen:
                if r.file.rel == F_INSTANCE and r.name in ("connect", "disconnect", "replace"):
                    continue
                seen.add((r.file.rel, r.qual))
                for k, v in effects(repo, r, r.node, depth - 1, seen).items():
                    out.setdefault(k, v)
    return out


def sorting_helper(repo: Repo, fi: FuncInfo, it: ast.AST) -> bool:
    """The iterable is a call of a repo function that returns `sorted(<its argument>, key=...)`."""
    if not isinstance(it, ast.Call):
        return False
    r = repo.resolve_call(it, fi)
    if not isinstance(r, FuncInfo) or not r.node.args.args:
        return False
    a = r.node.args.args[0].arg
    rets = [n for n in au.walk_no_nested(r.node) if isinstance(n, ast.Return)]
    return len(rets) == 1 and bool(pat.match(f"sorted({a}, key=$K)", rets[0].value))


_SET_OPS = (ast.Sub, ast.BitOr, ast.BitAnd, ast.BitXor)
_ORDER_FREE_CONSUMERS = {"set", "frozenset", "sorted", "any", "all", "sum", "len", "min", "max"}
_ORDER_CARRYING = {"append", "extend", "insert", "add", "connect", "disconnect", "setdefault", "update", "write", "flatname", "join"}


def _all_defs(fn: ast.AST) -> Dict[str, List[ast.AST]]:
    defs: Dict[str, List[ast.AST]] = {}
    for n in ast.walk(fn):
        if isinstance(n, ast.Assign) and len(n.targets) == 1 and isinstance(n.targets[0], ast.Name):
            defs.setdefault(n.targets[0].id, []).append(n.value)
        elif isinstance(n, ast.AnnAssign) and isinstance(n.target, ast.Name) and n.value is not None:
            defs.setdefault(n.target.id, []).append(n.value)
    return defs


def set_typed(e: ast.AST, defs: Dict[str, List[ast.AST]], depth: int = 0) -> bool:
    """The expression is (a re-listing of) a set built in this function: its iteration order is hash order."""
    if depth > 5:
        return False
    if isinstance(e, (ast.Set, ast.SetComp)):
        return True
    if isinstance(e, ast.Call):
        f = e.func
        if isinstance(f, ast.Name) and f.id in ("set", "frozenset"):
            return True
        if isinstance(f, ast.Name) and f.id in ("list", "tuple", "iter", "reversed", "enumerate") and e.args:
            return set_typed(e.args[0], defs, depth + 1)
        if isinstance(f, ast.Attribute) and f.attr in ("union", "intersection", "difference", "symmetric_difference", "copy"):
            return set_typed(f.value, defs, depth + 1)
        return False
    if isinstance(e, ast.BinOp) and isinstance(e.op, _SET_OPS):
        def view(x):
            return isinstance(x, ast.Call) and isinstance(x.func, ast.Attribute) and x.func.attr in ("keys", "items") and not x.args
        return set_typed(e.left, defs, depth + 1) or set_typed(e.right, defs, depth + 1) or view(e.left) or view(e.right)
    if isinstance(e, ast.Name):
        return any(set_typed(v, defs, depth + 1) for v in defs.get(e.id, []))
    return False


def local_set_iterations(fn: ast.AST) -> List[Tuple[ast.AST, str, str]]:
    """(node, iterated expression, how the order escapes) for each iteration over a locally built set whose
    order can reach an ordered result.  Order-free consumers (set/sorted/any/all/sum/len/min/max, set
    comprehensions, loop bodies without accumulating calls, stores or yields) are not listed."""
    defs = _all_defs(fn)
    par = au.parents(fn)
    out = []
    for n in ast.walk(fn):
        if isinstance(n, (ast.ListComp, ast.DictComp, ast.GeneratorExp)):
            hit = [g.iter for g in n.generators if set_typed(g.iter, defs)]
            if not hit:
                continue
            up = par.get(n)
            if isinstance(n, ast.GeneratorExp) and isinstance(up, ast.Call) and isinstance(up.func, ast.Name) and up.func.id in _ORDER_FREE_CONSUMERS:
                continue
            if isinstance(n, ast.ListComp) and isinstance(up, ast.Call) and isinstance(up.func, ast.Name) and up.func.id in _ORDER_FREE_CONSUMERS:
                continue
            out.append((n, ast.unparse(hit[0]), f"the {type(n).__name__} keeps the set's iteration order"))
        elif isinstance(n, ast.For) and set_typed(n.iter, defs):
            how = None
            for b in n.body:
                for x in ast.walk(b):
                    if isinstance(x, ast.Call) and isinstance(x.func, ast.Attribute) and x.func.attr in _ORDER_CARRYING and not set_typed(x.func.value, defs):
                        how = how or f"`{ast.unparse(x)[:50]}` in the loop body accumulates in iteration order"
                    if isinstance(x, (ast.Yield, ast.YieldFrom)):
                        how = how or "the loop yields in iteration order"
                    if isinstance(x, (ast.Assign, ast.AugAssign)):
                        tg = x.targets[0] if isinstance(x, ast.Assign) else x.target
                        if isinstance(tg, ast.Subscript) and not set_typed(tg.value, defs):
                            how = how or f"`{ast.unparse(x)[:50]}` inserts keys in iteration order"
            if how:
                out.append((n, ast.unparse(n.iter), how))
        elif isinstance(n, ast.Starred) and set_typed(n.value, defs) and isinstance(par.get(n), ast.Call):
            up = par[n]
            if not (isinstance(up.func, ast.Name) and up.func.id in _ORDER_FREE_CONSUMERS):
                out.append((n, ast.unparse(n.value), "the set is unpacked into positional arguments in iteration order"))
    return out


_POSITIVE_SAMPLE = """
def sample(m, series):
    par = set(m.ports.values()) - set(series)
    conns = {p.name: p for p in par}
    ok = all(p.name for p in par)
    names = sorted(p.name for p in par)
    return conns
"""


def check(repo: Repo, R) -> None:
    rule = "C12.1-set-iteration-order-not-observable"
    sets = set_attributes(repo)
    R.note(f"set-typed attributes: {sorted(sets)}")
    if not {"_connected_ports", "_slices", "_concats", "pending", "done"} <= sets:
        raise AnalysisError(f"anchor-vanished: set-typed attribute table is {sorted(sets)}")
    n = 0
    for fi in list(repo.funcs_in("hdl21/")):
        loops = [(lp, lp.iter) for lp in au.walk_no_nested(fi.node) if isinstance(lp, (ast.For, ast.AsyncFor))]
        for comp in au.walk_no_nested(fi.node):
            if isinstance(comp, (ast.ListComp, ast.GeneratorExp, ast.DictComp)):
                for g in comp.generators:
                    loops.append((comp, g.iter))
        for lp, it in loops:
            inner = it
            helper_sorted = False
            if isinstance(it, ast.Call) and sorting_helper(repo, fi, it) and it.args:
                helper_sorted = True
                inner = it.args[0]
            attr, ordered = _iter_source(inner, sets)
            if attr is None:
                continue
            ordered = ordered or helper_sorted
            n += 1
            body = ast.Module(lp.body, []) if isinstance(lp, ast.For) else lp
            eff = effects(repo, fi, body)
            sens = {k: v for k, v in eff.items() if k in ORDER_SENSITIVE}
            if not sens:
                R.ok(rule, key_of(fi, f"for-in-{attr}"), fi.at(lp), f"iteration over the set `{ast.unparse(it)}`: the loop body only has per-element, commutative effects ({sorted(eff) or 'none on the design'})", nontrivial=True)
                continue
            R.check(ordered, rule, key_of(fi, f"for-in-{attr}"), fi.at(lp),
                    f"iteration over the address-hashed set `{ast.unparse(it)}` reaches order-sensitive effects {{{'; '.join(f'{k}: {v}' for k, v in sens.items())}}}; "
                    + ("an order is imposed first (sorted by names)" if ordered else "NO order is imposed"),
                    why="the order of an instance's connections (or of generated names) in the package changes with PYTHONHASHSEED / allocation history when one bundle feeds several ports")
    # picking "an" element of a set (next(iter(S)), S.pop(), list(S)[0]) observes the hash order unless S has exactly one
    from . import shared as _shp
    npick = 0
    for fi in list(repo.funcs_in("hdl21/")):
        for c in au.calls_in(fi.node, nested=True):
            src = None
            if isinstance(c.func, ast.Name) and c.func.id == "next" and c.args and isinstance(c.args[0], ast.Call) and isinstance(c.args[0].func, ast.Name) and c.args[0].func.id == "iter" and c.args[0].args:
                src = c.args[0].args[0]
            elif isinstance(c.func, ast.Attribute) and c.func.attr == "pop" and not c.args:
                src = c.func.value
            if src is None or _iter_source(src, sets)[0] is None:
                continue
            npick += 1
            stxt = ast.unparse(src)
            one = _shp.conds_imply(_shp.resolved_conditions(fi.node, _shp.path_conditions(fi.node, c)), [(_shp.parse_cond(f"len({stxt}) == 1"), True)]) is True
            R.check(one, rule, key_of(fi, f"pick-from-{_iter_source(src, sets)[0]}"), fi.at(c),
                    f"`{ast.unparse(c)[:60]}` takes an element of the address-hashed set `{stxt}`" + (" where it is known to hold exactly one" if one else " without knowing that it holds exactly one: WHICH element depends on the hash order"),
                    why="with several PDKs registered and no default set, the PDK a design is compiled to changes from one process to the next")
    R.note(f"single-element picks from set-typed attributes: {npick}")
    # the ports tied to no-connects enter the work list per instance and connection, in the module's own order — not through the
    # no-connect's address-hashed set of back-references
    from . import c01 as _c01
    R.run(_c01.secondary, repo, _shp.Retag(R, lambda r, k: "C12.1-set-iteration-order-not-observable" if k.endswith("ResolvePortRefs.elaborate_module::collect") else None,
                                          "one NoConn object on several ports: the replacement nets are created (and suffixed `open`, `open_`, ..) in the hash order of its back-references, so names and package bytes change with PYTHONHASHSEED"), noreturn_set(repo))
    # what one compile remembers is gone with its walker: a class-level table outlives it, and which device objects a
    # design gets depends on the unrelated designs compiled before
    from . import c15 as _c15
    R.run(_c15.walkers_only_swap_targets, repo, _shp.Retag(R, lambda r, k: "C12.6-nothing-outlives-a-compile" if k.endswith("class-state") else None,
                                                          "device calls cached on the walker class are shared by every compile of the process: which instances share one device call — and thereby the names and order of the exported external modules — depends on earlier, unrelated work"))
    if n < 5:
        raise AnalysisError(f"anchor-vanished: only {n} iterations over set-typed attributes found")
    R.floor(rule, 5)
    # sort keys must be names, not addresses
    rule2 = "C12.2-sort-keys-are-names"
    k = 0
    for fi in repo.funcs_in("hdl21/elab/"):
        for c in au.calls_in(fi.node, nested=True):
            if dotted(c.func) == "sorted":
                kw = {x.arg: x.value for x in c.keywords}
                key = kw.get("key")
                txt = ast.unparse(key) if key is not None else ""
                bad = any(t in txt for t in ("id(", "hash(", "repr("))
                k += 1
                R.check(not bad, rule2, key_of(fi, ast.unparse(c)[:50]), fi.at(c), f"`{ast.unparse(c)[:90]}`: sort key does not use addresses or hashes: {not bad}", why="the imposed order itself differs between processes")
    # the order imposed on a set of port references must be total on what distinguishes them: (instance name, port name)
    tot = 0
    for fi in repo.funcs_in("hdl21/"):
        for c in au.calls_in(fi.node, nested=True):
            if not (isinstance(c.func, ast.Name) and c.func.id == "sorted" and c.args):
                continue
            src = c.args[0]
            from_set = _iter_source(src, sets)[0] == "_connected_ports"
            if not from_set and isinstance(src, ast.Name) and fi.node.args.args and src.id == fi.node.args.args[0].arg:
                # a sorting helper: look at what its call sites pass
                for g in repo.funcs_in("hdl21/"):
                    for cc in au.calls_in(g.node, nested=True):
                        if cc.args and repo.resolve_call(cc, g) is fi and _iter_source(cc.args[0], sets)[0] == "_connected_ports":
                            from_set = True
            if not from_set:
                continue
            tot += 1
            key = {x.arg: x.value for x in c.keywords}.get("key")
            parts: Set[str] = set()
            if isinstance(key, ast.Lambda) and len(key.args.args) == 1:
                v = key.args.args[0].arg
                elts = key.body.elts if isinstance(key.body, ast.Tuple) else [key.body]
                for e in elts:
                    if isinstance(e, ast.BoolOp) and isinstance(e.op, ast.Or):
                        e = e.values[0]
                    t = ast.unparse(e)
                    if t == f"{v}.inst.name":
                        parts.add("inst")
                    if t == f"{v}.portname":
                        parts.add("port")
            ok = parts == {"inst", "port"}
            R.check(ok, rule2, key_of(fi, "portref-sort-total"), fi.at(c), f"`{ast.unparse(c)[:90]}` orders a hash-ordered set of port references; the key distinguishes every pair of them (instance name: {'inst' in parts}, port name: {'port' in parts})",
                    why="two ports of one instance fed by the same bundle tie under the key; `sorted` is stable, so their relative order is the set's hash order again and the connection order in the package changes between processes")
    # wherever port references are ordered by a key, the key tells any two of them apart: (instance name, port name)
    for fi in repo.funcs_in("hdl21/elab/"):
        for c in au.calls_in(fi.node, nested=True):
            if not (isinstance(c.func, ast.Name) and c.func.id in ("sorted", "min", "max") and c.args):
                continue
            key = {x.arg: x.value for x in c.keywords}.get("key")
            if not (isinstance(key, ast.Lambda) and len(key.args.args) == 1):
                continue
            v = key.args.args[0].arg
            txt = ast.unparse(key.body)
            if f"{v}.inst.name" not in txt:
                continue
            tot += 1
            ok = f"{v}.portname" in txt
            R.check(ok, rule2, key_of(fi, "portref-key-total::" + ast.unparse(c.args[0])[:30]), fi.at(c), f"`{ast.unparse(c)[:90]}` orders port references by a key that distinguishes any two of them (instance name and port name): {ok}",
                    why="several ports of one instance tie under the key; which of them comes first is the order of the collection, which is built by iterating address-hashed sets: implicit net names change with the hash seed")
    if tot < 2:
        raise AnalysisError("anchor-vanished: fewer than two sorts over port references found")
    # ---- no hash-ordered local set leaks its order
    rule4 = "C12.4-no-local-set-order-leaks"
    pos = local_set_iterations(ast.parse(_POSITIVE_SAMPLE).body[0])
    if len(pos) != 1 or "DictComp" not in pos[0][2]:
        raise AnalysisError(f"self-check failed: the local-set iteration rule finds {len(pos)} sites in its positive sample (expected exactly the dict comprehension)")
    nf = 0
    for prefix in ("hdl21/", "pdks/"):
        for fi in repo.funcs_in(prefix):
            if "/tests/" in fi.file.rel or "/test_" in fi.file.rel or "/scripts/" in fi.file.rel:
                continue
            nf += 1
            # ... also through what the loop body calls: a loop over a locally built set whose body reaches an order-sensitive
            # effect on the design (connect / add / a collision-avoiding name) through the call graph
            defs_ = _all_defs(fi.node)
            for lp_ in au.walk_no_nested(fi.node):
                if isinstance(lp_, ast.For) and set_typed(lp_.iter, defs_) and not any(n_ is lp_ for n_, _i, _h in local_set_iterations(fi.node)):
                    eff_ = effects(repo, fi, ast.Module(lp_.body, []))
                    sens_ = {k_: v_ for k_, v_ in eff_.items() if k_ in ORDER_SENSITIVE}
                    if sens_:
                        R.bad(rule4, key_of(fi, f"iter-{ast.unparse(lp_.iter)[:40]}"), fi.at(lp_), f"`{ast.unparse(lp_.iter)}` is a set built in this function; the loop over it reaches order-sensitive effects {{{'; '.join(f'{k_}: {v_}' for k_, v_ in sens_.items())}}} and no order is imposed",
                              "the order in which an instance's connections are re-made (and thereby listed in the package) follows the hash order of port names: package bytes change with PYTHONHASHSEED")
            for node, it, how in local_set_iterations(fi.node):
                R.bad(rule4, key_of(fi, f"iter-{it[:40]}"), fi.at(node), f"`{it}` is a set built in this function and is iterated without an order being imposed: {how}",
                      "the order of connections / ports / names built from it follows str or address hashes, and changes with PYTHONHASHSEED")
    R.ok(rule4, "hdl21+pdks::all-functions", "hdl21/, pdks/", f"{nf} functions scanned: no list, dict, generator, loop accumulation or *-unpacking takes its order from a set built in the function (the rule finds exactly the seeded site in its built-in positive sample)", nontrivial=True)
    # ---- names never derive from addresses / salted hashes
    rule3 = "C12.3-names-independent-of-addresses"
    producers = [(F_BASE, "ElabPass.flatname"), (F_PARAMS, "_unique_name"), (F_PARAMS, "hdl21_naming_encoder"), (F_QUALNAME, "qualname"), (F_QUALNAME, "qualpath"),
                 (F_FLATTEN, "FlattenedInstance.make_name")]
    # the simulation exporter's generated analysis names: whichever of its methods read the counter
    gen = [(F_SIMPROTO, f_.qual) for f_ in repo.funcs_in(F_SIMPROTO) if "analysis_count" in ast.unparse(f_.node) and f_.name != "__init__"]
    if not gen:
        raise AnalysisError(f"anchor-vanished: no function of {F_SIMPROTO} reads the analysis counter")
    for rel, q in producers + gen:
        f = repo.func(rel, q)
        scope = [f.node]
        if (rel, q) in gen:
            # the generated name itself: the `Analysis<..>` texts built in the function
            scope = [n for n in ast.walk(f.node) if isinstance(n, ast.JoinedStr) and n.values and isinstance(n.values[0], ast.Constant) and str(n.values[0].value).startswith("Analysis")]
        bad = [ast.unparse(c) for sc in scope for c in au.calls_in(sc, nested=True) if (dotted(c.func) or "") in ("id", "hash", "pickle.dumps", "object.__repr__", "uuid.uuid4", "random.random", "time.time")]
        R.check(not bad, rule3, key_of(f), f.site, f"{q}: no id()/hash()/pickle/uuid/random/time in the name producer" if not bad else f"{q} uses `{bad[0]}`", why="generated names differ between processes")
    # call sites of flatname: segments are names / small integers
    m = 0
    for fi in repo.funcs_in("hdl21/"):
        for c, b in pat.find("$S.flatname(*$_)", fi.node):
            segs = None
            for kw in c.keywords:
                if kw.arg == "segments":
                    segs = kw.value
            if segs is None and c.args:
                segs = c.args[0]
            m += 1
            bad = [ast.unparse(x) for x in ast.walk(segs) if isinstance(x, ast.Call) and (dotted(x.func) or "") in ("id", "hash", "repr")] if segs is not None else []
            R.check(not bad and segs is not None, rule3, key_of(fi, ast.unparse(c)[:50]), fi.at(c), f"`{ast.unparse(segs)[:80] if segs is not None else None}`: name segments are names and indices" if not bad else f"segment uses `{bad[0]}`",
                    why="implicit signal / instance names contain a memory address or a salted hash")
    if m < 5:
        raise AnalysisError(f"anchor-vanished: only {m} flatname call sites found")
    # _unique_name digest is hashlib over text (shared with C09.3)
    fu = repo.func(F_PARAMS, "_unique_name")
    from . import shared

    from . import c09 as _c09
    ok = all(_c09.digest_over_json(fu))
    R.check(ok, rule3, key_of(fu, "digest"), fu.site, f"hashed parameter names are a hashlib digest over the UTF-8 JSON text: {ok}", why="hashed names differ between processes")
    # source-order containers: SetList keeps insertion order (list-backed)
    sl = repo.cls(F_PORTREFS, "SetList")
    ok = bool(pat.find("self.list = list()", sl.methods["__init__"].node)) and bool(pat.find("self.list.append(item)", sl.methods["add"].node)) and bool(pat.find("self.list.pop(0)", sl.methods["pop"].node))
    # attached clauses: hashed names come from values only (C09.3); address-keyed caches keep their keys alive (C07.4)
    from . import c09, c07
    from .shared import Retag
    R.run(c09.hashed_names, repo, Retag(R, lambda r: rule3, "generated module names contain an address or a salted hash: they differ between processes"))
    R.run(c07.id_keyed_caches, repo, Retag(R, lambda r: "C12.5-address-keyed-caches-pin-their-keys",
                                    "an entry keyed by the address of an object that has been freed is found again by an unrelated object allocated at that address: output depends on allocation history"))
    R.check(ok, rule3, f"{F_PORTREFS}::SetList", sl.site, f"port-reference groups are collected in an insertion-ordered, list-backed container, popped from the front: {ok}", why="groups (and hence implicit signal creation order and names) are visited in hash order")
