"""C16 — flatten() preserves leaf-level connectivity.

Decided: the three places that decide what a leaf is agree, unsupported
constructs are rejected, generated ':'-joined names are unique by construction
(components are checked to be free of the separator), ports are copied
unchanged, the child-port lookup goes through the map handed down by the
parent first, every leaf is yielded and reconnected by name.  Equality of net
partitions for all hierarchies is not decided.
"""

from __future__ import annotations

import ast
from typing import Dict, List, Optional, Set, Tuple

from ..core import AnalysisError, FuncInfo, Repo, dotted
from .. import au, pat
from .common import *  # noqa
from .common import key_of, union, class_names
from .shared import path_conditions, enclosing
from . import shared


def _cls_set(repo, fi, exprs) -> Set[str]:
    return {x.split(".")[-1] for x in class_names(repo, fi, exprs)}


def check(repo: Repo, R) -> None:
    fentry = repo.func(F_FLATTEN, "walk")
    # the function that walks one level, by role: the one that yields FlattenedInstance(..) — `walk` itself, or a
    # recursive worker it hands its arguments to after filling in the top-level map
    fw = fentry
    workers = [f for f in repo.funcs_in(F_FLATTEN) if f.cls is None and any(isinstance(x, ast.Yield) and x.value is not None and "FlattenedInstance(" in ast.unparse(x.value) for x in ast.walk(f.node))]
    if len(workers) == 1 and workers[0] is not fentry:
        fw = workers[0]
        deleg = [x for x in ast.walk(fentry.node) if isinstance(x, ast.YieldFrom) and isinstance(x.value, ast.Call) and ast.unparse(x.value.func) == fw.name and [ast.unparse(a) for a in x.value.args] == [a.arg for a in fentry.node.args.args] and not x.value.keywords]
        if len(deleg) != 1 or shared.path_conditions(fentry.node, deleg[0]):
            raise AnalysisError(f"idiom-unknown: {fentry.site} does not hand its own arguments to the one-level walker {fw.name}")
    elif len(workers) != 1:
        raise AnalysisError(f"idiom-unknown: no single function yielding FlattenedInstance in {F_FLATTEN}")
    ff = repo.func(F_FLATTEN, "flatten")
    fis = repo.func(F_FLATTEN, "is_flat")
    fpi = repo.func(F_FLATTEN, "FlattenedInstance.__post_init__")
    want = set(union(repo, F_INSTANTIABLE, "InstantiableUnion")) - {"Module"}

    # ---- 1 leaf kinds agree
    rule = "C16.1-leaf-kinds-agree"
    leaf_w = None
    for n in au.walk_no_nested(fw.node):
        if isinstance(n, ast.If) and isinstance(n.test, ast.Call):
            r = au.isinstance_classes(n.test)
            if r and ast.unparse(r[0]) == "inst.of" and any(isinstance(x, (ast.Yield,)) for x in ast.walk(ast.Module(n.body, []))):
                leaf_w = (n, _cls_set(repo, fw, r[1]))
    if leaf_w is None:
        raise AnalysisError(f"idiom-unknown: leaf test in {fw.site}")
    rec = bool(pat.find(f"{fw.name}(inst.of, new_parents, new_conns)", ast.Module(leaf_w[0].orelse, [])))
    R.check(leaf_w[1] == want and rec, rule, key_of(fw), fw.at(leaf_w[0]), f"walk() yields a leaf for {sorted(leaf_w[1])} and recurses into everything else ({rec}); non-Module instantiables are {sorted(want)}",
            why="a hierarchy with an ExternalModule leaf below the top level crashes (or a primitive is recursed into)")
    s_is = set()
    for c in au.calls_in(fis.node, nested=True):
        r = au.isinstance_classes(c)
        if r and ast.unparse(r[0]) in ("m", "inst.of"):
            s_is |= _cls_set(repo, fis, r[1])
    R.check(want <= s_is, rule, key_of(fis), fis.site, f"is_flat() regards {sorted(s_is - {'Module'})} as leaves", why="a module with external-module instances is reported not flat (or vice versa)")
    # ... for *every* instance-like member: `all(<is a leaf> for each)`, or `not any(<is a Module> for each)`; over instances,
    # arrays and instance bundles
    marg = fis.node.args.args[0].arg
    q_ok = False
    q_detail = "no quantified return in the Module arm"
    for r_ in shared.returns_of(fis.node):
        if not any(pol and (au.isinstance_classes(t) or [None, []])[0] is not None and ast.unparse(au.isinstance_classes(t)[0]) == marg and "Module" in _cls_set(repo, fis, au.isinstance_classes(t)[1]) for t, pol in shared.path_conditions(fis.node, r_) if isinstance(t, ast.Call)):
            continue
        for v, _c in shared.alternatives(fis.node, r_.value, shared.path_conditions(fis.node, r_), at=r_):
            neg = False
            e = v
            if isinstance(e, ast.UnaryOp) and isinstance(e.op, ast.Not):
                neg, e = True, e.operand
            if not (isinstance(e, ast.Call) and isinstance(e.func, ast.Name) and e.func.id in ("all", "any") and len(e.args) == 1 and isinstance(e.args[0], (ast.GeneratorExp, ast.ListComp))):
                q_detail = f"the Module arm returns `{ast.unparse(v)[:80]}`"
                continue
            g = e.args[0]
            pred = g.elt
            pneg = False
            if isinstance(pred, ast.UnaryOp) and isinstance(pred.op, ast.Not):
                pneg, pred = True, pred.operand
            rr = au.isinstance_classes(pred) if isinstance(pred, ast.Call) else None
            if rr is None or not ast.unparse(rr[0]).endswith(".of"):
                q_detail = f"the element test `{ast.unparse(g.elt)}` is not a kind test of the instance's target"
                continue
            kinds = _cls_set(repo, fis, rr[1])
            leafish = kinds == want
            modish = kinds == {"Module"}
            # normal form: forall x. leaf(x)
            form = None
            if e.func.id == "all" and not neg and ((leafish and not pneg) or (modish and pneg)):
                form = "all(leaf)"
            if e.func.id == "any" and neg and ((modish and not pneg) or (leafish and pneg)):
                form = "not any(module)"
            it = shared.prov_text(fis.node, g.generators[0].iter)
            views = all(f"{marg}.{a_}" in it for a_ in ("instances", "instarrays", "instbundles"))
            q_ok = form is not None and views and len(g.generators) == 1 and not g.generators[0].ifs
            q_detail = f"is_flat(Module) = `{ast.unparse(v)[:90]}` — every member of instances, instarrays and instbundles ({views}) is a leaf ({form})"
    R.check(q_ok, rule, key_of(fis, "every-instance-is-a-leaf"), fis.site, q_detail,
            why="a module that mixes leaf and Module instances is reported flat: flatten() hands back the hierarchy untouched")
    s_pi = set()
    for c in au.calls_in(fpi.node):
        r = au.isinstance_classes(c)
        if r:
            s_pi |= _cls_set(repo, fpi, r[1])
    R.check(s_pi == want, rule, key_of(fpi), fpi.site, f"FlattenedInstance accepts exactly {sorted(s_pi)} as targets", why="flattened instances of one leaf kind are refused")

    # ---- 2 unsupported constructs rejected
    rule = "C16.2-unsupported-rejected"
    arms = {}
    top = None
    for n in au.walk_no_nested(fw.node):
        if isinstance(n, ast.If) and ast.unparse(n.test) == "isinstance(sig, h.Signal)":
            top = n
    if top is None:
        raise AnalysisError(f"idiom-unknown: connection dispatch in {fw.site}")
    cur = top
    while True:
        r = au.isinstance_classes(cur.test)
        kinds = _cls_set(repo, fw, r[1]) if r else set()
        last = cur.body[-1]
        outcome = "raise " + ast.unparse(last.exc).split("(")[0] if isinstance(last, ast.Raise) and last.exc is not None else "handled"
        for k in kinds:
            arms[k] = outcome
        if len(cur.orelse) == 1 and isinstance(cur.orelse[0], ast.If):
            cur = cur.orelse[0]
        else:
            arms["<else>"] = "raise" if au.raises(cur.orelse) else "falls through"
            break
    ok = arms.get("Signal") == "handled" and arms.get("Slice", "").startswith("raise") and arms.get("Concat", "").startswith("raise") and arms.get("<else>") == "raise"
    R.check(ok, rule, key_of(fw, "connection-kinds"), fw.at(top), f"walk() connection kinds: {arms}", why="a slice, concatenation or unknown connection is flattened as if it were a scalar signal")
    el = bool(pat.find("m = h.elaborate(m)", ff.node))
    R.check(el, rule, key_of(ff, "elaborates-first"), ff.site, f"flatten() elaborates (and thereby checks) the design first: {el}", why="unresolved references and bundles reach the walker")
    miss = any(isinstance(n, ast.Raise) for n in ast.walk(top.orelse[-1])) if top.orelse else False
    notfound = False
    KEY = None
    for n in au.walk_no_nested(fw.node):
        if isinstance(n, ast.If) and KEY is None:
            for x in ast.walk(n.test):
                if isinstance(x, ast.Compare) and len(x.ops) == 1 and isinstance(x.ops[0], (ast.In, ast.NotIn)) and ast.unparse(x.comparators[0]) == "conns":
                    KEY = ast.unparse(x.left)
                    break
    if KEY is None:
        raise AnalysisError(f"idiom-unknown: lookup of the connected signal's name in the parent's map not found in {fw.site}")
    key_is_name = shared.prov_text(fw.node, ast.parse(KEY, mode="eval").body) == "sig.name"
    # what is handed to the child for each of its ports, as alternatives: (value, conditions)
    child_stores = pat.find("new_conns[src_port_name] = $T", fw.node)
    alts = []
    for c, b in child_stores:
        alts += shared.alternatives(fw.node, b["T"], list(path_conditions(fw.node, c)))
    in_conns = shared.parse_cond(f"{KEY} in conns")
    in_sigs = shared.parse_cond(f"{KEY} in m.signals")
    in_ports = shared.parse_cond(f"{KEY} in m.ports")
    # a name found in none of the three raises
    notfound = shared.raises_under(fw.node, [(f"{KEY} in conns", False), (f"{KEY} in m.signals", False), (f"{KEY} in m.ports", False), ("isinstance(sig, h.Signal)", True), (f"':' in {KEY}", False), ("':' in (inst.name or '')", False)])
    R.check(notfound, rule, key_of(fw, "unknown-signal"), fw.site, f"a connection to a signal found neither in the parent's map nor in the module raises: {notfound}", why="an unknown net silently becomes a new floating net")

    # ---- 3 generated names unique
    rule = "C16.3-generated-names-unique"
    joins = [c for c, b in pat.find("':'.join($X)", fw.node)] + [c for c, b in pat.find("':'.join($X)", repo.func(F_FLATTEN, "FlattenedInstance.make_name").node)]
    if len(joins) < 1:
        raise AnalysisError(f"idiom-unknown: ':'-joined names in {F_FLATTEN}")
    g_inst = any(isinstance(n, ast.If) and "':' in" in ast.unparse(n.test).replace('"', "'") and "inst.name" in ast.unparse(n.test) and au.raises(n.body) for n in au.walk_no_nested(fw.node))
    g_sig = False
    sig_join = None
    sig_joins = [c for c in joins if any(x is c for x in ast.walk(fw.node))]
    for n in au.walk_no_nested(fw.node):
        if isinstance(n, ast.If) and ast.unparse(n.test).replace('"', "'") == f"':' in {KEY}" and au.raises(n.body):
            # every ':'-join of the walker that involves the signal's name happens on the non-raising side of the guard
            g_sig = bool(sig_joins) and all(any(t is n.test and not pol for t, pol in path_conditions(fw.node, c)) for c in sig_joins)
    # ... and the top-level ports, which enter the flat module under their own names whether connected or not
    g_port = False
    for lp_ in [n for n in au.walk_no_nested(ff.node) if isinstance(n, ast.For) and ast.unparse(n.iter) == "m.ports.values()"]:
        pv = ast.unparse(lp_.target)
        for c, _b in pat.find(f"new_module.add(copy.copy({pv}))", lp_):
            g_port = shared.cond_match(ff.node, c, f"':' in {pv}.name", False, use_prov=False) and shared.fails_if(lp_, f"':' in {pv}.name") is not None
    R.check(g_port, rule, key_of(ff, "separator-guard-ports"), ff.site, f"top-level port names are checked to contain no ':' before they enter the flat module: {g_port}",
            why="a top-level port named `a:x` is merged with the internal net `x` of instance `a`: a floating internal net becomes a port")
    R.check(g_inst and g_sig, rule, key_of(fw, "separator-guard"), fw.site,
            f"every component joined by ':' is checked to contain no ':' — instance names: {g_inst}; signal names (before the path name is built): {g_sig}",
            why="a designer signal named `m:x` beside instance m with internal net x gets the same flattened name: the two nets are merged")
    mk = repo.func(F_FLATTEN, "FlattenedInstance.make_name")
    ok = bool(pat.find("':'.join([p.name or '_' for p in self.path])", mk.node))
    R.check(ok, rule, key_of(mk), mk.site, f"flattened instance names are the ':'-joined instance path: {ok}", why="two leaves get one name and the second replaces the first")
    path_ok = bool(pat.find("new_parents = parents + [inst]", fw.node)) and bool(pat.find("FlattenedInstance(inst, new_parents, new_conns)", fw.node))
    R.check(path_ok, rule, key_of(fw, "path"), fw.site, f"each leaf carries the full instance path from the top (parents + [inst]): {path_ok}", why="leaves of two instances of one sub-module share a name")
    nm = key_is_name and bool(sig_joins) and all(pat.match(f"':'.join([$P.name for $P in parents] + [{KEY}])", c) is not None for c in sig_joins)
    R.check(nm, rule, key_of(fw, "net-name"), fw.site, f"internal nets are named <instance path>:<signal name> of the module that declares them: {nm}", why="internal nets of two instances of one sub-module are merged")

    # ---- 4 ports unchanged, new nets internal
    rule = "C16.4-ports-unchanged"
    lp = [n for n in au.walk_no_nested(ff.node) if isinstance(n, ast.For) and ast.unparse(n.iter) == "m.ports.values()"]
    ok = len(lp) == 1 and bool(pat.find("new_module.add(copy.copy(port))", lp[0]))
    R.check(ok, rule, key_of(ff, "ports"), ff.site, f"the flat module gets a copy of each of m's ports, in order: {ok}", why="ports are missing, reordered or re-directed in the flat module")
    NAME = f"':'.join([$P.name for $P in parents] + [{KEY}])"
    def _alt_is(v, k):
        return pat.match(f"replace(_copy_to_internal(m.{k}[{KEY}]), name={NAME})", shared.prov(fw.node, v)) is not None
    internal = all(any(_alt_is(v, k) for v, _c in alts) for k in ("signals", "ports")) and all(ast.unparse(v) == f"conns[{KEY}]" or _alt_is(v, "signals") or _alt_is(v, "ports") for v, _c in alts)
    R.check(internal, rule, key_of(fw, "nets-internal"), fw.site, f"nets created for lower levels are internal copies (visibility INTERNAL, no direction) of the declaring signal or port: {internal}", why="a lower-level port becomes a port of the flat module")
    sk = any(shared.cond_match(ff.node, c, "$S.name in new_module.ports", False, use_prov=True) and ast.unparse(shared.cond_args(ff.node, c, "$S.name in new_module.ports", False)["S"]) == ast.unparse(b["S"]) for c, b in pat.find("new_module.add(copy.copy($S))", ff.node) if enclosing(ff.node, c, (ast.For,)) is not None and ast.unparse(enclosing(ff.node, c, (ast.For,)).iter) != "m.ports.values()")
    R.check(sk, rule, key_of(ff, "no-port-shadowing"), ff.site, f"nets that are ports of the flat module are not re-added as internal signals: {sk}", why="a port is replaced by an internal signal of the same name")
    nm = bool(pat.find("h.Module(m.name + '_flat')", ff.node))
    R.check(nm, rule, key_of(ff, "name"), ff.site, f"the flat module gets its own name: {nm}", why="the flat module clashes with the original on export")

    # ---- 5 port map / reconnect by name
    rule = "C16.5-connectivity-by-map"
    # whenever the parent's map has the name, the child gets the parent's net; a fresh internal copy is made only otherwise
    order_ok = bool(alts) and any(ast.unparse(v) == f"conns[{KEY}]" and shared.conds_imply(cds, [(in_conns, True)]) is True for v, cds in alts) and all(
        ast.unparse(v) == f"conns[{KEY}]" or shared.conds_imply(cds, [(in_conns, False)]) is True for v, cds in alts) and all(
        shared.conds_imply(cds, [(in_conns, True)]) is True for v, cds in alts if ast.unparse(v) == f"conns[{KEY}]") and all(
        shared.conds_imply(cds, [(in_sigs, True)]) is True for v, cds in alts if _alt_is(v, "signals")) and all(shared.conds_imply(cds, [(in_ports, True)]) is True for v, cds in alts if _alt_is(v, "ports"))
    R.check(order_ok, rule, key_of(fw, "parent-map-first"), fw.site, f"a child's port is resolved through the map handed down by its parent before the child's own signals: {order_ok}", why="a child's port is treated as a new internal net: the connection across the hierarchy level is cut")
    store = bool(child_stores)
    lp = [n for n in au.walk_no_nested(fw.node) if isinstance(n, ast.For) and ast.unparse(n.iter) == "inst.conns.items()"]
    tot = len(lp) == 1 and not any(isinstance(x, (ast.Break, ast.Continue)) for x in ast.walk(lp[0]))
    # the map handed to a child is built for that child alone
    inits = [st for st in au.stmts(fw.node) if isinstance(st, ast.Assign) and ast.unparse(st.targets[0]) == "new_conns"]
    fresh = len(inits) == 1 and isinstance(inits[0].value, (ast.Dict, ast.Call)) and ast.unparse(inits[0].value) in ("{}", "dict()") and any(isinstance(l, ast.For) and ast.unparse(l.iter) == "m.instances.values()" for l in enclosing_loops(fw.node, inits[0]))
    R.check(fresh, rule, key_of(fw, "child-map-fresh"), fw.site, f"the port map handed to an instance's target starts empty for every instance: {fresh}",
            why="bindings made for an earlier sibling instance stay in the map: a later sibling's internal net of the same name is merged with the earlier sibling's net")
    R.check(store and tot, rule, key_of(fw, "child-map"), fw.site, f"every connection of an instance is entered in the map handed to its target under the target's port name: {store and tot}", why="some ports of a sub-module are cut off from their parent net")
    top_map = any(isinstance(n, ast.If) and ast.unparse(n.test) == "conns is None" and bool(pat.find("conns = {**m.signals, **m.ports}", n)) for n in au.walk_no_nested(fentry.node))
    R.check(top_map, rule, key_of(fentry, "top-map"), fentry.site, f"at the top level the map is the module's own signals and ports: {top_map}", why="top-level nets are renamed or lost")
    insts = [n for n in au.walk_no_nested(fw.node) if isinstance(n, ast.For) and ast.unparse(n.iter) == "m.instances.values()"]
    tot2 = len(insts) == 1 and not any(isinstance(x, (ast.Break, ast.Continue, ast.Return)) for x in ast.walk(insts[0]) if enclosing(fw.node, x, (ast.For,)) is insts[0])
    R.check(tot2, rule, key_of(fw, "every-instance"), fw.site, f"every instance of every level is visited: {tot2}", why="leaf devices are missing from the flat module")
    rec = [n for n in au.walk_no_nested(ff.node) if isinstance(n, ast.For) and ast.unparse(n.iter) == "nodes"]
    ok = False
    if len(rec) == 2:
        lv = ast.unparse(rec[1].target)
        inner = [x for x in ast.walk(rec[1]) if isinstance(x, ast.For) and ast.unparse(x.iter) == f"{lv}.conns.items()" and isinstance(x.target, ast.Tuple) and len(x.target.elts) == 2]
        if len(inner) == 1:
            pn, sg = [ast.unparse(x) for x in inner[0].target.elts]
            ok = bool(shared.calls_matching(ff.node, f"new_module.add({lv}.inst.of(), name={lv}.make_name()).connect({pn}, _find_signal_or_port(new_module, {sg}.name))")) or (
                bool(pat.find(f"$NI = new_module.add({lv}.inst.of(), name={lv}.make_name())", rec[1])) and any(ast.unparse(b["NI"]) == ast.unparse(pat.find(f"$NI = new_module.add({lv}.inst.of(), name={lv}.make_name())", rec[1])[0][1]["NI"]) for c, b in pat.find(f"$NI.connect({pn}, _find_signal_or_port(new_module, {sg}.name))", inner[0])))
    if len(rec) == 2:
        adds = [c for c in au.calls_in(rec[1]) if ast.unparse(c.func) == "new_module.add" and c.args and ast.unparse(c.args[0]) == f"{lv}.inst.of()"]
        outer = len(path_conditions(ff.node, rec[1]))
        skips = [x for x in ast.walk(rec[1]) if isinstance(x, (ast.Break, ast.Continue, ast.Return)) and enclosing(ff.node, x, (ast.For,)) is rec[1]]
        conds_ = [ast.unparse(t)[:50] for c in adds for t, _p in path_conditions(ff.node, c)[outer:]]
        every = len(adds) == 1 and not skips and not conds_
        R.check(every, rule, key_of(ff, "every-leaf-added"), ff.at(adds[0]) if adds else ff.site,
                f"every recorded leaf becomes an instance of the flat module, whatever its connections: {every}" + (f" (decided by {conds_ or 'an early exit of the loop'})" if not every else ""),
                why="a leaf without ports (a fill / tap / marker cell) silently vanishes from the flat module and its netlist")
    R.check(ok, rule, key_of(ff, "reconnect"), ff.site, f"one new instance per leaf, each of its ports connected to the flat module's signal of the mapped net's name: {ok}", why="leaf terminals are connected to other nets than in the hierarchy")
    fs = repo.func(F_FLATTEN, "_find_signal_or_port")
    frets = shared.returns_of(fs.node)
    # every return hands out a lookup by exact name that was tested not to be None; ports are searched before signals; a miss raises
    ralts = [(ast.unparse(v), shared.resolved_conditions(fs.node, cds)) for r in frets for v, cds in shared.alternatives(fs.node, r.value, list(path_conditions(fs.node, r)))]
    ok = {v for v, _c in ralts} == {"m.ports.get(name)", "m.signals.get(name)"} and all(
        shared.conds_imply(cds, [(shared.parse_cond(v + " is None"), False)]) is True for v, cds in ralts) and all(
        shared.conds_imply(cds, [(shared.parse_cond("m.ports.get(name) is None"), True)]) is True for v, cds in ralts if v == "m.signals.get(name)") and shared.raises_under(
        fs.node, [("m.ports.get(name) is None", True), ("m.signals.get(name) is None", True)]) 
    if not ok:
        # canonical spelling: `if name in m.ports: return m.ports[name] elif name in m.signals: return m.signals[name] else raise`
        ok = {v for v, _c in ralts} == {"m.ports[name]", "m.signals[name]"} and all(
            shared.conds_imply(cds, [(shared.parse_cond("name in " + v.split("[")[0]), True)]) is True for v, cds in ralts) and all(
            shared.conds_imply(cds, [(shared.parse_cond("name in m.ports"), False)]) is True for v, cds in ralts if v == "m.signals[name]") and shared.raises_under(
            fs.node, [("name in m.ports", False), ("name in m.signals", False)])
    R.check(ok, rule, key_of(fs), fs.site, f"nets are found by exact name among ports and signals, else it raises: {ok}", why="a missing net silently connects to None")

    # ---- 6 nothing is remembered between calls
    rule = "C16.6-no-state-between-calls"
    sample = ast.parse("from functools import lru_cache\n_seen = dict()\n@lru_cache(maxsize=None)\ndef g(m):\n    return 1\ndef f(m, memo={}):\n    memo[m] = 1\n    _seen[m.name] = m\n")
    if len(shared.cross_call_state(sample)) != 3:
        raise AnalysisError("self-check failed: the cross-call-state rule does not see its positive sample")
    st_ = shared.cross_call_state(repo.file(F_FLATTEN).tree)
    R.check(not st_, rule, f"{F_FLATTEN}::state", F_FLATTEN, f"{F_FLATTEN} remembers nothing from one call to the next (no written module-level table, memoising decorator, written default argument or function attribute)" if not st_ else f"state kept between calls: {st_}",
            why="Modules are mutable until elaborated and a failed flatten leaves a half-built result: an answer remembered from an earlier call (is_flat before an instance was added, a result registered before it was complete) is returned for a design it no longer describes")
    R.floor("C16.1-leaf-kinds-agree", 3)
    R.floor("C16.3-generated-names-unique", 4)
