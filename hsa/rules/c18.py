"""C18 — module and bundle namespaces stay coherent under any edit sequence.

Local invariants of `_add` / `__setattr__` / `add` / `get` on Module and Bundle
that are inductive for setattr/add/get histories: eviction of re-used names,
complete reserved-name lists, sibling agreement of the two classes, parent
link, port view, rejection of non-HDL values, live freeze guards.
"""

from __future__ import annotations

import ast
from typing import Dict, List, Optional, Set, Tuple

from ..core import AnalysisError, ClassInfo, FuncInfo, Repo, dotted
from .. import au, pat
from .common import *  # noqa
from .common import key_of, noreturn_set, isinstance_handled, union
from . import shared, c02

SPEC = {
    "Module": dict(rel=F_MODULE, arg="module", parent="_parent_module", special={"name"}, assert_fn="_assert_module_attr", deco="module"),
    "Bundle": dict(rel=F_BUNDLE, arg="bundle", parent="_parent_bundle", special={"name", "roles"}, assert_fn="assert_bundle_attr", deco="bundle"),
}


def kind_dicts(ci: ClassInfo) -> List[str]:
    init = ci.methods["__init__"]
    out = []
    for n in ast.walk(init.node):
        if isinstance(n, (ast.Assign, ast.AnnAssign)):
            tg = n.targets[0] if isinstance(n, ast.Assign) else n.target
            if isinstance(tg, ast.Attribute) and isinstance(tg.value, ast.Name) and tg.value.id == "self" and n.value is not None and ast.unparse(n.value) in ("dict()", "{}"):
                out.append(tg.attr)
    return out


def banned_list(repo: Repo, rel: str) -> Set[str]:
    sf = repo.file(rel)
    node = sf.defs.get("_banned")
    if not isinstance(node, ast.Assign) or not isinstance(node.value, (ast.List, ast.Tuple, ast.Set)):
        raise AnalysisError(f"anchor-vanished: `_banned` list in {rel}")
    return {e.value for e in node.value.elts if isinstance(e, ast.Constant)}


def check(repo: Repo, R) -> None:
    from .shared import precedes as shared_before

    noret = noreturn_set(repo)
    for cls, sp in SPEC.items():
        ci = repo.cls(sp["rel"], cls)
        fa = repo.func(sp["rel"], "_add")
        arg = fa.node.args.args[0].arg
        val = fa.node.args.args[1].arg
        kinds = [k for k in kind_dicts(ci) if k != "namespace"]
        if "namespace" not in kind_dicts(ci) or len(kinds) < 2:
            raise AnalysisError(f"anchor-vanished: per-kind containers of {cls}: {kind_dicts(ci)}")

        # ---- 1 eviction
        rule = "C18.1-reused-name-evicted"
        stores = [st for st in au.stmts(fa.node) if isinstance(st, ast.Assign) and isinstance(st.targets[0], ast.Subscript) and ast.unparse(st.targets[0].slice) == f"{val}.name"]
        if len(stores) < 2:
            raise AnalysisError(f"idiom-unknown: container stores in {fa.site}")
        first_store = min(st.lineno for st in stores)
        evicted: Set[str] = set()
        ev_line = None
        for lp in au.walk_no_nested(fa.node):
            if isinstance(lp, ast.For) and isinstance(lp.iter, (ast.Tuple, ast.List)) and pat.find(f"$C.pop({val}.name)", lp) + pat.find(f"$C.pop({val}.name, None)", lp):
                for e in lp.iter.elts:
                    d = ast.unparse(e)
                    if d.startswith(arg + "."):
                        evicted.add(d.split(".", 1)[1])
                ev_line = lp.lineno
        # the eviction must run whenever the name is held by a *different* object: no further condition
        guard_ok = True
        guard_txt = "unconditional"
        ev_loops = [lp for lp in au.walk_no_nested(fa.node) if isinstance(lp, ast.For) and isinstance(lp.iter, (ast.Tuple, ast.List)) and pat.find(f"$C.pop({val}.name)", lp) + pat.find(f"$C.pop({val}.name, None)", lp)]
        if ev_loops:
            from .shared import path_conditions, conds_imply, parse_cond, prov_text

            defs = au.local_defs(fa.node)
            oldn = [k for k, v in defs.items() if ast.unparse(v) in (f"{arg}.namespace.get({val}.name, None)", f"{arg}.namespace.get({val}.name)")]
            o = oldn[0] if oldn else "old"
            ev_pc = path_conditions(fa.node, ev_loops[0])
            st_pc = path_conditions(fa.node, stores[0])
            # whenever the insertion is reached and another object holds the name, the eviction has run
            holds = conds_imply(list(st_pc) + [(parse_cond(f"{o} is None"), False), (parse_cond(f"{o} is {val}"), False)], list(ev_pc))
            guard_ok = bool(oldn) and holds is True
            guard_txt = " and ".join(("" if pol else "not ") + f"({ast.unparse(t)})" for t, pol in ev_pc) or "unconditional"
            # and the test inside the loop removes exactly the old holder
            inner = [n for n in ast.walk(ev_loops[0]) if isinstance(n, ast.If)]
            if inner:
                lv = ast.unparse(ev_loops[0].target)
                it = ast.unparse(inner[0].test)
                pops_in_body = bool(pat.find(f"{lv}.pop({val}.name)", ast.Module(inner[0].body, [])))
                guard_ok = guard_ok and pops_in_body and it in (f"{lv}.get({val}.name) is {o}", f"{o} is {lv}.get({val}.name)", f"{val}.name in {lv}")
                guard_txt += f"; per container: {it}"
        # an object already held under another key leaves that key (namespace and per-kind views) before it is stored again
        moved = False
        for lp in au.walk_no_nested(fa.node):
            if isinstance(lp, ast.For) and isinstance(lp.iter, ast.ListComp) and len(lp.iter.generators) == 1:
                g_ = lp.iter.generators[0]
                if ast.unparse(g_.iter) == f"{arg}.namespace.items()" and isinstance(g_.target, ast.Tuple) and len(g_.target.elts) == 2:
                    kk, hh = [ast.unparse(x) for x in g_.target.elts]
                    conds_ = {ast.unparse(c) for c in (g_.ifs[0].values if len(g_.ifs) == 1 and isinstance(g_.ifs[0], ast.BoolOp) and isinstance(g_.ifs[0].op, ast.And) else g_.ifs)}
                    lv_ = ast.unparse(lp.target)
                    pops_ns = bool(pat.find(f"{arg}.namespace.pop({lv_})", lp))
                    views = set()
                    for il in [x for x in ast.walk(lp) if isinstance(x, ast.For) and x is not lp and isinstance(x.iter, (ast.Tuple, ast.List))]:
                        if pat.find(f"{ast.unparse(il.target)}.pop({lv_})", il):
                            views |= {ast.unparse(e).split(".", 1)[1] for e in il.iter.elts if ast.unparse(e).startswith(arg + ".")}
                    moved = conds_ == {f"{hh} is {val}", f"{kk} != {val}.name"} and ast.unparse(lp.iter.elt) == kk and pops_ns and set(kinds) <= views and shared_before(fa.node, lp, stores[0])
        R.check(moved, rule, key_of(fa, f"{cls}-one-key-per-object"), fa.site,
                f"{cls}._add: an object that is already held under another name is removed from that key (namespace and every per-kind view) before it is stored under its new one: {moved}",
                why="`m.a = sig; m.b = sig` leaves the signal (now named `b`) under both keys: get('a') returns an object of another name and the module declares signal `b` twice")
        # alternative: reject re-use outright
        rejects = any(isinstance(n, ast.If) and ast.unparse(n.test) in (f"{val}.name in {arg}.namespace",) and au.raises(n.body, noret) for n in au.walk_no_nested(fa.node))
        ok = rejects or (set(kinds) <= evicted and ev_line is not None and shared_before(fa.node, ev_loops[0], stores[0]) and guard_ok)
        R.check(ok, rule, key_of(fa, cls), fa.site,
                f"{cls}._add: per-kind containers {kinds}; before inserting, a re-used name is removed from {sorted(evicted) or 'none of them'}"
                + (" (or re-use is rejected)" if rejects else "") + f"; eviction runs under: {guard_txt}" + ("" if ok else f" — MISSING containers {sorted(set(kinds) - evicted)}" if set(kinds) - evicted else " — the eviction is skipped in some case where another object holds the name"),
                why="assigning an instance to a name that held a signal leaves the signal in the signals view: get(name) and the views disagree, and both objects are exported")

        # ---- 2 reserved names complete
        rule = "C18.2-reserved-names-complete"
        banned = banned_list(repo, sp["rel"])
        public = {a for a in shared.instance_attrs(repo, ci) if not a.startswith("_")}
        need = public - sp["special"]
        missing = sorted(need - banned)
        R.check(not missing, rule, f"{sp['rel']}::{cls}._banned", ci.site,
                f"names that normal attribute lookup resolves on a {cls}: {sorted(public)}; reserved: {sorted(banned)} + special-cased {sorted(sp['special'])}" + (f"; NOT RESERVED: {missing}" if missing else ""),
                why=f"`x.{missing[0] if missing else 'n'} = Signal()` stores an HDL attribute that attribute access never returns (the class attribute wins): get(n) and getattr disagree")
        sa = ci.methods["__setattr__"]
        g = c02.has_guard(sa, lambda t: ast.unparse(t) == "key in _banned", noret)
        R.check(g is not None, rule, key_of(sa, "banned-guard"), sa.site, f"{cls}.__setattr__ rejects reserved names: {g is not None}", why="reserved names can be overwritten")
        deco = repo.func(sp["rel"], sp["deco"])
        dg = any(isinstance(n, ast.If) and isinstance(n.test, ast.Compare) and len(n.test.ops) == 1 and isinstance(n.test.ops[0], ast.In) and ast.unparse(n.test.left) == "key"
                 and (ast.unparse(n.test.comparators[0]) in ("_banned", "protected_names") or isinstance(n.test.comparators[0], (ast.List, ast.Tuple, ast.Set))) and au.raises(n.body, noret) for n in au.walk_no_nested(deco.node))
        via_setattr = bool(pat.find(f"setattr({sp['deco']}, key, val)", deco.node))
        R.check(dg and via_setattr, rule, key_of(deco), deco.site,
                f"@{sp['deco']} rejects reserved field names ({dg}) and adds every HDL attribute through setattr, i.e. the same path as procedural definition ({via_setattr})",
                why="a class-style definition differs from the equivalent procedural one")

        # ---- 3 sibling agreement
        rule = "C18.3-module-bundle-siblings"
        for dunder, must_raise in (("__setattr__", False), ("__getattr__", False), ("__delattr__", True), ("__init_subclass__", True)):
            m = ci.methods.get(dunder)
            ok = m is not None and (not must_raise or au.raises(m.node.body, noret))
            R.check(ok, rule, f"{sp['rel']}::{cls}.{dunder}", m.site if m else ci.site,
                    f"{cls}.{dunder} " + ("is defined" + (" and always raises" if must_raise else "") if ok else "is MISSING" if m is None else "does not always raise"),
                    why=f"{'attribute deletion' if dunder == '__delattr__' else 'sub-classing' if dunder == '__init_subclass__' else dunder} is accepted on a {cls} while the sibling class rejects it")
        ga = ci.methods["__getattr__"]
        ns_first = bool(pat.find("ns = self.__getattribute__('namespace')", ga.node)) and any(isinstance(n, ast.If) and ast.unparse(n.test) == "key in ns" and isinstance(n.body[-1], ast.Return) and ast.unparse(n.body[-1].value) == "ns[key]" for n in au.walk_no_nested(ga.node))
        g = ci.methods["get"]
        grets = shared.returns_of(g.node)
        get_ns = len(grets) == 1 and shared.prov_text(g.node, grets[0].value) == "self.__getattribute__('namespace').get(name)"
        R.check(ns_first and get_ns, rule, f"{sp['rel']}::{cls}::get-and-getattr-read-namespace", ci.site,
                f"attribute access returns namespace[key] when present ({ns_first}); get(name) reads the same namespace ({get_ns})", why="get(name) and attribute access return different objects")

        # ---- 4 parent link, 5 port view, 6 validation before store
        rule = "C18.4-insert-discipline"
        pl = [st for st in au.stmts(fa.node) if isinstance(st, ast.Assign) and ast.unparse(st.targets[0]) == f"{val}.{sp['parent']}" and ast.unparse(st.value) == arg
              and {(id(t), p_) for t, p_ in shared.path_conditions(fa.node, st)} == {(id(t), p_) for t, p_ in shared.path_conditions(fa.node, stores[0])}]
        R.check(len(pl) == 1, rule, key_of(fa, f"{cls}-parent-link"), fa.site, f"{cls}._add sets `{val}.{sp['parent']} = {arg}` unconditionally: {len(pl) == 1}", why="the inserted object does not report the container as its parent (Orphanage then rejects or mis-accepts it)")
        both = all(any(ast.unparse(st.targets[0].value) == f"{arg}.namespace" for st in stores) for _ in (0,)) and any(ast.unparse(st.targets[0].value) == "type_ctr" or ast.unparse(st.targets[0].value).startswith(arg + ".") and not ast.unparse(st.targets[0].value).endswith("namespace") for st in stores)
        R.check(both, rule, key_of(fa, f"{cls}-both-views"), fa.site, f"{cls}._add stores into the per-kind container and into the namespace under the same key `{val}.name`: {both}", why="namespace and per-kind views diverge")
        frz = False
        for n in au.walk_no_nested(fa.node):
            if isinstance(n, ast.If) and "_elaborated" in ast.unparse(n.test) and (au.raises(n.body, noret) != au.raises(n.orelse, noret)):
                live = not au.raises(n.body, noret)
                # every store (and the eviction) lies in the branch that does not raise
                frz = all(any(t is n.test and pol == live for t, pol in shared.path_conditions(fa.node, x)) for x in list(stores) + list(ev_loops))
        R.check(frz, rule, key_of(fa, f"{cls}-freeze-guard"), fa.site, f"{cls}._add refuses additions after elaboration before storing anything: {frz}", why="an elaborated definition is modified")
        for meth in ("add", "__setattr__"):
            m = ci.methods[meth]
            asserts = [c for c in au.calls_in(m.node) if dotted(c.func) == sp["assert_fn"]]
            adds = [c for c in au.calls_in(m.node) if dotted(c.func) == "_add"]
            ok = bool(asserts) and bool(adds) and max(a.lineno for a in asserts) < min(a.lineno for a in adds)
            R.check(ok, rule, key_of(m, "validated-first"), m.site, f"{cls}.{meth} validates the value's kind before _add stores it: {ok}", why="a non-HDL value (a Module, a Generator, an int) lands in the namespace")
        af = repo.func(sp["rel"], sp["assert_fn"])
        ok = any(isinstance(n, ast.If) and (au.raises(n.body, noret | {"_attr_type_error"}) != au.raises(n.orelse, noret | {"_attr_type_error"})) for n in au.walk_no_nested(af.node))
        R.check(ok, rule, key_of(af), af.site, f"{sp['assert_fn']} raises for values outside the attribute union: {ok}", why="non-HDL values are accepted")
        addm = ci.methods["add"]
        neither = shared.raises_under(addm.node, [("name is None", True), ("val.name is None", True)], noret) or None
        bothn = shared.raises_under(addm.node, [("name is None", False), ("val.name is None", False)], noret) or None
        one = not shared.raises_under(addm.node, [("name is None", True), ("val.name is None", False)], noret) and not shared.raises_under(addm.node, [("name is None", False), ("val.name is None", True)], noret)
        R.check(neither is not None and bothn is not None and one, rule, key_of(addm, "naming"), addm.site,
                f"{cls}.add rejects anonymous values ({neither is not None}) and conflicting names ({bothn is not None})", why="an object is stored under None, or silently renamed")
        sa_name = bool(pat.find("val.name = key", sa.node))
        R.check(sa_name, rule, key_of(sa, "names-by-key"), sa.site, f"{cls}.__setattr__ names the value after the attribute key: {sa_name}", why="the object is stored under a key that differs from its name")

    # ---- 5 port view (Module only)
    rule = "C18.5-port-view"
    fa = repo.func(F_MODULE, "_add")
    ok = False
    for n in au.walk_no_nested(fa.node):
        if isinstance(n, ast.If) and ast.unparse(n.test) == "isinstance(val, Signal)":
            inner = [x for x in n.body if isinstance(x, ast.If)]
            if inner and ast.unparse(inner[0].test) == "val.vis == Visibility.PORT":
                t = ast.unparse(inner[0].body[0]) if inner[0].body else ""
                f = ast.unparse(inner[0].orelse[0]) if inner[0].orelse else ""
                ok = t == "type_ctr = module.ports" and f == "type_ctr = module.signals"
    R.check(ok, rule, key_of(fa, "port-iff-vis-port"), fa.site, f"a Signal goes to `ports` iff its visibility is PORT at insertion, else to `signals`: {ok}", why="a port is listed as an internal signal (or vice versa): it is exported without a Port entry")
    attrs = set(union(repo, F_MODULE, "ModuleAttr"))
    h = isinstance_handled(repo, fa, subject="val")
    R.check(attrs <= h, rule, key_of(fa, "kinds"), fa.site, f"Module._add has a container for every ModuleAttr kind: {sorted(h)} ⊇ {sorted(attrs)}", why="an attribute kind is stored nowhere")
    fb = repo.func(F_BUNDLE, "_add")
    hb = isinstance_handled(repo, fb, subject="val")
    battrs = set(union(repo, F_BUNDLE, "BundleAttr"))
    R.check(battrs <= hb, rule, key_of(fb, "kinds"), fb.site, f"Bundle._add has a container for every BundleAttr kind: {sorted(hb)} ⊇ {sorted(battrs)}", why="an attribute kind is stored nowhere")

    # ---- 7 freeze guards are live
    R.run(c02.dead_guards, repo, R, "C18.7-freeze-guards-live", [("_elaborated", "Module", F_MODULE), ("_elaborated", "Bundle", F_BUNDLE)])
    R.floor("C18.1-reused-name-evicted", 2)
    R.floor("C18.2-reserved-names-complete", 6)
    R.floor("C18.3-module-bundle-siblings", 10)
    R.floor("C18.4-insert-discipline", 14)
