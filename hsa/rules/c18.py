"""C18 — module and bundle namespaces stay coherent under any edit sequence.

Local invariants of `_add` / `__setattr__` / `add` / `get` on Module and Bundle
that are inductive for setattr/add/get histories: eviction of re-used names,
complete reserved-name lists, sibling agreement of the two classes, parent
link, port view, rejection of non-HDL values, live freeze guards.
"""

from __future__ import annotations

import ast
from typing import Dict, List, Optional, Set, Tuple

from ..core import AnalysisError, ClassInfo, FuncInfo, Repo, dotted
from .. import au, pat
from .common import *  # noqa
from .common import key_of, noreturn_set, isinstance_handled, union
from . import shared, c02

SPEC = {
    "Module": dict(rel=F_MODULE, arg="module", parent="_parent_module", special={"name"}, assert_fn="_assert_module_attr", deco="module"),
    "Bundle": dict(rel=F_BUNDLE, arg="bundle", parent="_parent_bundle", special={"name", "roles"}, assert_fn="assert_bundle_attr", deco="bundle"),
}


def kind_dicts(ci: ClassInfo) -> List[str]:
    init = ci.methods["__init__"]
    out = []
    for n in ast.walk(init.node):
        if isinstance(n, (ast.Assign, ast.AnnAssign)):
            tg = n.targets[0] if isinstance(n, ast.Assign) else n.target
            if isinstance(tg, ast.Attribute) and isinstance(tg.value, ast.Name) and tg.value.id == "self" and n.value is not None and ast.unparse(n.value) in ("dict()", "{}"):
                out.append(tg.attr)
    return out


def banned_list(repo: Repo, rel: str) -> Set[str]:
    sf = repo.file(rel)
    node = sf.defs.get("_banned")
    if not isinstance(node, ast.Assign) or not isinstance(node.value, (ast.List, ast.Tuple, ast.Set)):
        raise AnalysisError(f"anchor-vanished: `_banned` list in {rel}")
    return {e.value for e in node.value.elts if isinstance(e, ast.Constant)}


def reserved_names(repo: Repo, rel: str, ci: ClassInfo, noret):
    """The names `__setattr__` refuses as reserved, and the test that refuses them (as text) — for the two ways of
    keeping them: a module-level list (`key in _banned`), or a module-level predicate over the key whose returns are
    membership tests in such lists and in the instance's own attribute dict (`vars(x)` / `x.__dict__`)."""
    sf = repo.file(rel)
    sa = ci.methods["__setattr__"]

    def list_consts(name: str) -> Optional[Set[str]]:
        node = sf.defs.get(name)
        if isinstance(node, (ast.Assign, ast.AnnAssign)) and isinstance(node.value, (ast.List, ast.Tuple, ast.Set)) and all(isinstance(e, ast.Constant) for e in node.value.elts):
            return {e.value for e in node.value.elts}
        return None

    def own_attrs() -> Set[str]:
        out = set()
        for c in repo.mro(ci):
            for m in c.methods.values():
                if m.name in ("__init__", "__post_init__") and m.node.args.args:
                    sn = m.node.args.args[0].arg
                    out |= {n.attr for n in ast.walk(m.node) if isinstance(n, ast.Attribute) and isinstance(n.ctx, ast.Store) and isinstance(n.value, ast.Name) and n.value.id == sn}
        return out

    def membership(t: ast.AST, kv: str) -> Optional[Set[str]]:
        if isinstance(t, ast.BoolOp) and isinstance(t.op, ast.Or):
            parts = [membership(v, kv) for v in t.values]
            return None if any(p is None for p in parts) else set().union(*parts)
        if isinstance(t, ast.Compare) and len(t.ops) == 1 and isinstance(t.ops[0], ast.In) and ast.unparse(t.left) == kv:
            c = t.comparators[0]
            if isinstance(c, ast.Name):
                return list_consts(c.id)
            if isinstance(c, (ast.List, ast.Tuple, ast.Set)) and all(isinstance(e, ast.Constant) for e in c.elts):
                return {e.value for e in c.elts}
            if (isinstance(c, ast.Call) and isinstance(c.func, ast.Name) and c.func.id == "vars" and len(c.args) == 1) or (isinstance(c, ast.Attribute) and c.attr == "__dict__"):
                return own_attrs()
        if isinstance(t, ast.Constant) and t.value is False:
            return set()
        return None

    for n in au.walk_no_nested(sa.node):
        if not isinstance(n, ast.If) or au.raises(n.body, noret) == au.raises(n.orelse, noret):
            continue
        t = n.test
        if isinstance(t, ast.UnaryOp) and isinstance(t.op, ast.Not):
            t = t.operand
        direct = membership(t, "key")
        if direct is not None and len(direct) >= 3:
            return direct, ast.unparse(t)
        if isinstance(t, ast.Call) and isinstance(t.func, ast.Name) and any(isinstance(a, ast.Name) and a.id == "key" for a in t.args):
            pf = repo.find_func(rel, t.func.id)
            if pf is None:
                continue
            kv = pf.node.args.args[[i for i, a in enumerate(t.args) if isinstance(a, ast.Name) and a.id == "key"][0]].arg
            acc: Set[str] = set()
            for r_ in shared.returns_of(pf.node):
                for v, _c in shared.alternatives(pf.node, r_.value, shared.path_conditions(pf.node, r_), at=r_):
                    got = membership(v, kv)
                    if got is None:
                        raise AnalysisError(f"idiom-unknown: {pf.site} returns `{ast.unparse(v)[:60]}`: not a membership test in fixed lists or the instance's attributes")
                    acc |= got
            if len(acc) >= 3:
                return acc, ast.unparse(t)
    raise AnalysisError(f"anchor-vanished: `_banned` list in {rel}")


def check(repo: Repo, R) -> None:
    from .shared import precedes as shared_before

    noret = noreturn_set(repo)
    for cls, sp in SPEC.items():
        ci = repo.cls(sp["rel"], cls)
        fa = repo.func(sp["rel"], "_add")
        arg = fa.node.args.args[0].arg
        val = fa.node.args.args[1].arg
        kinds = [k for k in kind_dicts(ci) if k != "namespace"]
        if "namespace" not in kind_dicts(ci) or len(kinds) < 2:
            raise AnalysisError(f"anchor-vanished: per-kind containers of {cls}: {kind_dicts(ci)}")

        # ---- 1 eviction
        rule = "C18.1-reused-name-evicted"
        stores = [st for st in au.stmts(fa.node) if isinstance(st, ast.Assign) and isinstance(st.targets[0], ast.Subscript) and ast.unparse(st.targets[0].slice) == f"{val}.name"]
        if len(stores) < 2:
            raise AnalysisError(f"idiom-unknown: container stores in {fa.site}")
        from .shared import path_conditions, conds_imply, parse_cond

        # every removal `<container>.pop(<key>)` of the function, as (container, key, conditions, loop it runs in) — with a
        # loop over a literal tuple of containers written out per container, and locals replaced by what reaches them
        effects = pop_effects(fa, arg)
        NS_GET = (f"{arg}.namespace.get({val}.name)", f"{arg}.namespace.get({val}.name, None)")

        def ctext(t):
            return ast.unparse(t)

        # (a) a re-used name: its previous holder leaves every per-kind view
        evicted: Set[str] = set()
        guard_ok = True
        guard_txt = []
        first_store = stores[0]
        for cont, key, conds, site, loop in effects:
            if key != f"{val}.name" or not cont.startswith(arg + ".") or cont == f"{arg}.namespace":
                continue
            kind = cont.split(".", 1)[1]
            # conditions: the view holds the previous holder of the name; the previous holder exists and is another object
            rest = []
            per_view = False
            for t, pol in conds:
                tt = ctext(t)
                if pol and any(tt in (f"{cont}.get({val}.name) is {g_}", f"{g_} is {cont}.get({val}.name)", f"{cont}.get({val}.name, None) is {g_}") for g_ in NS_GET):
                    per_view = True
                elif pol and tt == f"{val}.name in {cont}":
                    per_view = True
                else:
                    rest.append((t, pol))
            # whenever the insertion is reached and another object holds the name, this removal has run
            st_pc = shared.resolved_conditions(fa.node, path_conditions(fa.node, first_store))
            holds = conds_imply(list(st_pc) + [(parse_cond(f"{NS_GET[0]} is None"), False), (parse_cond(f"{NS_GET[0]} is {val}"), False)], [(parse_cond(ctext(t).replace(NS_GET[1], NS_GET[0])), pol) for t, pol in rest])
            if per_view and holds is True and shared_before(fa.node, site, first_store):
                evicted.add(kind)
            else:
                guard_ok = False
                guard_txt.append(f"{cont}: " + (" and ".join(("" if pol else "not ") + f"({ctext(t)})" for t, pol in conds) or "unconditional"))
        # (b) an object already held under another key leaves that key (namespace and per-kind views) before it is stored again
        moved_views: Set[str] = set()
        ns_popped = False
        for cont, key, conds, site, loop in effects:
            if loop is None or not isinstance(loop.iter, ast.ListComp) or len(loop.iter.generators) != 1:
                continue
            g_ = loop.iter.generators[0]
            if ast.unparse(g_.iter) != f"{arg}.namespace.items()" or not (isinstance(g_.target, ast.Tuple) and len(g_.target.elts) == 2):
                continue
            kk, hh = [ast.unparse(x) for x in g_.target.elts]
            conds_ = {ast.unparse(c) for c in (g_.ifs[0].values if len(g_.ifs) == 1 and isinstance(g_.ifs[0], ast.BoolOp) and isinstance(g_.ifs[0].op, ast.And) else g_.ifs)}
            lv_ = ast.unparse(loop.target)
            if conds_ != {f"{hh} is {val}", f"{kk} != {val}.name"} or ast.unparse(loop.iter.elt) != kk or key != lv_ or not shared_before(fa.node, loop, first_store):
                continue
            inner = [(ctext(t), pol) for t, pol in conds[len(shared.resolved_conditions(fa.node, path_conditions(fa.node, loop))):]]
            if cont == f"{arg}.namespace" and not inner:
                ns_popped = True
            elif cont.startswith(arg + ".") and all(pol and tt in (f"{cont}.get({lv_}) is {val}", f"{cont}.get({lv_}, None) is {val}", f"{lv_} in {cont}") for tt, pol in inner):
                moved_views.add(cont.split(".", 1)[1])
        moved = ns_popped and set(kinds) <= moved_views
        R.check(moved, rule, key_of(fa, f"{cls}-one-key-per-object"), fa.site,
                f"{cls}._add: an object that is already held under another name is removed from that key (namespace and every per-kind view) before it is stored under its new one: {moved}",
                why="`m.a = sig; m.b = sig` leaves the signal (now named `b`) under both keys: get('a') returns an object of another name and the module declares signal `b` twice")
        # alternative: reject re-use outright
        rejects = any(isinstance(n, ast.If) and ast.unparse(n.test) in (f"{val}.name in {arg}.namespace",) and au.raises(n.body, noret) for n in au.walk_no_nested(fa.node))
        ok = rejects or (set(kinds) <= evicted and guard_ok)
        ev_loops = [site for cont, key, conds, site, loop in effects if key == f"{val}.name" and cont != f"{arg}.namespace"]
        R.check(ok, rule, key_of(fa, cls), fa.site,
                f"{cls}._add: per-kind containers {kinds}; before inserting, a re-used name is removed from {sorted(evicted) or 'none of them'}"
                + (" (or re-use is rejected)" if rejects else "") + ("" if ok else f" — MISSING containers {sorted(set(kinds) - evicted)}" if set(kinds) - evicted else f" — the eviction is skipped in some case where another object holds the name: {guard_txt[:2]}"),
                why="assigning an instance to a name that held a signal leaves the signal in the signals view: get(name) and the views disagree, and both objects are exported")

        # ---- 2 reserved names complete
        rule = "C18.2-reserved-names-complete"
        banned, banned_test = reserved_names(repo, sp["rel"], ci, noret)
        public = {a for a in shared.instance_attrs(repo, ci) if not a.startswith("_")}
        need = public - sp["special"]
        missing = sorted(need - banned)
        R.check(not missing, rule, f"{sp['rel']}::{cls}._banned", ci.site,
                f"names that normal attribute lookup resolves on a {cls}: {sorted(public)}; reserved: {sorted(banned)} + special-cased {sorted(sp['special'])}" + (f"; NOT RESERVED: {missing}" if missing else ""),
                why=f"`x.{missing[0] if missing else 'n'} = Signal()` stores an HDL attribute that attribute access never returns (the class attribute wins): get(n) and getattr disagree")
        sa = ci.methods["__setattr__"]
        g = c02.has_guard(sa, lambda t: ast.unparse(t) == banned_test, noret)
        R.check(g is not None, rule, key_of(sa, "banned-guard"), sa.site, f"{cls}.__setattr__ rejects reserved names: {g is not None}", why="reserved names can be overwritten")
        deco = repo.func(sp["rel"], sp["deco"])
        dg = any(isinstance(n, ast.If) and isinstance(n.test, ast.Call) and isinstance(banned_test, str) and isinstance(n.test.func, ast.Name) and banned_test.startswith(n.test.func.id + "(") and au.raises(n.body, noret) for n in au.walk_no_nested(deco.node)) or any(isinstance(n, ast.If) and isinstance(n.test, ast.Compare) and len(n.test.ops) == 1 and isinstance(n.test.ops[0], ast.In) and ast.unparse(n.test.left) == "key"
                 and (ast.unparse(n.test.comparators[0]) in ("_banned", "protected_names") or isinstance(n.test.comparators[0], (ast.List, ast.Tuple, ast.Set))) and au.raises(n.body, noret) for n in au.walk_no_nested(deco.node))
        via_setattr = bool(pat.find(f"setattr({sp['deco']}, key, val)", deco.node))
        R.check(dg and via_setattr, rule, key_of(deco), deco.site,
                f"@{sp['deco']} rejects reserved field names ({dg}) and adds every HDL attribute through setattr, i.e. the same path as procedural definition ({via_setattr})",
                why="a class-style definition differs from the equivalent procedural one")
        # the fields the decorator treats specially are exactly the documented names: every other key takes the
        # procedural path (setattr under its own name, or forgotten)
        for c_ in au.calls_in(deco.node):
            if isinstance(c_.func, ast.Name) and c_.func.id == "setattr" and len(c_.args) == 3 and isinstance(c_.args[1], ast.Constant):
                (pos_, ks_), opq_ = shared.key_tests(deco.node, c_, "key")
                ks_ = {k for k in ks_ if not str(k).startswith("@")}
                doc_ = {c_.args[1].value, c_.args[1].value.capitalize()}
                ok_ = pos_ and not opq_ and ks_ <= doc_
                R.check(ok_, rule, key_of(deco, f"special-field-{c_.args[1].value}"), deco.at(c_),
                        f"@{sp['deco']} diverts a class-body field to `{c_.args[1].value}` exactly when it is named one of {sorted(doc_)}: " + (f"names {sorted(ks_)}" if pos_ and not opq_ else f"decided by {opq_ or 'no comparison with fixed names'}"),
                        why=f"a field whose name merely resembles `{c_.args[1].value}` (another capitalisation) is taken for it: the class body fails or sets it, the procedural definition stores a Signal")

        # ---- 3 sibling agreement
        rule = "C18.3-module-bundle-siblings"
        for dunder, must_raise in (("__setattr__", False), ("__getattr__", False), ("__delattr__", True), ("__init_subclass__", True)):
            m = ci.methods.get(dunder)
            ok = m is not None and (not must_raise or au.raises(m.node.body, noret))
            R.check(ok, rule, f"{sp['rel']}::{cls}.{dunder}", m.site if m else ci.site,
                    f"{cls}.{dunder} " + ("is defined" + (" and always raises" if must_raise else "") if ok else "is MISSING" if m is None else "does not always raise"),
                    why=f"{'attribute deletion' if dunder == '__delattr__' else 'sub-classing' if dunder == '__init_subclass__' else dunder} is accepted on a {cls} while the sibling class rejects it")
        ga = ci.methods["__getattr__"]
        NS_ = "self.__getattribute__('namespace')"
        ns_first = any(isinstance(n, ast.If) and isinstance(n.test, ast.Compare) and len(n.test.ops) == 1 and isinstance(n.test.ops[0], ast.In) and ast.unparse(n.test.left) == "key"
                       and shared.prov_text(ga.node, n.test.comparators[0]) == NS_ and isinstance(n.body[-1], ast.Return) and shared.prov_text(ga.node, n.body[-1].value) == f"{NS_}[key]" for n in au.walk_no_nested(ga.node))
        g = ci.methods["get"]
        grets = shared.returns_of(g.node)
        get_ns = len(grets) == 1 and shared.prov_text(g.node, grets[0].value) == "self.__getattribute__('namespace').get(name)"
        R.check(ns_first and get_ns, rule, f"{sp['rel']}::{cls}::get-and-getattr-read-namespace", ci.site,
                f"attribute access returns namespace[key] when present ({ns_first}); get(name) reads the same namespace ({get_ns})", why="get(name) and attribute access return different objects")

        # ---- 4 parent link, 5 port view, 6 validation before store
        rule = "C18.4-insert-discipline"
        pl = [st for st in au.stmts(fa.node) if isinstance(st, ast.Assign) and ast.unparse(st.targets[0]) == f"{val}.{sp['parent']}" and ast.unparse(st.value) == arg
              and {(id(t), p_) for t, p_ in shared.path_conditions(fa.node, st)} == {(id(t), p_) for t, p_ in shared.path_conditions(fa.node, stores[0])}]
        R.check(len(pl) == 1, rule, key_of(fa, f"{cls}-parent-link"), fa.site, f"{cls}._add sets `{val}.{sp['parent']} = {arg}` unconditionally: {len(pl) == 1}", why="the inserted object does not report the container as its parent (Orphanage then rejects or mis-accepts it)")
        early_ = [r_ for r_ in shared.returns_of(fa.node) if pl and not any(shared.precedes(fa.node, p_, r_) for p_ in pl)]
        R.check(not early_, rule, key_of(fa, f"{cls}-no-return-before-parent-link"), fa.at(early_[0]) if early_ else fa.site,
                f"{cls}._add never returns before the parent link is set" if not early_ else f"{cls}._add returns at line {early_[0].lineno} without setting `{val}.{sp['parent']}`",
                why="an object the container already lists, but which another container took over in between, is handed back as held while it reports the other (or no) parent: Orphanage refuses the design")
        both = all(any(ast.unparse(st.targets[0].value) == f"{arg}.namespace" for st in stores) for _ in (0,)) and any(ast.unparse(st.targets[0].value) == "type_ctr" or ast.unparse(st.targets[0].value).startswith(arg + ".") and not ast.unparse(st.targets[0].value).endswith("namespace") for st in stores)
        R.check(both, rule, key_of(fa, f"{cls}-both-views"), fa.site, f"{cls}._add stores into the per-kind container and into the namespace under the same key `{val}.name`: {both}", why="namespace and per-kind views diverge")
        frz = False
        for n in au.walk_no_nested(fa.node):
            if isinstance(n, ast.If) and "_elaborated" in ast.unparse(n.test) and (au.raises(n.body, noret) != au.raises(n.orelse, noret)):
                live = not au.raises(n.body, noret)
                # every store (and the eviction) lies in the branch that does not raise
                frz = all(any(t is n.test and pol == live for t, pol in shared.path_conditions(fa.node, x)) for x in list(stores) + list(ev_loops))
        R.check(frz, rule, key_of(fa, f"{cls}-freeze-guard"), fa.site, f"{cls}._add refuses additions after elaboration before storing anything: {frz}", why="an elaborated definition is modified")
        # the refusal comes before anything is changed — the value's own name included (it may be an attribute already held)
        sa_ = ci.methods["__setattr__"]
        namings = [st for st in au.stmts(sa_.node) if isinstance(st, ast.Assign) and ast.unparse(st.targets[0]) == "val.name"]
        guards = [n for n in au.walk_no_nested(sa_.node) if isinstance(n, ast.If) and "_elaborated" in ast.unparse(n.test) and (au.raises(n.body, noret) != au.raises(n.orelse, noret))]
        named_after = bool(namings) and bool(guards) and all(any(any(t is g.test and pol == (not au.raises(g.body, noret)) for t, pol in shared.path_conditions(sa_.node, nm_)) for g in guards) for nm_ in namings)
        R.check(named_after, rule, key_of(sa_, f"{cls}-setattr-freeze-guard"), sa_.site,
                f"{cls}.__setattr__ names the value only where the definition is known not to be elaborated (the refusal comes first): {named_after}",
                why="`m.y = m.x` on an elaborated module is refused but leaves x renamed to y: the next export of the unchanged design differs")
        for meth in ("add", "__setattr__"):
            m = ci.methods[meth]
            asserts = [c for c in au.calls_in(m.node) if dotted(c.func) == sp["assert_fn"]]
            adds = [c for c in au.calls_in(m.node) if dotted(c.func) == "_add"]
            ok = bool(asserts) and bool(adds) and max(a.lineno for a in asserts) < min(a.lineno for a in adds)
            R.check(ok, rule, key_of(m, "validated-first"), m.site, f"{cls}.{meth} validates the value's kind before _add stores it: {ok}", why="a non-HDL value (a Module, a Generator, an int) lands in the namespace")
        af = repo.func(sp["rel"], sp["assert_fn"])
        ok = any(isinstance(n, ast.If) and (au.raises(n.body, noret | {"_attr_type_error"}) != au.raises(n.orelse, noret | {"_attr_type_error"})) for n in au.walk_no_nested(af.node))
        R.check(ok, rule, key_of(af), af.site, f"{sp['assert_fn']} raises for values outside the attribute union: {ok}", why="non-HDL values are accepted")
        addm = ci.methods["add"]
        neither = shared.raises_under(addm.node, [("name is None", True), ("val.name is None", True)], noret) or None
        bothn = shared.raises_under(addm.node, [("name is None", False), ("val.name is None", False)], noret) or None
        one = not shared.raises_under(addm.node, [("name is None", True), ("val.name is None", False)], noret) and not shared.raises_under(addm.node, [("name is None", False), ("val.name is None", True)], noret)
        R.check(neither is not None and bothn is not None and one, rule, key_of(addm, "naming"), addm.site,
                f"{cls}.add rejects anonymous values ({neither is not None}) and conflicting names ({bothn is not None})", why="an object is stored under None, or silently renamed")
        sa_name = bool(pat.find("val.name = key", sa.node))
        R.check(sa_name, rule, key_of(sa, "names-by-key"), sa.site, f"{cls}.__setattr__ names the value after the attribute key: {sa_name}", why="the object is stored under a key that differs from its name")

    # ---- 5 port view (Module only)
    rule = "C18.5-port-view"
    fa = repo.func(F_MODULE, "_add")
    ok = False
    for n in au.walk_no_nested(fa.node):
        if isinstance(n, ast.If) and ast.unparse(n.test) == "isinstance(val, Signal)":
            inner = [x for x in n.body if isinstance(x, ast.If)]
            if inner and ast.unparse(inner[0].test) == "val.vis == Visibility.PORT":
                t = ast.unparse(inner[0].body[0]) if inner[0].body else ""
                f = ast.unparse(inner[0].orelse[0]) if inner[0].orelse else ""
                ok = t == "type_ctr = module.ports" and f == "type_ctr = module.signals"
    R.check(ok, rule, key_of(fa, "port-iff-vis-port"), fa.site, f"a Signal goes to `ports` iff its visibility is PORT at insertion, else to `signals`: {ok}", why="a port is listed as an internal signal (or vice versa): it is exported without a Port entry")
    attrs = set(union(repo, F_MODULE, "ModuleAttr"))
    h = isinstance_handled(repo, fa, subject="val")
    R.check(attrs <= h, rule, key_of(fa, "kinds"), fa.site, f"Module._add has a container for every ModuleAttr kind: {sorted(h)} ⊇ {sorted(attrs)}", why="an attribute kind is stored nowhere")
    fb = repo.func(F_BUNDLE, "_add")
    hb = isinstance_handled(repo, fb, subject="val")
    battrs = set(union(repo, F_BUNDLE, "BundleAttr"))
    R.check(battrs <= hb, rule, key_of(fb, "kinds"), fb.site, f"Bundle._add has a container for every BundleAttr kind: {sorted(hb)} ⊇ {sorted(battrs)}", why="an attribute kind is stored nowhere")

    # ---- 6 the passes take objects out of a module through both books (namespace and per-kind view) or not at all
    from . import c05 as _c05
    if "c18" not in shared.ATTACHING:
        shared.ATTACHING.append("c05")
        try:
            R.run(_c05.check, repo, shared.Retag(R, lambda r: "C18.6-passes-keep-namespace-and-views-paired" if (r.startswith("C05.3") or r.startswith("C05.1")) else None,
                                                "after elaboration an instance bundle's name still answers in get() and attribute access while the `instbundles` view is empty: the namespace no longer matches the views or the export"))
        finally:
            shared.ATTACHING.pop()
    # ---- 7 freeze guards are live
    R.run(c02.dead_guards, repo, R, "C18.7-freeze-guards-live", [("_elaborated", "Module", F_MODULE), ("_elaborated", "Bundle", F_BUNDLE)])
    R.floor("C18.1-reused-name-evicted", 2)
    R.floor("C18.2-reserved-names-complete", 6)
    R.floor("C18.3-module-bundle-siblings", 10)
    R.floor("C18.4-insert-discipline", 14)



def pop_effects(fa: FuncInfo, arg: str):
    """[(container text, key text, resolved conditions, call site, enclosing loop or None)] for every `<c>.pop(<k>[, d])` in fa.
    A loop over a literal tuple of containers contributes one effect per element (loop variable written out); locals
    (a per-view temporary, the previous holder `old`) are replaced by the definitions that reach the call."""
    import copy as _c

    out = []
    fn = fa.node
    for call in au.calls_in(fn):
        if not (isinstance(call.func, ast.Attribute) and call.func.attr == "pop" and call.args):
            continue
        loop = shared.enclosing(fn, call, (ast.For,))
        subst_sets = [dict()]
        outer_loop = loop
        if loop is not None and isinstance(loop.iter, (ast.Tuple, ast.List)) and isinstance(loop.target, ast.Name):
            subst_sets = [{loop.target.id: e} for e in loop.iter.elts]
            outer_loop = shared.enclosing(fn, loop, (ast.For,))
        pcs = shared.path_conditions(fn, call)
        for sub in subst_sets:
            def S(e):
                class T(ast.NodeTransformer):
                    def visit_Name(self, node):
                        return _c.deepcopy(sub[node.id]) if node.id in sub and isinstance(node.ctx, ast.Load) else node
                return ast.fix_missing_locations(T().visit(_c.deepcopy(e)))
            recv_alts = shared.alternatives(fn, call.func.value, [], at=call)
            recv = S(recv_alts[0][0]) if len(recv_alts) == 1 else S(call.func.value)
            key_alts = shared.alternatives(fn, call.args[0], [], at=call)
            key = S(key_alts[0][0]) if len(key_alts) == 1 and isinstance(call.args[0], ast.Name) and shared.enclosing(fn, call, (ast.For,)) is None else S(call.args[0])
            conds = [(S(t), pol) for t, pol in shared.resolved_conditions(fn, pcs)]
            out.append((ast.unparse(recv), ast.unparse(key), conds, call, outer_loop if sub else loop))
    return out
