"""C13 — parameter values reach the package unchanged.

Decided: exhaustive value dispatch with the right ParamValue field per arm,
None skipped, prefix table total and name preserving, no float detour on any
value path, ideal-primitive port/parameter agreement with the installed reader,
to_scalar's conversion shape, name-by-name parameter dictionaries.
Digit exactness inside pydantic/decimal is not decided.
"""

from __future__ import annotations

import ast
from typing import Dict, List, Optional, Set, Tuple

from ..core import AnalysisError, FuncInfo, Repo, dotted
from .. import au, pat
from .common import *  # noqa
from .common import key_of, union, isinstance_handled, noreturn_set
from . import protofacts as pf
from . import c11

NEEDS_READER = True

ARM_FIELDS = {
    "str": "vlsir.ParamValue(literal=val)",
    "Enum": "vlsir.ParamValue(literal=val.value)",
    "Literal": "vlsir.ParamValue(literal=val.text)",
    "Prefixed": "vlsir.ParamValue(prefixed=export_prefixed(val))",
    "Decimal": "vlsir.ParamValue(literal=str(val))",
    "int": "vlsir.ParamValue(int64_value=val)",
    "float": "vlsir.ParamValue(double_value=val)",
}


from . import shared


def check(repo: Repo, R) -> None:
    R.run(value_dispatch, repo, R)
    R.run(none_skipped, repo, R)
    R.run(prefix_total, repo, R)
    R.run(no_float_detour, repo, R)
    R.run(no_value_memo, repo, R, "C13.7-no-memoisation-by-value")
    R.run(ideal_primitives, repo, R, "C13.5-ideal-primitives-agree-with-reader")
    R.run(to_scalar_shape, repo, R)
    # the documented renaming of the pulse source's parameters, each under its own name — the table shared with the importer
    from . import c11 as _c11
    R.run(_c11.inverse_tables, repo, shared.Retag(R, lambda r, k: "C13.5-ideal-primitives-agree-with-reader" if "export_primitive_params" in k else None,
                                                 "a pulse source's fall time is exported as its rise time (or under another VLSIR name): the instance carries a value that was not given for that parameter"))
    # the values given by keyword are the values of the parameter object: nothing is filtered on the way (C09.1 clause)
    from . import c09 as _c09
    R.run(_c09.cache_discipline, repo, shared.Retag(R, lambda r, k: "C13.2-none-omitted" if "call.py" in k or "param_call" in k else None,
                                                    "`Vdc(dc=None)` by keyword silently becomes the default: the exporter's None rule can no longer omit the parameter, and `dc=0` appears on the instance"))
    # ... and on import the documented renaming is applied before anything is selected by Hdl21 name (C11.2 clause)
    R.run(_c11.absent_means_none, repo, shared.Retag(R, lambda r, k: "C13.5-ideal-primitives-agree-with-reader" if "renamed-before-selected" in k else None,
                                                     "a pulse source's Literal delay is re-exported as a prefixed number"))
    # parameter dictionaries are built from the live parameter object on every export: nothing about an earlier one is kept
    st_ = shared.cross_call_state(repo.file(F_EXPORT).tree)
    R.check(not st_, "C13.7-no-memoisation-by-value", f"{F_EXPORT}::state", F_EXPORT, f"{F_EXPORT} remembers nothing from one export to the next" if not st_ else f"state kept between exports: {st_}",
            why="a dictionary remembered under the id() of a parameter object is handed out for the next object allocated at that address: an instance is exported with another instance's parameter values")
    R.floor("C13.1-value-dispatch", 8)
    R.floor("C13.4-no-float-detour", 5)
    R.floor("C13.5-ideal-primitives-agree-with-reader", 11)


def value_dispatch(repo: Repo, R):
    rule = "C13.1-value-dispatch"
    fi = repo.func(F_EXPORT, "export_param_value")
    v = fi.node.args.args[0].arg
    members = set(union(repo, F_EXPORT, "ToVlsirParam"))
    # Scalar = Annotated[Union[Prefixed, Literal], ..]
    expanded = set()
    for m in members:
        if m == "Scalar":
            expanded |= {"Prefixed", "Literal"}
        else:
            expanded.add(m)
    handled = isinstance_handled(repo, fi, subject=v)
    missing = sorted(expanded - handled)
    falls = au.dispatch_default_raises(fi.node, v)
    R.check(not missing and falls, rule, key_of(fi, "members"), fi.site, f"ToVlsirParam = {sorted(expanded)}; export_param_value handles {sorted(handled)}" + (f"; MISSING {missing}" if missing else "") + f"; anything else raises: {falls}",
            why="a parameter of an accepted type raises on export, or an unknown type is exported as an empty value")
    order: List[str] = []
    for st, classes, arm in au.dispatch_arms(fi.node, v):
        if True:
            if True:
                cls = ast.unparse(classes[0])
                cls = "None" if cls == "type(None)" else cls
                order.append(cls)
                if cls in ARM_FIELDS:
                    rets = [n for b in arm for n in ast.walk(b) if isinstance(n, ast.Return)]
                    want = ARM_FIELDS[cls].replace("val", v)
                    # every way out of the arm (a value of the class may leave by any of them)
                    gots = [shared.prov_text(fi.node, r_.value) if r_.value is not None else "None" for r_ in rets]
                    got = next((g for g in gots if g != want), gots[-1] if gots else None)
                    R.check(got == want, rule, key_of(fi, cls), fi.at(st), f"{cls} -> `{got}`; expected `{want}`",
                            why=f"a {cls}-valued parameter is exported through the wrong variant or with another value")
    # shadowing: a sub-type's arm must come before its super-type's (Decimal/Prefixed/Literal are unrelated to int/float/str; Enum may mix in str)
    def before(a, b):
        return a in order and b in order and order.index(a) < order.index(b)
    ok = before("None", "str") and (("Enum" not in order) or before("str", "Enum") or before("Enum", "str"))
    enum_guard = shared.fails_unless(fi.node, f"isinstance({v}.value, str)") is not None
    R.check(enum_guard, rule, key_of(fi, "enum-str-only"), fi.site, f"non-string enum values are rejected: {enum_guard}", why="an int-valued enum is exported as its repr")
    # name-by-name dictionaries
    fd = repo.func(F_EXPORT, "dictify_params")
    p = fd.node.args.args[0].arg
    ok1 = bool(pat.find(f"{{$F.name: getattr({p}, $F.name) for $F in fields({p})}}", fd.node))
    ok2 = any(isinstance(n, ast.If) and ast.unparse(n.test) == f"isinstance({p}, dict)" and ast.unparse(n.body[-1]) == f"return {p}" for n in au.walk_no_nested(fd.node))
    R.check(ok1 and ok2, rule, key_of(fd), fd.site, f"dictify_params maps every paramclass field to its own value ({ok1}); dicts pass through ({ok2})", why="a parameter is exported under another parameter's name")
    fx = repo.func(F_EXPORT, "ProtoExporter.export_instance")
    loop = [n for n in au.walk_no_nested(fx.node) if isinstance(n, ast.For) and ast.unparse(n.iter) == "params.items()"]
    # one loop after the dispatch, or one per arm of it: every one of them exports every pair
    ok = len(loop) >= 1 and all(isinstance(lp.target, ast.Tuple) and len(lp.target.elts) == 2 and bool(shared.calls_matching(lp, "pinst.parameters.append(vlsir.Param(name={}, value=export_param_value({})))".format(*[ast.unparse(x) for x in lp.target.elts]))) for lp in loop)
    # ... and every arm that picks a parameter dictionary runs into such a loop
    for c_, _b in pat.find("params = $F(inst.of.params)", fx.node):
        ok = ok and any(shared.precedes(fx.node, c_, lp) for lp in loop)
    R.check(ok, rule, key_of(fx, "param-loop"), fx.site, f"every (name, value) pair becomes Param(name=name, value=export_param_value(value)) on the instance: {ok}", why="parameters are dropped or mis-named on the instance")
    # which dictionary for which target
    pv = ast.unparse(loop[0].iter).split(".")[0] if loop else "params"
    def _src(cond, call):
        return any(shared.cond_match(fx.node, c, cond, True, use_prov=False) for c, _b in pat.find(f"{pv} = {call}(inst.of.params)", fx.node))
    phys = _src("inst.of.prim.primtype == PrimitiveType.PHYSICAL", "dictify_params")
    ideal = _src("inst.of.prim.primtype == PrimitiveType.IDEAL", "export_primitive_params")
    # external modules: the assignment that runs when the target can only be an ExternalModuleCall (`elif isinstance(..)`
    # or the `else` left after Module and PrimitiveCall)
    ext = any(shared.admissible_kinds(fx.node, c, "inst.of", {"Module", "PrimitiveCall", "ExternalModuleCall"}) == {"ExternalModuleCall"}
              for c, _b in pat.find(f"{pv} = dictify_params(inst.of.params)", fx.node))
    R.check(phys and ideal and ext, rule, key_of(fx, "param-source"), fx.site, f"physical primitives and external modules export their parameters name by name ({phys}, {ext}); ideal primitives through the renaming table ({ideal})",
            why="parameters of one target kind are exported through another kind's mapping")


def none_skipped(repo: Repo, R):
    rule = "C13.2-none-omitted"
    fx = repo.func(F_EXPORT, "ProtoExporter.export_instance")
    ok = None
    only = None
    extra = []
    for lp in au.walk_no_nested(fx.node):
        if isinstance(lp, ast.For) and ast.unparse(lp.iter) == "params.items()":
            if isinstance(lp.target, ast.Tuple) and len(lp.target.elts) == 2:
                prev_ok, prev_only = ok, only
                vv = ast.unparse(lp.target.elts[1])
                apps = pat.find("pinst.parameters.append($P)", lp)
                outer = len(shared.path_conditions(fx.node, lp))
                # every export inside the loop runs only for values that are not None ...
                ok = bool(apps) and all(shared.conds_imply(shared.path_conditions(fx.node, c), [(shared.parse_cond(f"{vv} is None"), False)]) is True for c, _b in apps)
                # ... and for every value that is not None: no other condition stands between a parameter and its export
                for c, _b in apps:
                    for t, pol in shared.path_conditions(fx.node, c)[outer:]:
                        if not (shared._atom(t)[0] == shared._atom(shared.parse_cond(f"{vv} is None"))[0]):
                            extra.append(("" if pol else "not ") + ast.unparse(t))
                only = bool(apps) and not extra
                only = only and not any(isinstance(n, (ast.Break, ast.Return)) for n in au.walk_no_nested(lp) if n is not lp)
                ok = ok and prev_ok is not False
                only = only and prev_only is not False
    ok, only = bool(ok), bool(only)
    R.check(ok, rule, key_of(fx), fx.site, f"None-valued parameters are skipped before export: {ok}", why="a None parameter is exported as an empty Param (netlisted as a blank value)")
    R.check(only, rule, key_of(fx, "only-none"), fx.site, f"every parameter whose value is not None is exported — nothing but `is None` decides: {only}" + (f"; also decided by {extra}" if extra else ""),
            why="a parameter explicitly set to 0, 0.0, False or '' is left out of the instance: the device is netlisted with the model's default instead")


def prefix_total(repo: Repo, R):
    rule = "C13.3-prefix-table"
    members, fe, fi, emap, imap = c11.prefix_tables(repo)
    bad = [n for n, v in members.items() if emap.get(str(int(ast.literal_eval(v)))) != f"vlsir.SIPrefix.{n}"]
    miss = shared.fails_unless(fe.node, "pre.value in $M") is not None
    R.check(not bad and len(members) == 21 and miss, rule, key_of(fe), fe.site, f"export_prefix: total over the {len(members)} prefixes, name preserving: {not bad}; an unknown prefix raises: {miss}", why="a prefixed value is exported with another prefix")
    fp = repo.func(F_EXPORT, "export_prefixed")
    a = fp.node.args.args[0].arg
    INT = f"{a}.number == int({a}.number)"
    prets = shared.returns_of(fp.node)
    ints = [r for r in prets if shared.prov_text(fp.node, r.value) == f"vlsir.Prefixed(int64_value=int({a}.number), prefix=export_prefix({a}.prefix))"]
    strs = [r for r in prets if shared.prov_text(fp.node, r.value) == f"vlsir.Prefixed(string_value=str({a}.number), prefix=export_prefix({a}.prefix))"]
    intarm = len(ints) == 1 and shared.cond_match(fp.node, ints[0], INT, True)
    strarm = len(strs) == 1 and shared.cond_match(fp.node, strs[0], INT, False) and len(prets) == 2
    pre = intarm and strarm
    R.check(intarm and strarm and pre, rule, key_of(fp), fp.site, f"export_prefixed: integer-valued numbers as int64 ({intarm}), all others as their exact decimal string ({strarm}), with the number's own prefix ({pre})",
            why="non-integer prefixed values lose digits (or integers are truncated)")


_VALUE_PATH = [(F_SCALAR, "to_scalar"), (F_PREFIX, "to_prefixed"), (F_EXPORT, "export_prefixed"), (F_EXPORT, "export_param_value"), (F_IMPORT, "import_prefixed")]


def no_float_detour(repo: Repo, R):
    rule = "C13.4-no-float-detour"
    for rel, q in _VALUE_PATH:
        fi = repo.func(rel, q)
        bad = []
        for c in au.calls_in(fi.node, nested=True):
            nm = dotted(c.func) or ""
            if nm == "float":
                bad.append(ast.unparse(c))
            if nm == "Decimal" and c.args:
                a0 = c.args[0]
                is_str = (isinstance(a0, ast.Call) and dotted(a0.func) == "str") or (isinstance(a0, ast.Constant) and isinstance(a0.value, (str, int)))
                # Decimal(v) where v is known to be a str parameter under isinstance(v, str)
                if not is_str:
                    conds = " ".join(ast.unparse(t) for t, p in __import__("hsa.rules.shared", fromlist=["x"]).path_conditions(fi.node, c) if p)
                    if f"isinstance({ast.unparse(a0)}, str)" in conds:
                        is_str = True
                if not is_str:
                    bad.append(ast.unparse(c))
        R.check(not bad, rule, key_of(fi), fi.site, f"{q}: no float() and no Decimal(<non-string>) on the value path" if not bad else f"{q}: float detour `{bad[0]}`",
                why="a decimal value passes through binary floating point and reaches the package with other digits (0.1 -> 0.1000000000000000055...)")


CACHING_DECORATORS = ("lru_cache", "cache", "cached_property", "memoize", "memoized")


def no_value_memo(repo: Repo, R, rule: str):
    """Functions on the export path are not memoised: Prefixed (and Scalar) values compare and hash by *value*,
    so a cache keyed by the argument returns the digits and prefix of an earlier, equal-valued but differently
    written number."""
    n = 0
    for rel in (F_EXPORT, F_SCALAR, F_PREFIX):
        for fi in repo.funcs_in(rel):
            decos = [(dotted(d.func) if isinstance(d, ast.Call) else dotted(d)) or "" for d in fi.node.decorator_list]
            bad = [d for d in decos if d.split(".")[-1] in CACHING_DECORATORS]
            n += 1
            if bad:
                R.bad(rule, key_of(fi, "memoised"), fi.site, f"{fi.qual} is memoised with @{bad[0]}: arguments that are equal by value (1000*m and 1*UNIT) share one cached result",
                      "a parameter is exported with the digits and prefix of an earlier, equal-valued parameter; results depend on what was exported before")
    R.ok(rule, f"{F_EXPORT}::no-memoisation", F_EXPORT, f"{n} functions of the export / scalar-conversion path inspected: none is memoised by argument value")


def ideal_primitives(repo: Repo, R, rule: str):
    prims = pf.hdl21_primitives(repo)
    reader = pf.reader_primitives(repo)
    fx = repo.func(F_EXPORT, "ProtoExporter.export_instance")
    er = pf.dict_by_key(fx, "inst.of.prim.name")
    if er is None:
        raise AnalysisError("idiom-unknown: ideal-primitive name table (`<table>[inst.of.prim.name]`) not found as a dict literal in the exporter")
    emap = er[0]
    fep = repo.func(F_EXPORT, "export_primitive_params")
    rm = pf.returned_mapping(fep)
    rename = {k: v.split(".")[-1] for k, v in rm.items()} if rm else None
    for name, p in sorted(prims.items()):
        if p["primtype"] != "IDEAL":
            continue
        v = emap.get(name)
        if v is None:
            R.bad(rule, f"{F_PRIMS}::{name}", f"{F_PRIMS}:{p['line']}", f"ideal primitive {name} has no VLSIR mapping", "instances of it cannot be exported")
            continue
        rd = reader.get(v)
        if rd is None:
            R.bad(rule, f"{F_PRIMS}::{name}", f"{F_PRIMS}:{p['line']}", f"{name} maps to `{v}`, which the installed vlsirtools does not define (has {sorted(reader)})", "the netlisters reject the instance")
            continue
        fields = pf.paramclass_fields(repo, F_PRIMS, p["paramtype"])
        exported = fields
        if p["paramtype"] == "PulseVoltageSourceParams" and rename:
            exported = list(rename)
        ports_ok = p["ports"] == rd["ports"]
        req_ok = set(rd["required"]) <= set(exported)
        # documented mapping: the VLSIR primitive is the one the hdl21 primitive is an alias of
        # (Vcvs -> vcvs, Vdc -> vdc, Resistor -> resistor, ...).  One frozen exception, confirmed by reading:
        # CurrentSource has aliases I/Idc/Isrc and maps to `isource` (the only current source vlsir.primitives defines).
        NAME_EXCEPTIONS = {"CurrentSource": "isource"}
        name_ok = v in {a.lower() for a in p["aliases"]} or NAME_EXCEPTIONS.get(name) == v
        R.check(name_ok, rule, f"{F_PRIMS}::{name}::vlsir-name", f"{F_PRIMS}:{p['line']}",
                f"{name} (aliases {p['aliases']}) -> vlsir.primitives.{v}: the target is the element the primitive is an alias of: {name_ok}",
                why="an ideal element is exported as another element with the same ports (e.g. a CCVS as a VCCS): same netlist shape, other circuit")
        R.check(ports_ok and req_ok, rule, f"{F_PRIMS}::{name}", f"{F_PRIMS}:{p['line']}",
                f"{name} -> vlsir.primitives.{v}: ports {p['ports']} vs reader {rd['ports']} ({'same order' if ports_ok else 'DIFFER'}); exported parameter names {exported} vs reader-required {rd['required']} ({'covered' if req_ok else 'MISSING ' + str(sorted(set(rd['required']) - set(exported)))})",
                why="the netlister connects the instance's ports positionally in the reader's order / looks its parameters up by the reader's names: a mismatch swaps terminals or drops the value")


def to_scalar_shape(repo: Repo, R):
    rule = "C13.6-to-scalar"
    fi = repo.func(F_SCALAR, "to_scalar")
    v = fi.node.args.args[0].arg
    srets = shared.returns_of(fi.node)
    asis = any(ast.unparse(r.value) == v and shared.cond_match(fi.node, r, f"isinstance({v}, (Prefixed, Literal))", True, use_prov=False) for r in srets)
    strarm = False
    for n in au.walk_no_nested(fi.node):
        if isinstance(n, ast.If) and ast.unparse(n.test) == f"isinstance({v}, str)":
            trys = [t for t in n.body if isinstance(t, ast.Try)]
            if trys:
                t = trys[0]
                strarm = ast.unparse(t.body[-1]) == f"return Prefixed(number={v})" and len(t.handlers) == 1 and ast.unparse(t.handlers[0].body[-1]) == f"return Literal(text={v})"
    nums = [r for r in srets if ast.unparse(r.value) == f"Prefixed(number={v})" and shared.cond_match(fi.node, r, f"isinstance({v}, str)", False, use_prov=False) and shared.cond_match(fi.node, r, f"isinstance({v}, (Prefixed, Literal))", False, use_prov=False)]
    num = len(nums) == 1
    reb = shared.param_rebound(fi.node, v)
    R.check(not reb, rule, key_of(fi, "value-as-given"), fi.at(reb[0]) if reb else fi.site,
            "to_scalar converts the value it was given (the argument is not rewritten first)" if not reb else f"`{ast.unparse(reb[0])[:80]}` rewrites the value before it is converted",
            why="the text of a literal parameter changes on the way into the package (padding, case, ...)")
    R.check(asis and strarm and num, rule, key_of(fi), fi.site, f"to_scalar: Prefixed/Literal unchanged ({asis}); strings become a Prefixed if numeric, else a Literal with the same text ({strarm}); numbers become Prefixed(number=v) ({num})",
            why="a numeric string becomes a Literal (or another string), or the literal's text differs from what was given")
