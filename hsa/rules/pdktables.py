"""F7 table evaluator: constant-folding partial evaluation of the *declarative*
module-level code of the PDK packages (dict literals of factory calls, the pure
factory helpers, default-size tables).  Anything else is `None` (unknown), never
guessed."""

from __future__ import annotations

import ast
from dataclasses import dataclass, field
from typing import Dict, List, Optional, Set, Tuple

from ..core import AnalysisError, ClassInfo, FuncInfo, Repo, SourceFile, dotted
from .. import au, pat
from . import protofacts as pf
from .common import F_PRIMS

PDKS = {
    "Sky130": dict(root="pdks/Sky130/sky130_hdl21/", logic="pdks/Sky130/sky130_hdl21/pdk_logic.py", dicts="pdks/Sky130/sky130_hdl21/primitives/prim_dicts.py", data="pdks/Sky130/sky130_hdl21/pdk_data.py", walker="Sky130Walker"),
    "Gf180": dict(root="pdks/Gf180/gf180_hdl21/", logic="pdks/Gf180/gf180_hdl21/pdk_logic.py", dicts="pdks/Gf180/gf180_hdl21/primitives/prim_dicts.py", data="pdks/Gf180/gf180_hdl21/pdk_data.py", walker="Gf180Walker"),
}


@dataclass
class Entry:
    table: str
    key: str  # unparsed key
    key_elems: List[str]  # for tuple keys: unparsed elements
    factory: str
    modname: Optional[str]
    ports: Optional[List[str]]
    paramtype: Optional[str]
    line: int


@dataclass
class PdkModel:
    name: str
    tables: Dict[str, List[Entry]] = field(default_factory=dict)
    defaults: Dict[str, Set[str]] = field(default_factory=dict)  # default table -> module names
    dispatch: Dict[str, str] = field(default_factory=dict)  # primitive name -> *_module_call method
    method_table: Dict[str, str] = field(default_factory=dict)  # *_module_call -> table name
    walker: Optional[ClassInfo] = None


def _const(e: ast.AST, env: Dict[str, ast.AST]):
    if isinstance(e, ast.Constant):
        return e.value
    if isinstance(e, ast.Name) and e.id in env:
        return _const(env[e.id], {})
    return None


def bind_args(fn: ast.FunctionDef, call: ast.Call) -> Dict[str, ast.AST]:
    env: Dict[str, ast.AST] = {}
    params = list(fn.args.posonlyargs) + list(fn.args.args)
    defaults = fn.args.defaults
    for p, d in zip(params[len(params) - len(defaults):], defaults):
        env[p.arg] = d
    for p, d in zip(fn.args.kwonlyargs, fn.args.kw_defaults):
        if d is not None:
            env[p.arg] = d
    for p, a in zip(params, call.args):
        env[p.arg] = a
    for k in call.keywords:
        if k.arg:
            env[k.arg] = k.value
    return env


class Evaluator:
    def __init__(self, repo: Repo, data_sf: SourceFile):
        self.repo = repo
        self.sf = data_sf
        self.prims = pf.hdl21_primitives(repo)
        self.prim_sf = repo.file(F_PRIMS)

    def prim_of(self, e: ast.AST) -> Optional[str]:
        d = dotted(e)
        if d is None:
            return None
        last = d.split(".")[-1]
        if last in self.prims:
            return last
        for n, p in self.prims.items():
            if last in p["aliases"]:
                return n
        return None

    def ports(self, e: ast.AST, env: Dict[str, ast.AST], locals_: Dict[str, ast.AST], depth=0) -> Optional[List[str]]:
        if depth > 8 or e is None:
            return None
        if isinstance(e, ast.Call) and (dotted(e.func) or "").split(".")[-1] in ("deepcopy", "copy", "list") and e.args:
            return self.ports(e.args[0], env, locals_, depth + 1)
        if isinstance(e, ast.Subscript):
            base = e.value
            key = _const(e.slice, env)
            d = None
            if isinstance(base, ast.Name) and base.id in locals_:
                d = au.dict_literal(locals_[base.id])
            elif isinstance(base, ast.Dict):
                d = au.dict_literal(base)
            if d is not None and key is not None:
                for k, v in d:
                    if _const(k, {}) == key:
                        return self.ports(v, env, locals_, depth + 1)
            return None
        if isinstance(e, ast.Attribute) and e.attr == "port_list":
            # <primitive>.port_list, possibly through a dict subscript
            p = self.prim_of(e.value)
            if p is not None:
                return list(self.prims[p]["ports"])
            if isinstance(e.value, ast.Subscript):
                base, key = e.value.value, _const(e.value.slice, env)
                if (isinstance(base, ast.Dict) or (isinstance(base, ast.Name) and base.id in locals_)) and key is not None:
                    d = au.dict_literal(base if isinstance(base, ast.Dict) else locals_[base.id])
                    for k, v in d or []:
                        if _const(k, {}) == key:
                            p = self.prim_of(v)
                            if p is not None:
                                return list(self.prims[p]["ports"])
            return None
        if isinstance(e, (ast.Name, ast.Attribute)):
            d = dotted(e)
            last = d.split(".")[-1] if d else None
            if isinstance(e, ast.Name) and e.id in locals_:
                return self.ports(locals_[e.id], env, locals_, depth + 1)
            # module-level list in the PDK data file, or in hdl21/primitives.py
            for sf in (self.sf, self.prim_sf):
                v = pf.module_value(self.repo, sf, last)
                if v is not None:
                    r = pf.port_names(self.repo, sf, v)
                    if r is not None:
                        return r
            return None
        if isinstance(e, (ast.List, ast.Tuple)):
            return pf.port_names(self.repo, self.sf, e)
        if isinstance(e, ast.ListComp) and len(e.generators) == 1:
            g = e.generators[0]
            it = env.get(g.iter.id) if isinstance(g.iter, ast.Name) else g.iter
            if isinstance(it, (ast.List, ast.Tuple)) and isinstance(e.elt, ast.Call):
                kw = {k.arg: k.value for k in e.elt.keywords}
                if isinstance(kw.get("name"), ast.Name) and kw["name"].id == ast.unparse(g.target):
                    names = [au.str_const(x) for x in it.elts]
                    if all(n is not None for n in names):
                        return names
            return None
        return None

    def factory(self, fi: FuncInfo, call: ast.Call) -> Dict[str, object]:
        env = bind_args(fi.node, call)
        locals_: Dict[str, ast.AST] = {}
        for st in fi.node.body:
            if isinstance(st, ast.Assign) and len(st.targets) == 1 and isinstance(st.targets[0], ast.Name):
                locals_.setdefault(st.targets[0].id, st.value)
        ctor = None
        for n in au.walk_no_nested(fi.node):
            c = None
            if isinstance(n, ast.Assign) and isinstance(n.value, ast.Call) and (dotted(n.value.func) or "").endswith("ExternalModule"):
                c = n.value
            if isinstance(n, ast.Return) and isinstance(n.value, ast.Call) and (dotted(n.value.func) or "").endswith("ExternalModule"):
                c = n.value
            if c is None:
                continue
            # conditions guarding this construction must evaluate to True under env
            from .shared import path_conditions
            ok = True
            for t, pol in path_conditions(fi.node, n):
                v = self._cond(t, env)
                if v is None or v != pol:
                    ok = False if v is not None else ok
                    if v is None:
                        ok = False
            if ok:
                ctor = c
                break
        if ctor is None:
            return dict(modname=None, ports=None, paramtype=None)
        kw = {k.arg: k.value for k in ctor.keywords}
        name = _const(kw.get("name"), env) if kw.get("name") is not None else None
        ports = self.ports(kw.get("port_list"), env, locals_)
        pt = kw.get("paramtype")
        ptype = None
        if pt is not None:
            if isinstance(pt, ast.Name) and pt.id in env:
                ptype = ast.unparse(env[pt.id])
            else:
                ptype = ast.unparse(pt)
            # follow a module-level alias `A = B`
            v = pf.module_value(self.repo, self.sf, ptype)
            if isinstance(v, ast.Name):
                ptype = v.id
        return dict(modname=name, ports=ports, paramtype=ptype)

    def _cond(self, t: ast.AST, env) -> Optional[bool]:
        if isinstance(t, ast.Compare) and len(t.ops) == 1 and isinstance(t.ops[0], (ast.Eq, ast.NotEq)):
            a, b = _const(t.left, env), _const(t.comparators[0], env)
            if a is None or b is None:
                return None
            return (a == b) if isinstance(t.ops[0], ast.Eq) else (a != b)
        return None


def load(repo: Repo, name: str) -> PdkModel:
    cfg = PDKS[name]
    sf_d = repo.file(cfg["dicts"])
    sf_data = repo.file(cfg["data"])
    ev = Evaluator(repo, sf_data)
    m = PdkModel(name)
    for st in sf_d.tree.body:
        tgt = None
        val = None
        if isinstance(st, ast.AnnAssign) and isinstance(st.target, ast.Name):
            tgt, val = st.target.id, st.value
        elif isinstance(st, ast.Assign) and len(st.targets) == 1 and isinstance(st.targets[0], ast.Name):
            tgt, val = st.targets[0].id, st.value
        if tgt is None or not isinstance(val, ast.Dict):
            continue
        if tgt.startswith("default_"):
            m.defaults[tgt] = {au.str_const(k) for k in val.keys if k is not None and au.str_const(k) is not None}
            continue
        entries = []
        for k, v in zip(val.keys, val.values):
            if k is None or not isinstance(v, ast.Call):
                continue
            fname = dotted(v.func)
            fi = repo.find_func(cfg["data"], fname) if fname else None
            if fi is None:
                entries.append(Entry(tgt, ast.unparse(k), [], fname or "?", None, None, None, v.lineno))
                continue
            r = ev.factory(fi, v)
            elems = [ast.unparse(e) for e in k.elts] if isinstance(k, ast.Tuple) else [ast.unparse(k)]
            entries.append(Entry(tgt, ast.unparse(k), elems, fname, r["modname"], r["ports"], r["paramtype"], v.lineno))
        if entries:
            m.tables[tgt] = entries
    # walker dispatch
    m.walker = repo.cls(cfg["logic"], cfg["walker"])
    vp = m.walker.methods.get("visit_primitive_call")
    if vp is None:
        raise AnalysisError(f"anchor-vanished: {cfg['walker']}.visit_primitive_call")
    for n in au.walk_no_nested(vp.node):
        if isinstance(n, ast.If):
            tests = n.test.values if isinstance(n.test, ast.BoolOp) and isinstance(n.test.op, ast.Or) else [n.test]
            prims = []
            for t in tests:
                mm = pat.match("call.prim is $P", t)
                if mm is not None:
                    p = ev.prim_of(mm["P"])
                    if p:
                        prims.append(p)
            ret = n.body[-1]
            if prims and isinstance(ret, ast.Return):
                mm = pat.match("self.$_(call.params)", ret.value) if False else None
                if isinstance(ret.value, ast.Call) and isinstance(ret.value.func, ast.Attribute) and ast.unparse(ret.value.func.value) == "self":
                    for p in prims:
                        m.dispatch[p] = ret.value.func.attr
    for meth in set(m.dispatch.values()):
        f = m.walker.methods.get(meth)
        if f is None:
            continue
        # the *_module helper it calls, and the table that helper consults
        tables = set()
        for c in au.calls_in(f.node):
            r = repo.resolve_call(c, f)
            if isinstance(r, FuncInfo) and r.cls is m.walker:
                for nm in au.names_in(r.node):
                    if nm in m.tables:
                        tables.add(nm)
        for nm in au.names_in(f.node):
            if nm in m.tables:
                tables.add(nm)
        if len(tables) == 1:
            m.method_table[meth] = next(iter(tables))
    return m
