"""C19 — built-in generators build the documented topologies.

Decided (dataflow / affine): the shape of Series (n units, private net of width
n-1, the two offset concatenations around the same net, parallel ports wired by
name), its corner cases, MosStack = Series over (d, s), Wrapper cloning every
port (signal and bundle valued) and passing it to the same-named port.  With
C01.3 (element k of an array receives bits [k*w, (k+1)*w)) this gives the chain
property; the exported net partition for every n and unit is not decided.
"""

from __future__ import annotations

import ast
from typing import Dict, List, Optional, Set, Tuple

from ..core import AnalysisError, FuncInfo, Repo, dotted
from .. import au, pat
from .common import *  # noqa
from .common import key_of
from . import c01, shared


def check(repo: Repo, R) -> None:
    rule = "C19.1-series-topology"
    fs = repo.func(F_GENERATORS, "Series")
    p = fs.node.args.args[0].arg
    defs = au.local_defs(fs.node)
    # the module being built, by role: the local bound to a fresh h.Module()
    mvs = [st.targets[0].id for st in au.stmts(fs.node) if isinstance(st, ast.Assign) and len(st.targets) == 1 and isinstance(st.targets[0], ast.Name) and ast.unparse(st.value) in ("h.Module()", "Module()")]
    if len(mvs) != 1:
        raise AnalysisError(f"idiom-unknown: the module built by {fs.site} is not a local bound to h.Module()")
    M = mvs[0]
    # internal net
    inets = pat.find(f"$I = {M}.add(h.Signal(name=$N, width={p}.nser - 1))", fs.node)
    if len(inets) != 1:
        nets = pat.find(f"$I = {M}.add(h.Signal(*$_))", fs.node)
        got = ast.unparse(nets[0][0]) if nets else None
        R.bad(rule, key_of(fs, "internal-net"), fs.site, f"the internal series net is `{got}`; expected one signal of width nser - 1 added to the module", "adjacent units do not each get their own private joining net")
        return
    inet = ast.unparse(inets[0][1]["I"])
    R.ok(rule, key_of(fs, "internal-net"), fs.at(inets[0][0]), f"one internal net `{inet}` of width nser - 1, owned by the generated module")
    from . import shared

    P_ = lambda e: shared.prov_text(fs.node, e, keep=(M,))  # `m` is the module being built: an object, not a value to substitute
    # the unit array and its connection dict
    arr = pat.find(f"{M}.add({p}.nser * {p}.unit(**$D), name=$N)", fs.node)
    dvar = ast.unparse(arr[0][1]["D"]) if len(arr) == 1 else None
    # writes to the connection dict, in program order: (kind, key node, value node, statement)
    writes = []
    if dvar:
        for st in au.stmts(fs.node):
            if isinstance(st, ast.Assign) and ast.unparse(st.targets[0]) == dvar:
                v = st.value
                if isinstance(v, ast.Dict):
                    for k, x in zip(v.keys, v.values):
                        writes.append(("item", k, x, st))
                elif isinstance(v, ast.DictComp):
                    writes.append(("comp", v.key, v, st))
                else:
                    writes.append(("other", None, v, st))
            elif isinstance(st, ast.Assign) and isinstance(st.targets[0], ast.Subscript) and ast.unparse(st.targets[0].value) == dvar:
                writes.append(("item", st.targets[0].slice, st.value, st))
            elif isinstance(st, ast.Expr) and isinstance(st.value, ast.Call) and ast.unparse(st.value.func) == f"{dvar}.update" and st.value.args:
                a0 = st.value.args[0]
                writes.append(("comp" if isinstance(a0, ast.DictComp) else "other", None, a0, st))
    # the two series entries, by role: <X>.name -> Concat(X, net) and <Y>.name -> Concat(net, Y)
    A = B = None
    wa = wb = None
    for kind, k, v, st in writes:
        if kind != "item":
            continue
        m1 = pat.match(f"h.Concat($X, {inet})", v)
        m2 = pat.match(f"h.Concat({inet}, $X)", v)
        if m1 is not None and ast.unparse(k) == f"{ast.unparse(m1['X'])}.name":
            A, wa = m1["X"], st
        if m2 is not None and ast.unparse(k) == f"{ast.unparse(m2['X'])}.name":
            B, wb = m2["X"], st
    if A is None or B is None:
        concat_writes = [ast.unparse(st) for kind, k, v, st in writes if kind == "item" and "Concat" in ast.unparse(v)]
        if not concat_writes:
            raise AnalysisError(f"idiom-unknown: series ports in {fs.site}")
        R.bad(rule, key_of(fs, "offset-concats"), fs.site, f"the series entries are {concat_writes}: expected one port <- Concat(port, {inet}) and the other <- Concat({inet}, port), each keyed by that port's name",
              "the chain is broken, reversed or closed on itself: unit k's second port is not unit k+1's first")
        return
    # ... which are the module's ports resolved from conns[0] and conns[1], in that order
    RES = {0: (f"_seriesconn({M}, {p}.conns[0])",), 1: (f"_seriesconn({M}, {p}.conns[1])",)}
    unpack = {}
    for st in au.stmts(fs.node):
        if isinstance(st, ast.Assign) and len(st.targets) == 1 and isinstance(st.targets[0], ast.Tuple) and len(st.targets[0].elts) == 2 and all(isinstance(x, ast.Name) for x in st.targets[0].elts):
            for k_, x in enumerate(st.targets[0].elts):
                unpack[x.id] = f"{P_(st.value)}[{k_}]"
    def res(e):
        t = ast.unparse(e)
        if t in unpack:
            return unpack[t]
        # a field / element of the record the resolving helper returns, read through the call
        pe = shared.prov(fs.node, e, keep=(M,))
        pj = shared.project_call(repo, fs, pe)
        return ast.unparse(pj) if pj is not None else ast.unparse(pe)
    resolved_ok = res(A) in RES[0] and res(B) in RES[1]
    comps = [w for w in writes if w[0] == "comp"]
    others = [w for w in writes if w[0] == "other"]
    last_first = [w for w in writes if w[0] == "item" and ast.unparse(w[1]) == f"{ast.unparse(A)}.name"]
    last_second = [w for w in writes if w[0] == "item" and ast.unparse(w[1]) == f"{ast.unparse(B)}.name"]
    first_ok = bool(last_first) and last_first[-1][3] is wa and resolved_ok
    second_ok = bool(last_second) and last_second[-1][3] is wb and resolved_ok
    # the series entries are written after the parallel ones (they must win), and nothing unknown writes the dict
    wins = bool(comps) and first_ok and second_ok and all(shared.precedes(fs.node, c[3], wa) and shared.precedes(fs.node, c[3], wb) for c in comps) and not others
    R.check(first_ok and second_ok and wins, rule, key_of(fs, "offset-concats"), fs.site,
            f"first series port (resolved from conns[0]) of the array <- Concat(A, {inet}) ({first_ok}); second (from conns[1]) <- Concat({inet}, B) ({second_ok}); these entries are the last writes of their keys ({wins}): "
            f"unit k's second port is {inet}[k] = unit k+1's first port, unit 0's first port is A, unit n-1's second port is B",
            why="the chain is broken, reversed or closed on itself — or the series entries are overwritten by the by-name parallel wiring, so that all units sit in parallel across the two series ports")
    R.check(len(arr) == 1, rule, key_of(fs, "array"), fs.site, f"an array of nser instances of the unit, connected by the connection dict: {len(arr) == 1}", why="the number of units differs from nser")
    # parallel ports: every module port that is not one of the two resolved series ports (by identity), wired by name
    par = byname = False
    for kind, k, v, st in comps:
        if isinstance(v, ast.DictComp) and len(v.generators) == 1 and ast.unparse(v.generators[0].iter) == f"io({M}).values()" and isinstance(v.generators[0].target, ast.Name):
            tv = v.generators[0].target.id
            byname = ast.unparse(v.key) == f"{tv}.name" and ast.unparse(v.value) == tv
            ifs = v.generators[0].ifs
            if len(ifs) == 1 and isinstance(ifs[0], ast.Compare) and isinstance(ifs[0].ops[0], ast.NotIn) and ast.unparse(ifs[0].left) == tv:
                pr = ifs[0].comparators[0]
                if isinstance(pr, (ast.Tuple, ast.List)) and len(pr.elts) == 2:
                    par = {ast.unparse(x) for x in pr.elts} == {ast.unparse(A), ast.unparse(B)}
                else:
                    # the resolved pair itself
                    par = P_(pr) == f"_seriesconns({M}, {p}.conns)" and res(A) in RES[0] and res(B) in RES[1]
            elif len(ifs) in (1, 2):
                txt = {ast.unparse(c) for c in (ifs[0].values if len(ifs) == 1 and isinstance(ifs[0], ast.BoolOp) and isinstance(ifs[0].op, ast.And) else ifs)}
                par = txt == {f"{tv} is not {ast.unparse(A)}", f"{tv} is not {ast.unparse(B)}"}
    R.check(par and byname, rule, key_of(fs, "parallel-ports"), fs.site,
            f"the parallel ports are the module ports that are not one of the two resolved series ports (identity test against the resolved pair: {par}), each wired to the unit port of its own name ({byname})",
            why="with series ports given as Signals a test by name against params.conns never matches: the series ports are wired in parallel too; or parallel ports are left open / crossed")
    ports = [n for n in au.walk_no_nested(fs.node) if isinstance(n, ast.For) and ast.unparse(n.iter) in (f"io({p}.unit).values()", f"bundled_io({p}.unit).values()")]
    ok = len(ports) == 1 and bool(pat.find(f"{M}.add(deepcopy({ast.unparse(ports[0].target)}))", ports[0]))
    R.check(ok, rule, key_of(fs, "ports-cloned"), fs.site, f"the generated module has a copy of each unit port — signal and bundle valued (io(unit)): {ok}", why="module ports differ from the unit's: bundle-valued ports of the unit are neither exposed nor wired")
    arr_after = bool(arr) and bool(writes) and all(shared.precedes(fs.node, w[3], arr[0][0]) for w in writes)
    R.check(arr_after, rule, key_of(fs, "order"), fs.site, f"the array is connected after the connection dict is complete: {arr_after}", why="the array is connected before (or without) the series concatenations")

    rule = "C19.2-series-corner-cases"
    lt = any(isinstance(n, ast.If) and au.cmp_norm(n.test) == au.cmp_norm(ast.parse(f"{p}.nser < 1", mode="eval").body) and au.raises(n.body) for n in au.walk_no_nested(fs.node))
    one = any(isinstance(n, ast.If) and au.cmp_norm(n.test) == au.cmp_norm(ast.parse(f"{p}.nser == 1", mode="eval").body) and ast.unparse(n.body[-1]) == f"return Wrapper({p}.unit)" for n in au.walk_no_nested(fs.node))
    R.check(lt and one, rule, key_of(fs), fs.site, f"nser < 1 raises ({lt}); nser == 1 is a plain Wrapper of the unit ({one})", why="nser = 1 builds a zero-width net; nser = 0 builds an empty module")
    fsc = repo.find_func(F_GENERATORS, "_seriesconns")
    if fsc is not None:
        dsc = au.local_defs(fsc.node)
        rets = [n for n in au.walk_no_nested(fsc.node) if isinstance(n, ast.Return)]
        # a tuple display, or a record constructor with one keyword per field: the elements in order
        rv_ = shared.prov(fsc.node, rets[0].value) if len(rets) == 1 and rets[0].value is not None else None
        elems = [ast.unparse(x) for x in rv_.elts] if isinstance(rv_, ast.Tuple) else ([ast.unparse(k.value) for k in rv_.keywords] if isinstance(rv_, ast.Call) and rv_.keywords and not rv_.args else None)
        ok = elems == ["_seriesconn(m, conns[0])", "_seriesconn(m, conns[1])"]
        R.check(ok, rule, key_of(fsc), fsc.site, f"the pair is returned as (resolve(conns[0]), resolve(conns[1])) — in the caller's order, not re-derived from the port list: {ok}", why="a pair named against the unit's declaration order (('s','d') on a Mos) is silently swapped: the chain is built from the wrong end")
    else:
        # no pair helper: the two ports are resolved in place (checked above: A from conns[0], B from conns[1])
        R.check(resolved_ok and res(A) == RES[0][0] and res(B) == RES[1][0], rule, f"{F_GENERATORS}::_seriesconns", fs.site, f"the two series ports are resolved in place as resolve(conns[0]), resolve(conns[1]) — in the caller's order: {resolved_ok}", why="a pair named against the unit's declaration order (('s','d') on a Mos) is silently swapped: the chain is built from the wrong end")
    f1 = repo.func(F_GENERATORS, "_seriesconn")
    # what is returned, as alternatives: m.ports.get(<conn.name>) for a Signal, m.ports.get(<conn>) for a str; other kinds and missing ports raise
    by_sig = by_name = False
    rets1 = shared.returns_of(f1.node)
    for r in rets1:
        for v, cds in shared.alternatives(f1.node, r.value, list(shared.path_conditions(f1.node, r))):
            vt = ast.unparse(v)
            kinds = set()
            for t, pol in cds:
                rr = au.isinstance_classes(t) if isinstance(t, ast.Call) else None
                if rr is not None and ast.unparse(rr[0]) == "conn" and pol:
                    kinds |= {ast.unparse(c).split(".")[-1] for c in rr[1]}
            if vt == "m.ports.get(conn.name)" and kinds == {"Signal"}:
                by_sig = True
            if vt == "m.ports.get(conn)" and kinds == {"str"}:
                by_name = True
    allv = {ast.unparse(v) for r in rets1 for v, _c in shared.alternatives(f1.node, r.value, list(shared.path_conditions(f1.node, r)))}
    only = allv <= {"m.ports.get(conn.name)", "m.ports.get(conn)"}
    # a result that is not a Signal (in particular None: no such port) raises
    # a result that is None, or not a Signal, raises — whatever the spelling and polarity of the test
    rvs = [st.targets[0].id for st in au.walk_no_nested(f1.node) if isinstance(st, ast.Assign) and len(st.targets) == 1 and isinstance(st.targets[0], ast.Name) and ".ports.get(" in ast.unparse(st.value)]
    rvn = rvs[0] if rvs else "rv"
    # (None is not a Signal: the type test alone decides; a separate `is None` test is accepted, not required)
    ret_ok = all(shared.conds_imply(shared.resolved_conditions(f1.node, shared.path_conditions(f1.node, r_)), [(shared.parse_cond(f"isinstance({rvn}, h.Signal)"), True)]) is True for r_ in rets1)
    chk = shared.raises_under(f1.node, [(f"isinstance({rvn}, h.Signal)", False)]) and ret_ok and au.dispatch_default_raises(f1.node, "conn")
    R.check(by_sig and by_name and chk and only, rule, key_of(f1), f1.site, f"a series port given by Signal ({by_sig}) or by name ({by_name}) resolves to the *module's* port of that name; unknown ports raise ({chk})", why="the series pair refers to the unit's own port objects (foreign to the module) or to a missing port")

    rule = "C19.3-mosstack"
    fm = repo.func(F_GENERATORS, "MosStack")
    q = fm.node.args.args[0].arg
    ok = bool(pat.find(f"Series(unit={q}.unit, nser={q}.nser, conns=('d', 's'))", fm.node))
    R.check(ok, rule, key_of(fm), fm.site, f"MosStack is Series over (drain, source) with the given unit and nser: {ok}", why="the stack is chained through the wrong terminals")

    rule = "C19.4-wrapper"
    fw = repo.func(F_GENERATORS, "Wrapper")
    a = fw.node.args.args[0].arg
    io_all = bool(pat.find(f"wrapper_io = {{$P.name: wrapper.add(deepcopy($P)) for $P in io({a}).values()}}", fw.node)) or bool(pat.find(f"wrapper_io = {{$P.name: wrapper.add(deepcopy($P)) for $P in bundled_io({a}).values()}}", fw.node))
    inner = bool(pat.find(f"wrapper.add(h.Instance(name='inner', of={a})(**wrapper_io))", fw.node))
    # the copies are made with deepcopy: both port kinds define it as a copy that shares the definition and has fresh connection tracking
    dc = {}
    for rel_, cls_ in ((F_SIGNAL, "Signal"), (F_BUNDLE, "BundleInstance")):
        ci_ = repo.cls(rel_, cls_)
        m_ = ci_.methods.get("__deepcopy__")
        dc[cls_] = m_ is not None and [ast.unparse(r_.value) for r_ in shared.returns_of(m_.node)] == ["self.__copy__()"] and "__copy__" in ci_.methods
    R.check(all(dc.values()), rule, key_of(fw, "deepcopy-of-ports"), fw.site, f"deepcopy of a port object is its own shallow, definition-sharing copy: {dc}",
            why="Wrapper (and Series) of a module with a bundle-valued port raise TypeError: deepcopy descends into the Bundle definition and its source info")
    R.check(io_all and inner, rule, key_of(fw), fw.site, f"Wrapper clones every port of io(m) — signal and bundle valued — keyed by its name ({io_all}) and passes each to the same-named port of the single inner instance ({inner})",
            why="bundle-valued ports are not exposed, or ports are wired to differently named ports")
    # ... the unit's ports as a new parent sees them, whether or not the unit was elaborated before
    from . import c07 as _c07
    R.run(_c07.new_parents_see_original_ports, repo, R, "C19.4-wrapper")
    # a unit's bundle port is re-connected member by member to the child's *own* flattened port (whatever name it had to take),
    # and the flattened array elements get names that are free in the stack (C01.4 / C05.1 clauses)
    R.run(c01.bundle_conn_path, repo, R, "C19.7-unit-ports-reach-the-unit")
    from . import c05 as _c05
    R.run(_c05.check, repo, shared.Retag(R, lambda r, k: "C19.7-unit-ports-reach-the-unit" if r.startswith("C05.1") and "arrays.py" in k else None,
                                        "a unit with a port named `units_1` loses it: the flattened element `units_1` takes the name and evicts the stack's cloned port"))
    # the array partition this topology relies on
    R.run(c01.array_partition, repo, R, "C19.5-array-element-k-gets-bit-k")
    # the generators build a fresh module on every call: no table of earlier results lives in the file
    st_ = shared.module_level_state(repo.file(F_GENERATORS).tree)
    if not shared.module_level_state(ast.parse("_seen = dict()\ndef f(m):\n    _seen[m.name] = m\n")):
        raise AnalysisError("self-check failed: the module-level-state rule does not see its positive sample")
    R.check(not st_, "C19.4-wrapper", f"{F_GENERATORS}::module-state", F_GENERATORS, f"{F_GENERATORS} keeps no module-level table that its functions write to" if not st_ else f"module-level state written by the generators: {st_}",
            why="a second wrap of another cell with the same name (or of the same cell after an edit) returns the first wrapper: the wrapped ports are those of another module")
    # the generators wire by call (`unit(**conns)`): connect-by-call must connect — also a port named like an attribute of
    # the instance (`of`, `name`, `conns`)
    from . import c04 as _c04
    R.run(_c04.funnels, repo, shared.Retag(R, lambda r, k: "C19.6-wired-through-connect" if "__call__" in k else None,
                                          "a unit port named like an Instance attribute (`of`, `name`, `conns`, `_x`) is assigned instead of connected: Wrapper / Series over such a unit overwrite the instance's target and fail"))
    # the series pair may be given as the unit's Signals themselves: the parameters of a generator call are hashed (cache key),
    # so a Signal stays hashable — a class that defines __eq__ without __hash__ is unhashable in Python
    cs = repo.cls(F_SIGNAL, "Signal")
    has_eq, has_hash = "__eq__" in cs.methods, "__hash__" in cs.methods and cs.class_attrs.get("__hash__") is None
    idh = has_hash and any(ast.unparse(r_.value) in ("hash(id(self))", "id(self)", "object.__hash__(self)") for r_ in shared.returns_of(cs.methods["__hash__"].node))
    R.check((not has_eq) or idh, "C19.2-series-corner-cases", f"{F_SIGNAL}::Signal::hashable", cs.site,
            f"Signal defines __eq__ ({has_eq}) together with an identity __hash__ ({idh})",
            why="`Series(unit=u, conns=(u.a, u.b))` dies in the generator cache with `TypeError: unhashable type: 'Signal'`")
    R.floor("C19.1-series-topology", 6)
    R.floor("C19.5-array-element-k-gets-bit-k", 3)
