"""C19 — built-in generators build the documented topologies.

Decided (dataflow / affine): the shape of Series (n units, private net of width
n-1, the two offset concatenations around the same net, parallel ports wired by
name), its corner cases, MosStack = Series over (d, s), Wrapper cloning every
port (signal and bundle valued) and passing it to the same-named port.  With
C01.3 (element k of an array receives bits [k*w, (k+1)*w)) this gives the chain
property; the exported net partition for every n and unit is not decided.
"""

from __future__ import annotations

import ast
from typing import Dict, List, Optional, Set, Tuple

from ..core import AnalysisError, FuncInfo, Repo, dotted
from .. import au, pat
from .common import *  # noqa
from .common import key_of
from . import c01


def check(repo: Repo, R) -> None:
    rule = "C19.1-series-topology"
    fs = repo.func(F_GENERATORS, "Series")
    p = fs.node.args.args[0].arg
    defs = au.local_defs(fs.node)
    # internal net
    inets = pat.find(f"$I = m.add(h.Signal(name=$N, width={p}.nser - 1))", fs.node)
    if len(inets) != 1:
        nets = pat.find("$I = m.add(h.Signal(*$_))", fs.node)
        got = ast.unparse(nets[0][0]) if nets else None
        R.bad(rule, key_of(fs, "internal-net"), fs.site, f"the internal series net is `{got}`; expected one signal of width nser - 1 added to the module", "adjacent units do not each get their own private joining net")
        return
    inet = ast.unparse(inets[0][1]["I"])
    R.ok(rule, key_of(fs, "internal-net"), fs.at(inets[0][0]), f"one internal net `{inet}` of width nser - 1, owned by the generated module")
    # the resolved series pair: `sc = _seriesconns(m, params.conns)` or `first, second = _seriesconns(...)`
    A = B = None
    pair_texts = []
    for st in au.stmts(fs.node):
        if isinstance(st, ast.Assign) and ast.unparse(st.value) == f"_seriesconns(m, {p}.conns)":
            t = st.targets[0]
            if isinstance(t, ast.Name):
                A, B = f"{t.id}[0]", f"{t.id}[1]"
                pair_texts = [t.id]
            elif isinstance(t, ast.Tuple) and len(t.elts) == 2:
                A, B = ast.unparse(t.elts[0]), ast.unparse(t.elts[1])
                pair_texts = [f"({A}, {B})", f"[{A}, {B}]"]
    if A is None:
        raise AnalysisError(f"idiom-unknown: series ports in {fs.site}")
    # writes to the connection dict, in source order: (kind, key text, value text, line)
    dvar = None
    for c, b in pat.find(f"m.add({p}.nser * {p}.unit(**$D), name=$N)", fs.node):
        dvar = ast.unparse(b["D"])
    arr = pat.find(f"m.add({p}.nser * {p}.unit(**$D), name=$N)", fs.node)
    writes = []
    if dvar:
        for st in au.stmts(fs.node):
            if isinstance(st, ast.Assign) and ast.unparse(st.targets[0]) == dvar:
                v = st.value
                if isinstance(v, ast.Dict):
                    for k, x in zip(v.keys, v.values):
                        writes.append(("item", ast.unparse(k), ast.unparse(x), st.lineno))
                elif isinstance(v, ast.DictComp):
                    writes.append(("comp", ast.unparse(v.key), ast.unparse(v), st.lineno))
                else:
                    writes.append(("other", "", ast.unparse(v), st.lineno))
            elif isinstance(st, ast.Assign) and isinstance(st.targets[0], ast.Subscript) and ast.unparse(st.targets[0].value) == dvar:
                writes.append(("item", ast.unparse(st.targets[0].slice), ast.unparse(st.value), st.lineno))
            elif isinstance(st, ast.Expr) and isinstance(st.value, ast.Call) and ast.unparse(st.value.func) == f"{dvar}.update" and st.value.args:
                a0 = st.value.args[0]
                writes.append(("comp" if isinstance(a0, ast.DictComp) else "other", "", ast.unparse(a0), st.lineno))
    writes.sort(key=lambda w: w[3])
    last_first = [w for w in writes if w[0] == "item" and w[1] == f"{A}.name"]
    last_second = [w for w in writes if w[0] == "item" and w[1] == f"{B}.name"]
    comps = [w for w in writes if w[0] == "comp"]
    others = [w for w in writes if w[0] == "other"]
    first_ok = bool(last_first) and last_first[-1][2] == f"h.Concat({A}, {inet})"
    second_ok = bool(last_second) and last_second[-1][2] == f"h.Concat({inet}, {B})"
    # the series entries are written after the parallel ones (they must win), and nothing unknown writes the dict
    wins = bool(comps) and first_ok and second_ok and max(c[3] for c in comps) < min(last_first[-1][3], last_second[-1][3]) and not others
    # ... unless the parallel set provably excludes the resolved series ports by identity
    R.check(first_ok and second_ok and wins, rule, key_of(fs, "offset-concats"), fs.site,
            f"first series port of the array <- Concat(A, {inet}) ({first_ok}); second <- Concat({inet}, B) ({second_ok}); these entries are the last writes of their keys ({wins}): "
            f"unit k's second port is {inet}[k] = unit k+1's first port, unit 0's first port is A, unit n-1's second port is B",
            why="the chain is broken, reversed or closed on itself — or the series entries are overwritten by the by-name parallel wiring, so that all units sit in parallel across the two series ports")
    R.check(len(arr) == 1, rule, key_of(fs, "array"), fs.site, f"an array of nser instances of the unit, connected by the connection dict: {len(arr) == 1}", why="the number of units differs from nser")
    # parallel ports: every module port that is not one of the two resolved series ports (by identity), wired by name
    par = False
    for n in au.walk_no_nested(fs.node):
        if isinstance(n, (ast.ListComp, ast.DictComp)) and len(n.generators) == 1 and ast.unparse(n.generators[0].iter) == "m.ports.values()":
            ifs = [ast.unparse(i) for i in n.generators[0].ifs]
            tv = ast.unparse(n.generators[0].target)
            par = any(ifs == [f"{tv} not in {pt}"] for pt in pair_texts)
    byname = any(w[0] == "comp" and ".name:" in w[2].replace(" ", "").replace(".name:", ".name:") for w in comps) and all(pat.match("{$P.name: $P for $P in $X}", ast.parse(w[2], mode="eval").body) is not None for w in comps)
    R.check(par and byname, rule, key_of(fs, "parallel-ports"), fs.site,
            f"the parallel ports are the module ports that are not one of the two resolved series ports (identity test against the resolved pair: {par}), each wired to the unit port of its own name ({byname})",
            why="with series ports given as Signals a test by name against params.conns never matches: the series ports are wired in parallel too; or parallel ports are left open / crossed")
    ports = [n for n in au.walk_no_nested(fs.node) if isinstance(n, ast.For) and ast.unparse(n.iter) == f"{p}.unit.ports.values()"]
    ok = len(ports) == 1 and bool(pat.find("m.add(deepcopy(p))", ports[0]))
    R.check(ok, rule, key_of(fs, "ports-cloned"), fs.site, f"the generated module has a copy of each unit port: {ok}", why="module ports differ from the unit's")
    arr_after = bool(arr) and bool(writes) and max(w[3] for w in writes) < arr[0][0].lineno
    R.check(arr_after, rule, key_of(fs, "order"), fs.site, f"the array is connected after the connection dict is complete: {arr_after}", why="the array is connected before (or without) the series concatenations")

    rule = "C19.2-series-corner-cases"
    lt = any(isinstance(n, ast.If) and au.cmp_norm(n.test) == au.cmp_norm(ast.parse(f"{p}.nser < 1", mode="eval").body) and au.raises(n.body) for n in au.walk_no_nested(fs.node))
    one = any(isinstance(n, ast.If) and au.cmp_norm(n.test) == au.cmp_norm(ast.parse(f"{p}.nser == 1", mode="eval").body) and ast.unparse(n.body[-1]) == f"return Wrapper({p}.unit)" for n in au.walk_no_nested(fs.node))
    R.check(lt and one, rule, key_of(fs), fs.site, f"nser < 1 raises ({lt}); nser == 1 is a plain Wrapper of the unit ({one})", why="nser = 1 builds a zero-width net; nser = 0 builds an empty module")
    fsc = repo.func(F_GENERATORS, "_seriesconns")
    dsc = au.local_defs(fsc.node)
    rets = [n for n in au.walk_no_nested(fsc.node) if isinstance(n, ast.Return)]
    ok = len(rets) == 1 and ast.unparse(au.expand(rets[0].value, dsc, depth=1)) == "(_seriesconn(m, conns[0]), _seriesconn(m, conns[1]))"
    R.check(ok, rule, key_of(fsc), fsc.site, f"the pair is returned as (resolve(conns[0]), resolve(conns[1])) — in the caller's order, not re-derived from the port list: {ok}", why="a pair named against the unit's declaration order (('s','d') on a Mos) is silently swapped: the chain is built from the wrong end")
    f1 = repo.func(F_GENERATORS, "_seriesconn")
    by_sig = any(isinstance(n, ast.If) and ast.unparse(n.test) == "isinstance(conn, h.Signal)" and bool(pat.find("rv = m.ports.get(conn.name, None)", n)) for n in au.walk_no_nested(f1.node))
    by_name = any(isinstance(n, ast.If) and ast.unparse(n.test) == "isinstance(conn, str)" and bool(pat.find("rv = m.ports.get(conn, None)", n)) for n in au.walk_no_nested(f1.node))
    chk = any(isinstance(n, ast.If) and "rv is None" in ast.unparse(n.test) and au.raises(n.body) for n in au.walk_no_nested(f1.node))
    R.check(by_sig and by_name and chk, rule, key_of(f1), f1.site, f"a series port given by Signal ({by_sig}) or by name ({by_name}) resolves to the *module's* port of that name; unknown ports raise ({chk})", why="the series pair refers to the unit's own port objects (foreign to the module) or to a missing port")

    rule = "C19.3-mosstack"
    fm = repo.func(F_GENERATORS, "MosStack")
    q = fm.node.args.args[0].arg
    ok = bool(pat.find(f"Series(unit={q}.unit, nser={q}.nser, conns=('d', 's'))", fm.node))
    R.check(ok, rule, key_of(fm), fm.site, f"MosStack is Series over (drain, source) with the given unit and nser: {ok}", why="the stack is chained through the wrong terminals")

    rule = "C19.4-wrapper"
    fw = repo.func(F_GENERATORS, "Wrapper")
    a = fw.node.args.args[0].arg
    io_all = bool(pat.find(f"wrapper_io = {{p.name: wrapper.add(deepcopy(p)) for p in io({a}).values()}}", fw.node))
    inner = bool(pat.find(f"wrapper.add(h.Instance(name='inner', of={a})(**wrapper_io))", fw.node))
    R.check(io_all and inner, rule, key_of(fw), fw.site, f"Wrapper clones every port of io(m) — signal and bundle valued — keyed by its name ({io_all}) and passes each to the same-named port of the single inner instance ({inner})",
            why="bundle-valued ports are not exposed, or ports are wired to differently named ports")
    # the array partition this topology relies on
    c01.array_partition(repo, R, "C19.5-array-element-k-gets-bit-k")
    R.floor("C19.1-series-topology", 6)
    R.floor("C19.5-array-element-k-gets-bit-k", 3)
