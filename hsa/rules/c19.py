"""C19 — built-in generators build the documented topologies.

Decided (dataflow / affine): the shape of Series (n units, private net of width
n-1, the two offset concatenations around the same net, parallel ports wired by
name), its corner cases, MosStack = Series over (d, s), Wrapper cloning every
port (signal and bundle valued) and passing it to the same-named port.  With
C01.3 (element k of an array receives bits [k*w, (k+1)*w)) this gives the chain
property; the exported net partition for every n and unit is not decided.
"""

from __future__ import annotations

import ast
from typing import Dict, List, Optional, Set, Tuple

from ..core import AnalysisError, FuncInfo, Repo, dotted
from .. import au, pat
from .common import *  # noqa
from .common import key_of
from . import c01


def check(repo: Repo, R) -> None:
    rule = "C19.1-series-topology"
    fs = repo.func(F_GENERATORS, "Series")
    p = fs.node.args.args[0].arg
    defs = au.local_defs(fs.node)
    # internal net
    inets = pat.find(f"$I = m.add(h.Signal(name=$N, width={p}.nser - 1))", fs.node)
    if len(inets) != 1:
        nets = pat.find("$I = m.add(h.Signal(*$_))", fs.node)
        got = ast.unparse(nets[0][0]) if nets else None
        R.bad(rule, key_of(fs, "internal-net"), fs.site, f"the internal series net is `{got}`; expected one signal of width nser - 1 added to the module", "adjacent units do not each get their own private joining net")
        return
    inet = ast.unparse(inets[0][1]["I"])
    R.ok(rule, key_of(fs, "internal-net"), fs.at(inets[0][0]), f"one internal net `{inet}` of width nser - 1, owned by the generated module")
    sc = [k for k, v in defs.items() if ast.unparse(v) == f"_seriesconns(m, {p}.conns)"]
    if not sc:
        raise AnalysisError(f"idiom-unknown: series ports in {fs.site}")
    sc = sc[0]
    first = pat.find(f"unit_conns[{sc}[0].name] = h.Concat({sc}[0], {inet})", fs.node)
    second = pat.find(f"unit_conns[{sc}[1].name] = h.Concat({inet}, {sc}[1])", fs.node)
    R.check(bool(first) and bool(second), rule, key_of(fs, "offset-concats"), fs.site,
            f"first series port of the array <- Concat(A, {inet}) ({bool(first)}); second <- Concat({inet}, B) ({bool(second)}): unit k's second port is {inet}[k] = unit k+1's first port, unit 0's first port is A, unit n-1's second port is B",
            why="the chain is broken, reversed or closed on itself: a unit's two series ports land on the same bit, or the ends are not the module's ports")
    arr = pat.find(f"m.add({p}.nser * {p}.unit(**unit_conns), name=$N)", fs.node)
    R.check(len(arr) == 1, rule, key_of(fs, "array"), fs.site, f"an array of nser instances of the unit, connected by the connection dict: {len(arr) == 1}", why="the number of units differs from nser")
    par = bool(pat.find(f"par_ports = [port for port in m.ports.values() if port not in {sc}]", fs.node)) and bool(pat.find("unit_conns = {port.name: port for port in par_ports}", fs.node))
    R.check(par, rule, key_of(fs, "parallel-ports"), fs.site, f"every non-series port of the unit is wired to the module port of the same name: {par}", why="parallel ports (gate, bulk, ...) are left open or crossed")
    ports = [n for n in au.walk_no_nested(fs.node) if isinstance(n, ast.For) and ast.unparse(n.iter) == f"{p}.unit.ports.values()"]
    ok = len(ports) == 1 and bool(pat.find("m.add(deepcopy(p))", ports[0]))
    R.check(ok, rule, key_of(fs, "ports-cloned"), fs.site, f"the generated module has a copy of each unit port: {ok}", why="module ports differ from the unit's")
    # order: concats assigned after the parallel dict is built and before the array is created
    lines = {"par": None, "c1": first[0][0].lineno if first else None, "c2": second[0][0].lineno if second else None, "arr": arr[0][0].lineno if arr else None}
    for st in au.stmts(fs.node):
        if isinstance(st, ast.Assign) and ast.unparse(st.targets[0]) == "unit_conns":
            lines["par"] = st.lineno
    ok = None not in lines.values() and lines["par"] < lines["c1"] and lines["par"] < lines["c2"] and max(lines["c1"], lines["c2"]) < lines["arr"]
    R.check(ok, rule, key_of(fs, "order"), fs.site, f"series entries overwrite the by-name dict before the array is connected: {ok}", why="the array is connected before (or without) the series concatenations")

    rule = "C19.2-series-corner-cases"
    lt = any(isinstance(n, ast.If) and au.cmp_norm(n.test) == au.cmp_norm(ast.parse(f"{p}.nser < 1", mode="eval").body) and au.raises(n.body) for n in au.walk_no_nested(fs.node))
    one = any(isinstance(n, ast.If) and au.cmp_norm(n.test) == au.cmp_norm(ast.parse(f"{p}.nser == 1", mode="eval").body) and ast.unparse(n.body[-1]) == f"return Wrapper({p}.unit)" for n in au.walk_no_nested(fs.node))
    R.check(lt and one, rule, key_of(fs), fs.site, f"nser < 1 raises ({lt}); nser == 1 is a plain Wrapper of the unit ({one})", why="nser = 1 builds a zero-width net; nser = 0 builds an empty module")
    fsc = repo.func(F_GENERATORS, "_seriesconns")
    ok = bool(pat.find("(_seriesconn(m, conns[0]), _seriesconn(m, conns[1]))", fsc.node))
    R.check(ok, rule, key_of(fsc), fsc.site, f"the two series ports are taken in the order given: {ok}", why="first and second series port are exchanged")
    f1 = repo.func(F_GENERATORS, "_seriesconn")
    by_sig = any(isinstance(n, ast.If) and ast.unparse(n.test) == "isinstance(conn, h.Signal)" and bool(pat.find("rv = m.ports.get(conn.name, None)", n)) for n in au.walk_no_nested(f1.node))
    by_name = any(isinstance(n, ast.If) and ast.unparse(n.test) == "isinstance(conn, str)" and bool(pat.find("rv = m.ports.get(conn, None)", n)) for n in au.walk_no_nested(f1.node))
    chk = any(isinstance(n, ast.If) and "rv is None" in ast.unparse(n.test) and au.raises(n.body) for n in au.walk_no_nested(f1.node))
    R.check(by_sig and by_name and chk, rule, key_of(f1), f1.site, f"a series port given by Signal ({by_sig}) or by name ({by_name}) resolves to the *module's* port of that name; unknown ports raise ({chk})", why="the series pair refers to the unit's own port objects (foreign to the module) or to a missing port")

    rule = "C19.3-mosstack"
    fm = repo.func(F_GENERATORS, "MosStack")
    q = fm.node.args.args[0].arg
    ok = bool(pat.find(f"Series(unit={q}.unit, nser={q}.nser, conns=('d', 's'))", fm.node))
    R.check(ok, rule, key_of(fm), fm.site, f"MosStack is Series over (drain, source) with the given unit and nser: {ok}", why="the stack is chained through the wrong terminals")

    rule = "C19.4-wrapper"
    fw = repo.func(F_GENERATORS, "Wrapper")
    a = fw.node.args.args[0].arg
    io_all = bool(pat.find(f"wrapper_io = {{p.name: wrapper.add(deepcopy(p)) for p in io({a}).values()}}", fw.node))
    inner = bool(pat.find(f"wrapper.add(h.Instance(name='inner', of={a})(**wrapper_io))", fw.node))
    R.check(io_all and inner, rule, key_of(fw), fw.site, f"Wrapper clones every port of io(m) — signal and bundle valued — keyed by its name ({io_all}) and passes each to the same-named port of the single inner instance ({inner})",
            why="bundle-valued ports are not exposed, or ports are wired to differently named ports")
    # the array partition this topology relies on
    c01.array_partition(repo, R, "C19.5-array-element-k-gets-bit-k")
    R.floor("C19.1-series-topology", 6)
    R.floor("C19.5-array-element-k-gets-bit-k", 3)
