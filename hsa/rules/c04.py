"""C04 — the last connection made to a port is the one that gets built.

Decided: the pairing invariant between `Instance.conns` and the connectables'
back-reference sets on every path through the three owner methods, that nobody
else writes either side, one reference object per (instance, port), snapshot
iteration where a traversal rewrites the set it walks, and that every
connect-by-call / by-assignment form funnels into `connect`.
"""

from __future__ import annotations

import ast
from typing import Dict, List, Optional, Set, Tuple

from ..core import AnalysisError, FuncInfo, Repo, dotted
from ..cfg import CFG, Client, Node, run as run_df
from .. import au, pat
from .common import *  # noqa
from .common import key_of, noreturn_set
from . import shared
from .shared import enclosing, path_conditions
from .c08 import may_raise


class FactClient(Client):
    """Adds fact F when the executed statement contains a match of any of F's patterns."""

    def __init__(self, table: Dict[str, List[str]], env=None):
        self.table = table
        self.env = env or {}

    def transfer(self, node: Node, w):
        tgt = None
        if node.kind == "stmt":
            tgt = node.ast
        elif node.kind in ("test", "for"):
            tgt = node.expr
        if tgt is None:
            return [w]
        for fact, pats in self.table.items():
            for p in pats:
                if pat.find(p, tgt):
                    w = w | {fact}
        return [w]


def exit_worlds(fi: FuncInfo, table) -> Tuple[CFG, Set[frozenset]]:
    cfg = CFG(fi.node, may_raise)
    IN = run_df(cfg, FactClient(table))
    return cfg, {frozenset(f for f in w if isinstance(f, str)) for w in IN[cfg.exit.id]}


NEEDS_READER = True  # the attached C01 clauses read the netlisters' conventions


def check(repo: Repo, R) -> None:
    R.run(pairing, repo, R)
    R.run(shared.owner_only_writes, repo, R, "C04.2-owner-only-writes",
                             why="a writer outside connect/replace/disconnect leaves a stale or missing back-reference; a replaced port reference, bundle or no-connect is then still followed by a later pass")
    R.run(one_ref_per_port, repo, R)
    R.run(snapshot_iteration, repo, R)
    R.run(funnels, repo, R)
    # what elaboration makes of the last connection: the clauses of reference resolution that decide which net a
    # (re-)connected port ends up on
    from . import c01

    def _sel(r, k):
        if r.startswith("C01.1-"):
            return "C04.6-last-connection-resolved"
        if r.startswith("C01.14-"):
            return "C04.6-last-connection-resolved"
        if r.startswith("C01.15-") and ("follow" in k or "find_source" in k or "handle_portconn" in k or k.endswith("::collect")):
            return "C04.6-last-connection-resolved"
        return None

    R.run(c01.check, repo, shared.Retag(R, _sel, "the connection made last is not what the port is built on: a reference group finds no (or another) source, and the port is moved onto a fresh or stale net"))
    # an instance displaced by another object of its name is no longer the module's: what it was connected to is not
    # reached through it any more
    from . import c18 as _c18
    R.run(_c18.check, repo, shared.Retag(R, lambda r, k: "C04.7-displaced-instance-disowned" if r.startswith("C18.1") and k.startswith("hdl21/module.py") else None,
                                        "an instance replaced by a new one of the same name stays in the module's books with its old connections: the port references it fed still resolve through it"))
    R.run(bundle_backrefs_of_held_instances, repo, R)
    R.floor("C04.1-conns-backref-pairing", 6)
    R.floor("C04.3-one-ref-per-port", 4)
    R.floor("C04.4-snapshot-iteration", 3)
    R.floor("C04.5-all-forms-use-connect", 4)


def pairing(repo: Repo, R):
    rule = "C04.1-conns-backref-pairing"
    ci = repo.cls(F_INSTANCE, "_Instance")
    why = ("`conns` and the connectables' `_connected_ports` drift apart: a port reference, bundle or no-connect that was replaced is still followed "
           "by ResolvePortRefs/BundleFlattener and shorts or rewires the port")
    # ---- replace
    fr = ci.methods.get("replace")
    fd = ci.methods.get("disconnect")
    fc = ci.methods.get("connect")
    if not (fr and fd and fc):
        raise AnalysisError("anchor-vanished: _Instance.connect/replace/disconnect")
    pn, cn = fr.node.args.args[1].arg, fr.node.args.args[2].arg
    defs = au.local_defs(fr.node)
    ref_names = [k for k, v in defs.items() if ast.unparse(v) == f"_get_connref(self, {pn})"]
    refs = ref_names + [f"_get_connref(self, {pn})"]
    old_names = [k for k, v in defs.items() if ast.unparse(v) == f"self.conns[{pn}]"]
    table = {
        "OLD-READ": [f"$O = self.conns[{pn}]"],
        "REMOVED": [f"{o}._connected_ports.remove({r})" for o in old_names + [f"self.conns[{pn}]"] for r in refs] + [f"{o}._connected_ports.discard({r})" for o in old_names for r in refs],
        "STORED": [f"self.conns[{pn}] = {cn}"],
        "ADDED": [f"{cn}._connected_ports.add({r})" for r in refs],
    }
    cfg, worlds = exit_worlds(fr, table)
    need = {"REMOVED", "STORED", "ADDED"}
    bad = [sorted(need - w) for w in worlds if not need <= w]
    R.check(bool(worlds) and not bad, rule, key_of(fr, "all-four-steps"), fr.site,
            "every normal path through replace() removes the port's reference from the old connection, stores the new one and adds the reference to it"
            if worlds and not bad else f"a path through replace() misses {bad[0] if bad else 'everything'}",
            why=why)
    # remove-before-overwrite: the old value is read before the store
    order_ok = _ordered(fr, [f"$O = self.conns[{pn}]"], [f"self.conns[{pn}] = {cn}"])
    R.check(order_ok, rule, key_of(fr, "old-read-before-store"), fr.site,
            f"the old connection is read before conns[{pn}] is overwritten: {order_ok}", why="the new connection loses its own reference instead of the old one")
    # ---- disconnect
    pn = fd.node.args.args[1].arg
    defs = au.local_defs(fd.node)
    popped = [k for k, v in defs.items() if ast.unparse(v) in (f"self.conns.pop({pn})",)]
    ref_names = [k for k, v in defs.items() if ast.unparse(v) == f"_get_connref(self, {pn})"]
    refs = ref_names + [f"_get_connref(self, {pn})"]
    table = {
        "POPPED": [f"$C = self.conns.pop({pn})"],
        "REMOVED": [f"{o}._connected_ports.remove({r})" for o in popped for r in refs],
    }
    cfg, worlds = exit_worlds(fd, table)
    bad = [sorted({"POPPED", "REMOVED"} - w) for w in worlds if not {"POPPED", "REMOVED"} <= w]
    ret_ok = any(isinstance(n, ast.Return) and n.value is not None and ast.unparse(n.value) in popped for n in au.walk_no_nested(fd.node))
    R.check(bool(worlds) and not bad and ret_ok, rule, key_of(fd, "pop-and-remove"), fd.site,
            f"disconnect() pops conns[{pn}], removes the port's reference from the popped connection and returns it: paths ok={not bad}, returns popped={ret_ok}", why=why)
    # ---- connect
    pn, cn = fc.node.args.args[1].arg, fc.node.args.args[2].arg
    table = {
        "REPLACE": [f"self.replace({pn}, {cn})"],
        "STORED": [f"self.conns[{pn}] = {cn}"],
        "ADDED": [f"{cn}._connected_ports.add(_get_connref(self, {pn}))"],
    }
    defs = au.local_defs(fc.node)
    for k, v in defs.items():
        if ast.unparse(v) == f"_get_connref(self, {pn})":
            table["ADDED"].append(f"{cn}._connected_ports.add({k})")
    cfg, worlds = exit_worlds(fc, table)
    bad = []
    for w in worlds:
        direct = {"STORED", "ADDED"} <= w
        via = "REPLACE" in w
        if direct == via:
            bad.append(sorted(w))
        if ("STORED" in w) != ("ADDED" in w):
            bad.append(sorted(w))
    R.check(bool(worlds) and not bad, rule, key_of(fc, "store-and-add-or-replace"), fc.site,
            "every normal path through connect() either delegates to replace() or stores the connection and adds the port's reference to it"
            if worlds and not bad else f"a path through connect() ends with facts {bad[0] if bad else '?'}", why=why)
    # which branch: replace iff the port is already connected
    br_ok = False
    for n in au.walk_no_nested(fc.node):
        if isinstance(n, ast.If) and ast.unparse(n.test) in (f"{pn} in self.conns", f"{pn} in self.conns.keys()"):
            br_ok = bool(pat.find(f"self.replace({pn}, {cn})", ast.Module(n.body, []))) and bool(pat.find(f"self.conns[{pn}] = {cn}", ast.Module(n.orelse, [])))
        if isinstance(n, ast.If) and ast.unparse(n.test) in (f"{pn} not in self.conns",):
            br_ok = bool(pat.find(f"self.replace({pn}, {cn})", ast.Module(n.orelse, []))) and bool(pat.find(f"self.conns[{pn}] = {cn}", ast.Module(n.body, [])))
    R.check(br_ok, rule, key_of(fc, "reconnect-goes-through-replace"), fc.site,
            f"connect() on an already connected port goes through replace() (so the previous connection loses its back-reference): {br_ok}",
            why="re-connecting a port overwrites conns but leaves the old connectable pointing at the port")
    # dict shorthand and type check happen before the store
    conv = bool(pat.find(f"{cn} = AnonymousBundle(**{cn})", fc.node))
    # canonical form: everything that stores lies under `if is_connectable(conn)`, whose other branch raises
    g = None
    for n in au.walk_no_nested(fc.node):
        if isinstance(n, ast.If) and ast.unparse(n.test) == f"is_connectable({cn})" and au.raises(n.orelse):
            g = n
    stores = [x for x, _b in pat.find(f"self.conns[{pn}] = {cn}", fc.node)] + [x for x, _b in pat.find(f"self.replace({pn}, {cn})", fc.node)]
    before = g is not None and bool(stores) and all(any(pol and t is g.test for t, pol in path_conditions(fc.node, x)) for x in stores)
    R.check(conv and before, rule, key_of(fc, "validated-before-store"), fc.site,
            f"dict shorthand is converted to an AnonymousBundle ({conv}) and non-connectables are rejected before anything is stored ({before})",
            why="a non-connectable object ends up in conns (it has no back-reference set)")
    # what is stored is what the caller passed (or its AnonymousBundle form): `conn` is not re-bound to anything else
    from ..cfg import reaching_defs, def_value
    cfgc = CFG(fc.node, may_raise)
    rd = reaching_defs(cfgc, cn)
    bad_defs = []
    for x in stores:
        from .shared import stmt_index_path
        for nd in cfgc.nodes_for(stmt_index_path(fc.node, x)):
            for d in rd[nd.id]:
                if d == -1:
                    continue
                v = def_value(cfgc.nodes[d], cn)
                if v is None or ast.unparse(v) != f"AnonymousBundle(**{cn})":
                    bad_defs.append(f"line {cfgc.nodes[d].lineno}: `{ast.unparse(cfgc.nodes[d].ast).splitlines()[0][:70]}`")
    R.check(not bad_defs, rule, key_of(fc, "stores-what-was-passed"), fc.site,
            "the value stored in conns is the caller's connectable itself (or its dict shorthand as an AnonymousBundle)" if not bad_defs else f"connect() re-binds `{cn}` before storing it: {sorted(set(bad_defs))[0]}",
            why="a port connected to another port's reference is frozen onto whatever that port was tied to at the time: re-connecting the referenced port later leaves this one on the replaced net")
    # all three use one reference object for the key: _get_connref(self, portname)
    for m in (fr, fd, fc):
        a = m.node.args.args[1].arg
        calls = [c for c in au.calls_in(m.node) if isinstance(c.func, ast.Name) and c.func.id in ("_get_connref", "_get_portref")]
        ok = bool(calls) and all(ast.unparse(c) == f"_get_connref(self, {a})" for c in calls)
        R.check(ok, rule, key_of(m, "connref-key"), m.site,
                f"{m.name}() identifies the port by `_get_connref(self, {a})` on both sides: {ok}",
                why="the reference added to the new connection differs from the one removed from the old")


def _ordered(fi: FuncInfo, first: List[str], second: List[str]) -> bool:
    a = [n for p in first for n, _b in pat.find(p, fi.node)]
    b = [n for p in second for n, _b in pat.find(p, fi.node)]
    if not a or not b:
        return False
    cfg = CFG(fi.node, may_raise)

    class C(Client):
        def transfer(self, node, w):
            if node.kind == "stmt" and any(node.ast is x for x in a):
                return [w | {"A"}]
            return [w]

    IN = run_df(cfg, C())
    for x in b:
        for n in cfg.nodes_for(x):
            if any("A" not in w for w in IN[n.id]):
                return False
    return True


def one_ref_per_port(repo: Repo, R):
    rule = "C04.3-one-ref-per-port"
    for name, own in (("_get_portref", "portrefs"), ("_get_connref", "connrefs")):
        fi = repo.func(F_INSTANCE, name)
        key = fi.node.args.args[1].arg
        P = lambda e: shared.prov_text(fi.node, e)
        # the shared table: the receiver R of the membership test `key in R.all` (compared by provenance)
        tests = [n.test for n in au.walk_no_nested(fi.node) if isinstance(n, ast.If) and pat.match(f"{key} in $R.all", n.test) is not None]
        reuse = ctor = stored = False
        if len(tests) == 1:
            Rp = P(pat.match(f"{key} in $R.all", tests[0])["R"])
            is_all = lambda e: isinstance(e, ast.Subscript) and ast.unparse(e.slice) == key and isinstance(e.value, ast.Attribute) and e.value.attr == "all" and P(e.value.value) == Rp
            ctors = [c for c, _b in pat.find(f"PortRef(inst=self, portname={key})", fi.node)]
            # a reference is created only when the table has none, and is put into the table there
            ctor = len(ctors) == 1 and any(t is tests[0] and not pol for t, pol in path_conditions(fi.node, ctors[0]))
            all_stores = [st for st in au.stmts(fi.node) if isinstance(st, ast.Assign) and any(is_all(t) for t in st.targets)]
            stored_all = len(all_stores) == 1 and P(all_stores[0].value) == f"PortRef(inst=self, portname={key})" and any(t is tests[0] and not pol for t, pol in path_conditions(fi.node, all_stores[0]))
            def from_table(e, at):
                # the value is read from the table, or is the object just created and stored there
                if is_all(shared.prov(fi.node, e)) or is_all(e):
                    return True
                return stored_all and P(e) == f"PortRef(inst=self, portname={key})" and any(t is tests[0] and not pol for t, pol in path_conditions(fi.node, at)) and isinstance(e, ast.Name)
            rets = shared.returns_of(fi.node)
            reuse = bool(rets) and all(from_table(r.value, r) for r in rets)
            own_stores = [st for st in au.stmts(fi.node) if isinstance(st, ast.Assign) and any(isinstance(t, ast.Subscript) and ast.unparse(t.slice) == key and isinstance(t.value, ast.Attribute) and t.value.attr == own and P(t.value.value) == Rp for t in st.targets)]
            stored = stored_all and bool(own_stores) and all(from_table(st.value, st) for st in own_stores)
            # every path that returns has recorded the reference in the function's own view
            stored = stored and all(any(shared.precedes(fi.node, st, r) or st is r for st in own_stores) for r in rets)
        R.check(bool(reuse) and bool(ctor) and stored, rule, key_of(fi), fi.site,
                f"{name}: what is returned comes from the shared table refs.all ({bool(reuse)}); a PortRef(inst=self, portname={key}) is created only when the table has none ({bool(ctor)}); it is recorded in refs.all and in refs.{own} ({stored})",
                why="two distinct PortRef objects exist for one (instance, port); the back-reference added by connect is not the one a port-reference holder sees")
    shared.eq_hash_wellformed(repo, R, rule, F_PORTREF, "PortRef", "inst", "portname",
                              why="set membership of port references (remove in replace/disconnect) silently fails or removes another port's reference")
    # references are never forgotten: no removal from Refs.all / portrefs / connrefs anywhere
    removed = []
    nscan = 0
    for fi in repo.funcs_in("hdl21/"):
        for n in ast.walk(fi.node):
            tgt = None
            if isinstance(n, ast.Call) and isinstance(n.func, ast.Attribute) and n.func.attr in ("pop", "popitem", "clear") and isinstance(n.func.value, ast.Attribute) and n.func.value.attr in ("all", "portrefs", "connrefs") and "refs" in ast.unparse(n.func.value.value):
                tgt = n
            if isinstance(n, ast.Delete):
                for t in n.targets:
                    if isinstance(t, ast.Subscript) and isinstance(t.value, ast.Attribute) and t.value.attr in ("all", "portrefs", "connrefs") and "refs" in ast.unparse(t.value.value):
                        tgt = n
            if isinstance(n, ast.Assign) and any(isinstance(t, ast.Attribute) and t.attr == "_refs" for t in n.targets) and fi.qual != "_Instance.__init__":
                tgt = n
            if tgt is not None:
                removed.append(f"{fi.at(tgt)}: `{ast.unparse(tgt)[:60]}`")
        nscan += 1
    R.check(not removed, rule, f"{F_INSTANCE}::Refs::never-forgotten", F_INSTANCE,
            f"no function of hdl21/ removes entries from an instance's Refs (all / portrefs / connrefs) or replaces `_refs` ({nscan} functions scanned)" if not removed else f"references are forgotten: {removed[0]}",
            why="after the reference is forgotten the next access creates a second PortRef object for the same port: one net is split in two (i1_p and i1_p_)")


def _reaches_mutation(repo: Repo, fi: FuncInfo, node: ast.AST, depth=3, seen=None) -> Optional[str]:
    seen = seen or set()
    for c in au.calls_in(node, nested=True):
        if isinstance(c.func, ast.Attribute) and c.func.attr in ("replace", "disconnect", "connect") and not isinstance(c.func.value, ast.Constant):
            if c.func.attr == "replace" and ast.unparse(c.func.value) in ("s", "text", "name"):
                continue
            return f"{ast.unparse(c.func)}()"
        if depth > 0:
            r = repo.resolve_call(c, fi)
            if isinstance(r, FuncInfo) and (r.file.rel, r.qual) not in seen and r.file.rel.startswith("hdl21/elab/"):
                seen.add((r.file.rel, r.qual))
                x = _reaches_mutation(repo, r, r.node, depth - 1, seen)
                if x:
                    return f"{r.qual} -> {x}"
    return None


def snapshot_iteration(repo: Repo, R):
    rule = "C04.4-snapshot-iteration"
    n = 0
    for fi in repo.funcs_in("hdl21/elab/"):
        for lp in au.walk_no_nested(fi.node):
            if not isinstance(lp, ast.For):
                continue
            it = ast.unparse(lp.iter)
            if "_connected_ports" not in it:
                continue
            body = ast.Module(lp.body, [])
            mut = _reaches_mutation(repo, fi, body)
            if mut is None:
                R.ok(rule, key_of(fi, it), fi.at(lp), f"loop over `{it}` does not rewrite connections", nontrivial=False)
                n += 1
                continue
            snap = isinstance(lp.iter, ast.Call) and isinstance(lp.iter.func, ast.Name) and lp.iter.func.id in ("list", "tuple", "sorted", "frozenset")
            if not snap and isinstance(lp.iter, ast.Call):
                from .c12 import sorting_helper
                snap = sorting_helper(repo, fi, lp.iter)  # a helper returning sorted(<arg>) also builds a new list
            n += 1
            R.check(snap, rule, key_of(fi, it), fi.at(lp),
                    f"loop over `{it}` reaches {mut}, which mutates the set being walked; it iterates a snapshot: {snap}",
                    why="'set changed size during iteration', or ports are skipped while the back-reference set shrinks under the loop")
    if n < 4:
        raise AnalysisError(f"anchor-vanished: only {n} loops over _connected_ports found in hdl21/elab")


def funnels(repo: Repo, R):
    rule = "C04.5-all-forms-use-connect"
    ci = repo.cls(F_INSTANCE, "_Instance")
    call = ci.methods["__call__"]
    ok = any(isinstance(n, ast.For) and ast.unparse(n.iter) == "kwargs.items()" and bool(pat.find("self.connect($K, $V)", n)) for n in au.walk_no_nested(call.node))
    R.check(ok, rule, key_of(call), call.site, f"connect-by-call connects every keyword through connect(): {ok}", why="connect-by-call bypasses the back-reference bookkeeping")
    sa = ci.methods["__setattr__"]
    ok = bool(pat.find("self.connect(key, val)", sa.node))
    R.check(ok, rule, key_of(sa), sa.site, f"connect-by-assignment goes through connect(): {ok}", why="assignment to a port bypasses the back-reference bookkeeping")
    ta = repo.func(F_INSTANCE, "_to_array")
    ok = bool(pat.find("InstanceArray(of=$I.of, n=$N, name=$I.name)(**$I.conns)", ta.node))
    R.check(ok, rule, key_of(ta), ta.site, f"`n * Instance` re-connects the instance's connections to the new array through connect-by-call: {ok}",
            why="the array shares the instance's conns dict or gets no back-references")
    ga = ci.methods["__getattr__"]
    ok = bool(pat.find("_get_portref(self, key)", ga.node))
    el = any(isinstance(n, ast.If) and "_elaborated" in ast.unparse(n.test) for n in au.walk_no_nested(ga.node))
    R.check(ok and el, rule, key_of(ga), ga.site, f"port access hands out the shared per-port reference ({ok}); after elaboration it returns the actual connection ({el})",
            why="each access creates a new reference object")
    for cls in ("Instance", "InstanceArray", "InstanceBundle"):
        c = repo.cls(F_INSTANCE, cls)
        sc = c.class_attrs.get("_specialcases")
        names = {e.value for e in sc.elts} if isinstance(sc, (ast.List, ast.Tuple)) else set()
        ok = {"conns", "connect", "disconnect", "replace", "name", "of"} <= names
        R.check(ok, rule, f"{F_INSTANCE}::{cls}._specialcases", c.site, f"{cls} exempts conns/connect/disconnect/replace/name/of from port magic: {ok}",
                why=f"`{cls.lower()}.replace` / `.conns` become port references instead of the API")


def bundle_backrefs_of_held_instances(repo: Repo, R):
    """A bundle (or bundle reference) lists the ports connected to it — also those of instances the module no longer holds
    (displaced by another object of the name, consumed by `n * inst`).  Flattening re-connects only the ports of held ones."""
    rule = "C04.6-last-connection-resolved"
    n = 0
    # either every loop restricts itself to held instances, or the re-connection itself declines an instance that is in no module
    frc = repo.func(F_FLATB, "BundleFlattener.replace_bundle_conn")
    ia = frc.node.args.args[1].arg
    declines = shared.conds_imply([(shared.parse_cond(f"{ia}._parent_module is None"), True)], [(shared.parse_cond(f"{ia}._parent_module is None"), True)]) is True and any(
        isinstance(x, ast.Attribute) and x.attr in ("connect", "disconnect") for x in ast.walk(frc.node)) and all(
        any(ast.unparse(t) == f"{ia}._parent_module is None" and pol is False for t, pol in shared.path_conditions(frc.node, c)) for c in au.calls_in(frc.node) if isinstance(c.func, ast.Attribute) and c.func.attr in ("connect", "disconnect") and ast.unparse(c.func.value) == ia)
    for fi in repo.funcs_in(F_FLATB):
        for lp in [x for x in au.walk_no_nested(fi.node) if isinstance(x, ast.For) and "_connected_ports" in ast.unparse(shared.prov(fi.node, x.iter))]:
            calls = [c for c in au.calls_in(lp) if ast.unparse(c.func) == "self.replace_bundle_conn"]
            if not calls:
                continue
            n += 1
            tv = ast.unparse(lp.target)
            held = all(any(isinstance(t, ast.Compare) and len(t.ops) == 1 and isinstance(t.ops[0], ast.Is) and pol and f"{tv}.inst._parent_module" in (ast.unparse(t.left), ast.unparse(t.comparators[0])) for t, pol in shared.path_conditions(fi.node, c)) for c in calls)
            if not held:
                # ... or the list walked is already restricted to them by a helper of the file
                for c in [x for x in ast.walk(lp.iter) if isinstance(x, ast.Call)]:
                    callee = repo.resolve_call(c, fi)
                    if isinstance(callee, FuncInfo) and "_parent_module is" in ast.unparse(callee.node):
                        held = True
            held = held or declines
            R.check(held, rule, key_of(fi, "reconnects-held-instances-only"), fi.at(lp), f"{fi.name} re-connects the flattened bundle only to ports of instances the module holds: {held}",
                    why="`m.i = A(bp=m.b); m.i = A2(bp2=m.b)`: the displaced first instance is still listed by the bundle; flattening re-connects it against its never-flattened module and the valid design is refused (`Invalid Port Connection to bp`)")
    if n < 2:
        raise AnalysisError(f"anchor-vanished: {n} re-connection loop(s) over `_connected_ports` in {F_FLATB}; 2 were confirmed by reading")
    # the same holds for every reader of the back-references during elaboration: a connectable lists ports of instances the
    # module no longer holds, so whoever walks the list looks only at held ones — or is one of the two confirmed exceptions
    # (the re-connection that declines them itself; update_ref_deps, which re-points every listed port to what the reference
    # resolved to — harmless for an instance in no module)
    m_ = 0
    for fi in repo.funcs_in("hdl21/elab/"):
        sites = []
        for x in au.walk_no_nested(fi.node):
            if isinstance(x, ast.For) and "_connected_ports" in ast.unparse(shared.prov(fi.node, x.iter)):
                sites.append((x, x.body, ast.unparse(x.target)))
            elif isinstance(x, (ast.ListComp, ast.SetComp, ast.GeneratorExp, ast.DictComp)):
                for g in x.generators:
                    if "_connected_ports" in ast.unparse(shared.prov(fi.node, g.iter)):
                        sites.append((x, [ast.Expr(i) for i in g.ifs] + [ast.Expr(e) for e in ([x.elt] if hasattr(x, "elt") else [x.key, x.value])], ast.unparse(g.target)))
        for node, body, tv in sites:
            m_ += 1
            txt = " ".join(ast.unparse(b) for b in body)
            filtered = "_parent_module" in txt
            only_declining = declines and bool(au.calls_in(ast.Module(body, []))) and all(ast.unparse(c.func) == "self.replace_bundle_conn" or not any(isinstance(n_, ast.Name) and n_.id == tv for a_ in c.args for n_ in ast.walk(a_)) for c in au.calls_in(ast.Module(body, [])))
            confirmed = fi.qual == "update_ref_deps"
            R.check(filtered or only_declining or confirmed, rule, key_of(fi, f"backref-readers-look-at-held-instances::{tv}"), fi.at(node),
                    f"{fi.name} walks the ports listed by a connectable and " + ("tests whose module each one's instance is in" if filtered else "hands them only to the re-connection that declines instances in no module" if only_declining else "is the confirmed exception (re-points every listed port)" if confirmed else "takes every listed port at face value"),
                    why="`3 * Unit(aux=h.NoConn())` leaves the consumed scalar listed by the NoConn: a reader that counts it refuses the valid design as a multiply-connected NoConn (or merges / rewires nets of an instance that was replaced)")
    if m_ < 4:
        raise AnalysisError(f"anchor-vanished: {m_} reader(s) of `_connected_ports` in hdl21/elab; 4 were confirmed by reading")
