"""C14 — prefixed numbers are exact, totally ordered and hash-consistent.

Decided (F10): eq/hash agreement through one normalisation, dunder return
types, comparisons total (no raising operation in their callees) and siblings
of one three-way helper with the right operator each, single rounding in
__float__, structural shape of add/subtract/scale/neg/abs.  Exactness of the
arithmetic over all Decimals is not decided.
"""

from __future__ import annotations

import ast
from typing import Dict, List, Optional, Set, Tuple

from ..core import AnalysisError, FuncInfo, Repo, dotted
from .. import au, pat
from .common import *  # noqa
from .common import key_of

CMP = {"__lt__": ast.Lt, "__le__": ast.LtE, "__eq__": ast.Eq, "__ne__": ast.NotEq, "__gt__": ast.Gt, "__ge__": ast.GtE}


def callees(repo: Repo, fi: FuncInfo, depth=4) -> List[FuncInfo]:
    out, seen = [], set()
    work = [(fi, 0)]
    while work:
        f, d = work.pop()
        if (f.file.rel, f.qual) in seen or d > depth:
            continue
        seen.add((f.file.rel, f.qual))
        out.append(f)
        for c in au.calls_in(f.node, nested=True):
            r = repo.resolve_call(c, f)
            if isinstance(r, FuncInfo) and r.file.rel == F_PREFIX:
                work.append((r, d + 1))
            # method calls on Prefixed values: x.scale(...)
            if isinstance(c.func, ast.Attribute) and c.func.attr in ("scale",):
                m = repo.find_func(F_PREFIX, f"Prefixed.{c.func.attr}")
                if m is not None:
                    work.append((m, d + 1))
    return out


def _single_return(fi: FuncInfo) -> Optional[ast.AST]:
    rets = [n for n in au.walk_no_nested(fi.node) if isinstance(n, ast.Return)]
    if len(rets) != 1:
        return None
    return rets[0].value


def normaliser(repo: Repo) -> Optional[FuncInfo]:
    """A module-level function of prefix.py that maps a Prefixed to its exact
    Decimal value: reads both `.number` and `.prefix.value` and combines them by
    scaleb / power of ten."""
    for fi in repo.funcs_in(F_PREFIX):
        if fi.cls is not None or len(fi.node.args.args) != 1:
            continue
        a = fi.node.args.args[0].arg
        rv = _single_return(fi)
        if rv is None:
            continue
        s = ast.unparse(rv)
        if f"{a}.number" in s and f"{a}.prefix.value" in s and ("scaleb" in s or "Decimal(10) **" in s):
            if "float" in s:
                continue
            return fi
    return None


_CTX_SAMPLE = """
def scale(self):
    with localcontext() as ctx:
        ctx.prec = 22
        return self.number.log10()
"""


def _context_changes(tree: ast.AST) -> List[ast.AST]:
    out = []
    for n in ast.walk(tree):
        if isinstance(n, ast.Call) and (dotted(n.func) or "").split(".")[-1] in ("localcontext", "setcontext", "Context"):  # reading getcontext() changes nothing; a store through it is an attribute store below
            out.append(n)
        if isinstance(n, ast.Attribute) and n.attr in ("prec", "rounding", "Emin", "Emax", "capitals", "clamp", "traps", "flags") and isinstance(n.ctx, ast.Store):
            out.append(n)
    return out


def check(repo: Repo, R) -> None:
    # exactness: arithmetic runs under the one decimal context the module works with; nothing narrows it locally
    if len(_context_changes(ast.parse(_CTX_SAMPLE))) < 2:
        raise AnalysisError("self-check failed: the decimal-context rule does not see its positive sample")
    sfp = repo.file(F_PREFIX)
    ch = [c for c in _context_changes(sfp.tree)]
    R.check(not ch, "C14.6-arithmetic-shape", f"{F_PREFIX}::decimal-context", F_PREFIX if not ch else f"{F_PREFIX}:{getattr(ch[0], 'lineno', 0)}",
            f"{F_PREFIX} never changes the decimal context (no localcontext / setcontext / precision assignment)" if not ch else f"`{ast.unparse(ch[0])[:60]}` changes the decimal context around prefixed arithmetic",
            why="results with more digits than the narrowed precision are silently rounded: (a*b) differs from the exact product")
    ci = repo.cls(F_PREFIX, "Prefixed")
    norm = normaliser(repo)
    nname = norm.name if norm else None

    # ---- 1 eq / hash agreement
    rule = "C14.1-hash-agrees-with-eq"
    h = ci.methods.get("__hash__")
    if h is None:
        R.bad(rule, f"{F_PREFIX}::Prefixed.__hash__", ci.site, "Prefixed defines __eq__ but no __hash__", "Prefixed values cannot be used in sets/dicts consistently")
    else:
        rv = _single_return(h)
        arg = rv.args[0] if isinstance(rv, ast.Call) and dotted(rv.func) == "hash" and rv.args else None
        raw = arg is not None and isinstance(arg, ast.Tuple) and {"self.number", "self.prefix"} <= {ast.unparse(e) for e in arg.elts}
        via = arg is not None and nname is not None and ast.unparse(arg) == f"{nname}(self)"
        eq_callees = {f.name for f in callees(repo, ci.methods["__eq__"])} if "__eq__" in ci.methods else set()
        shared_norm = nname in eq_callees if nname else False
        R.check(via and shared_norm and not raw, rule, key_of(h), h.site,
                f"__hash__ hashes `{ast.unparse(arg) if arg is not None else None}`"
                + (f": the exact value through `{nname}`, which __eq__ also compares" if via and shared_norm else
                   " — the raw (number, prefix) representation: equal values with different prefixes hash differently" if raw else " — not the normal form __eq__ compares"),
                why="1000*m == 1*UNIT holds while their hashes differ: a dict or set (e.g. the generator cache keyed by parameter values) treats equal values as distinct")

    # ---- 2 / 4 conversions
    rule = "C14.2-int-float-conversions"
    fi = ci.methods.get("__int__")
    rv = _single_return(fi) if fi else None
    ok = isinstance(rv, ast.Call) and dotted(rv.func) == "int" and len(rv.args) == 1 and nname is not None and ast.unparse(rv.args[0]) == f"{nname}(self)"
    R.check(ok, rule, key_of(fi) if fi else f"{F_PREFIX}::Prefixed.__int__", fi.site if fi else ci.site,
            f"__int__ returns `{ast.unparse(rv) if rv is not None else None}`" + (" (int() of the exact value)" if ok else " — not `int(<exact value>)`: `int(x) * 10**e` is a float for negative exponents and truncates the mantissa first"),
            why="int(1500*m) raises TypeError (a float is returned from __int__) or yields 1000 instead of 1")
    ff = ci.methods.get("__float__")
    rv = _single_return(ff) if ff else None
    ok = isinstance(rv, ast.Call) and dotted(rv.func) == "float" and len(rv.args) == 1 and nname is not None and ast.unparse(rv.args[0]) == f"{nname}(self)"
    R.check(ok, rule, key_of(ff) if ff else f"{F_PREFIX}::Prefixed.__float__", ff.site if ff else ci.site,
            f"__float__ returns `{ast.unparse(rv) if rv is not None else None}`" + (" (one rounding: float() of the exact Decimal)" if ok else " — a product of two floats rounds twice"),
            why="float(3*n) == 3.0000000000000004e-09; simulation inputs are not the float nearest the prefixed value")
    if norm is not None:
        a = norm.node.args.args[0].arg
        rv = _single_return(norm)
        ok = ast.unparse(rv) in (f"{a}.number.scaleb({a}.prefix.value)", f"{a}.number * Decimal(10) ** {a}.prefix.value")
        R.check(ok, rule, key_of(norm), norm.site, f"the exact value is `{ast.unparse(rv)}` (number shifted by the prefix's exponent, in Decimal): {ok}", why="every comparison, hash and conversion is off by a power of ten")

    # ---- 3 / 5 comparisons
    rule = "C14.3-comparisons-total-and-consistent"
    helpers = set()
    sigs: Dict[str, list] = {}
    for name, op in CMP.items():
        m = ci.methods.get(name)
        if m is None:
            R.bad(rule, f"{F_PREFIX}::Prefixed.{name}", ci.site, f"Prefixed lacks {name}", "ordering falls back to object identity / NotImplemented")
            continue
        # no raising rounding operation anywhere below
        offenders = []
        for f in callees(repo, m):
            for c in au.calls_in(f.node, nested=True):
                nm = dotted(c.func) or ""
                if nm == "round" or nm.endswith(".quantize"):
                    offenders.append(f"{f.qual}: `{ast.unparse(c)}`")
                # Decimal(10 ** <possibly negative int>) is a float detour
                if nm == "Decimal" and c.args and isinstance(c.args[0], ast.BinOp) and isinstance(c.args[0].op, ast.Pow) and ast.unparse(c.args[0].left) == "10":
                    offenders.append(f"{f.qual}: `{ast.unparse(c)}` (10 ** negative int is a float)")
        total = not offenders
        # sibling shape: return <helper>(self, other) <op> 0
        rv = _single_return(m)
        from . import shared as _sh0
        m_alts = [(v_, c_) for r_ in _sh0.returns_of(m.node) if r_.value is not None for v_, c_ in _sh0.alternatives(m.node, r_.value, _sh0.path_conditions(m.node, r_), at=r_)]
        sigs[name] = sorted({(" and ".join(sorted(("" if p_ else "not ") + ast.unparse(t_) for t_, p_ in _sh0.resolved_conditions(m.node, c_))),
                              ast.unparse(v_.left) if isinstance(v_, ast.Compare) and len(v_.ops) == 1 else ast.unparse(v_),
                              ast.unparse(v_.comparators[0]) if isinstance(v_, ast.Compare) and len(v_.ops) == 1 else "") for v_, c_ in m_alts})
        if rv is None and len(m_alts) > 1:
            # decided under conditions: the unconditional-looking alternative (the shared helper, if any) is judged as usual;
            # the agreement of the six operators on the conditional ones is judged below
            wrong = [ast.unparse(v_) for v_, _c in m_alts if not (isinstance(v_, ast.Compare) and len(v_.ops) == 1 and type(v_.ops[0]) is op)]
            if wrong:
                R.bad(rule, key_of(m, "operator"), m.site, f"{name} returns `{wrong[0][:80]}`: not a comparison by `{op.__name__}`", "the operator answers another question than its name")
            hs_ = [v_ for v_, _c in m_alts if isinstance(v_, ast.Compare) and isinstance(v_.left, ast.Call) and ast.unparse(v_.comparators[0]) == "0"]
            rv = hs_[0] if hs_ else m_alts[0][0]
        shape = False
        helper = None
        if isinstance(rv, ast.Compare) and len(rv.ops) == 1 and isinstance(rv.left, ast.Call) and ast.unparse(rv.comparators[0]) == "0":
            helper = dotted(rv.left.func)
            args = [ast.unparse(a) for a in rv.left.args]
            shape = type(rv.ops[0]) is op and args == [m.node.args.args[0].arg, m.node.args.args[1].arg]
            helpers.add(helper)
        wrong_op = isinstance(rv, ast.Compare) and len(rv.ops) == 1 and isinstance(rv.left, ast.Call) and ast.unparse(rv.comparators[0]) == "0" and type(rv.ops[0]) is not op and [ast.unparse(a) for a in rv.left.args] == [m.node.args.args[0].arg, m.node.args.args[1].arg]
        if wrong_op:
            helpers.add(dotted(rv.left.func))
        if not shape and total and not wrong_op:
            # an unrecognised but possibly correct spelling: direct comparison of the exact values is accepted
            direct = isinstance(rv, ast.Compare) and len(rv.ops) == 1 and type(rv.ops[0]) is op and nname is not None and ast.unparse(rv.left) == f"{nname}(self)" and ast.unparse(rv.comparators[0]) in (f"{nname}(to_prefixed(other))", f"{nname}(other)")
            if direct:
                R.ok(rule, key_of(m), m.site, f"{name} = `{ast.unparse(rv)}` compares the exact values directly")
                helpers.add("<direct>")
                continue
            raise AnalysisError(f"idiom-unknown: {m.site} = `{ast.unparse(rv) if rv is not None else None}` is neither `<three-way helper>(self, other) {op.__name__} 0` nor a direct comparison of exact values")
        R.check(total and shape, rule, key_of(m), m.site,
                (f"{name} = `{ast.unparse(rv)}`: three-way helper compared with 0 by `{op.__name__}`" if shape else f"{name} = `{ast.unparse(rv) if rv is not None else None}` is not `<three-way helper>(self, other) {op.__name__} 0`")
                + ("; nothing below it rounds or quantizes" if total else f"; RAISING OPERATION reachable: {offenders[0]}"),
                why="`1*UNIT > 1*n` raises decimal.InvalidOperation (round(Decimal, 20) needs more than the context's 28 digits once operands are ~8 decades apart); "
                "or the six operators disagree (trichotomy fails)")
    # the six operators decide the same way under the same conditions: they differ in the operator alone
    # (decided only where every operator returns plain two-operand comparisons; any other spelling of one of them — a
    # delegation to a sibling, say — is left to the shape rules above)
    if len(sigs) == len(CMP) and all(x[2] != "" for sg in sigs.values() for x in sg):
        ref = sigs["__eq__"]
        odd = sorted(n_ for n_, sg in sigs.items() if sg != ref)
        how = ""
        if odd:
            extra = [x for x in sigs[odd[0]] if x not in ref] or [x for x in ref if x not in sigs[odd[0]]]
            how = f"{odd[0]} compares `{extra[0][1]}` with `{extra[0][2]}`" + (f" when {extra[0][0]}" if extra[0][0] else "") + "; __eq__ does not"
        R.check(not odd, rule, f"{F_PREFIX}::Prefixed::siblings-decide-alike", ci.site,
                "all six comparison operators compare the same two quantities under the same conditions" if not odd else f"the comparison operators do not decide alike: {how}",
                why="an exact short cut in one operator beside tolerant siblings: for two values closer than the tolerance `a < b` and `a == b` both hold, and `b > a` does not")
    if helpers == {"<direct>"}:
        pass
    elif len(helpers) == 1:
        hname = next(iter(helpers))
        hf = repo.find_func(F_PREFIX, hname)
        if hf is None:
            raise AnalysisError(f"anchor-vanished: comparison helper {hname}")
        R.run(threeway, repo, R, rule, hf, nname)
    else:
        R.bad(rule, f"{F_PREFIX}::Prefixed::one-helper", ci.site, f"the six comparison operators use {sorted(h or '?' for h in helpers) or 'no'} helper(s); they must share one", "the operators can disagree with each other")

    R.run(arithmetic_shape, repo, R)
    R.floor("C14.3-comparisons-total-and-consistent", 6)
    R.floor("C14.2-int-float-conversions", 2)


def threeway(repo: Repo, R, rule: str, hf: FuncInfo, nname: Optional[str]):
    """Decision table of the three-way helper over (|difference| beyond the tolerance, difference positive), with the
    difference identified by its provenance: the exact values' difference, rescaled to the smaller prefix."""
    from . import shared
    from .. import fde

    a, b = [x.arg for x in hf.node.args.args[:2]]
    rebound = bool(pat.find(f"{b} = to_prefixed({b})", hf.node))
    B = b if rebound else f"to_prefixed({b})"  # the converted right operand: re-bound in place, or a local computed from it
    dtexts = {f"({nname}({a}) - {nname}({B})).scaleb(-min({x}.prefix.value, {y}.prefix.value))" for x, y in ((a, B), (B, a))} if nname else set()
    unscaled = f"{nname}({a}) - {nname}({B})" if nname else None
    conv = True  # established by the difference being taken over the converted operand (checked through `seen['diff']`)
    seen = {"diff": None, "tol": None}

    def is_diff(e):
        t = shared.prov_text(hf.node, e)
        if t in dtexts:
            seen["diff"] = t
            return True
        if unscaled is not None and t == unscaled:
            seen["diff"] = t
            return True
        return False

    def m_big(t):
        # canonical form of `abs(d) > tol` / `not abs(d) <= tol`:  tol < abs(d)
        if isinstance(t, ast.Compare) and len(t.ops) == 1 and isinstance(t.ops[0], ast.Lt):
            l, r = t.left, t.comparators[0]
            if isinstance(r, ast.Call) and ast.unparse(r.func) == "abs" and len(r.args) == 1 and is_diff(r.args[0]):
                seen["tol"] = shared.prov_text(hf.node, l)
                return True
        return False

    def m_pos(t):
        if isinstance(t, ast.Compare) and len(t.ops) == 1 and isinstance(t.ops[0], ast.Lt):
            l, r = t.left, t.comparators[0]
            if ast.unparse(l) == "0" and is_diff(r):
                return True
            if ast.unparse(r) == "0" and is_diff(l):
                return "neg"  # beyond the tolerance the difference is not zero
        return False

    body = [st for st in hf.node.body if not (isinstance(st, ast.Expr) and isinstance(st.value, ast.Constant))]
    try:
        tab = fde.decision_table(body, [("big", m_big), ("pos", m_pos)], ["<return>"], lambda v: ast.unparse(v), tolerant=True)
    except fde.Unknown as e:
        raise AnalysisError(f"idiom-unknown: three-way helper {hf.site}: {e}")
    got = {k: v["<return>"] for k, v in tab.items()}
    want = {(False, False): "0", (False, True): "0", (True, True): "1", (True, False): "-1"}
    tol_ok = seen["tol"] is not None and "EPSILON" in seen["tol"]
    scaled = seen["diff"] in dtexts
    R.check(scaled, rule, key_of(hf, "tolerance-relative-to-smaller-prefix"), hf.site,
            f"the difference is rescaled to the smaller of the two prefixes before the 10**-EPSILON tolerance is applied: {scaled}",
            why="with an absolute tolerance every pair of values below 1e-20 compares equal: 1*y == 2*y, zepto/atto values do not sort")
    R.check(conv and seen["diff"] is not None and got == want and tol_ok, rule, key_of(hf), hf.site,
            f"three-way helper: converts the right operand ({conv}); difference of the exact values `{seen['diff']}`; tolerance `{seen['tol']}`; decision table over (beyond tolerance, positive): {got}, expected {want}",
            why="comparison results do not agree with the comparison of the exact values (sign flipped, tolerance missing or unscaled)")


def arithmetic_shape(repo: Repo, R):
    rule = "C14.6-arithmetic-shape"
    ci = repo.cls(F_PREFIX, "Prefixed")
    from . import shared
    from .. import fde

    def value_of(e: ast.AST):
        """(number, prefix) texts of a Prefixed-valued expression over self / lhs / rhs, or None."""
        if isinstance(e, ast.Name):
            return (f"{e.id}.number", f"{e.id}.prefix")
        if isinstance(e, ast.UnaryOp) and isinstance(e.op, ast.USub):
            v = value_of(e.operand)
            return None if v is None else (f"-{v[0]}", v[1])
        if isinstance(e, ast.Call) and ast.unparse(e.func) in ("Prefixed.new", "Prefixed", "cls.new", "cls"):
            a = {k.arg: k.value for k in e.keywords}
            pos = list(e.args)
            num = a.get("number", pos[0] if pos else None)
            pre = a.get("prefix", pos[1] if len(pos) > 1 else None)
            if num is not None and pre is not None:
                return (ast.unparse(num), ast.unparse(pre))
        if isinstance(e, ast.Call) and isinstance(e.func, ast.Attribute) and e.func.attr == "scale" and len(e.args) + len(e.keywords) == 1:
            return None
        return None

    def sign_conds(conds):
        """exact sign facts about self.number on the path: 'neg', 'nonneg' or None; anything else that is not a
        comparison of self.number with 0 makes the path unknown ('?')."""
        fact = None
        for t, pol in conds:
            s_ = ast.unparse(t)
            m = {"self.number < 0": "neg", "0 < self.number": "pos", "self.number.is_signed()": "neg", "self.number == 0": "zero"}.get(s_)
            if m is None:
                return "?"
            if m == "neg":
                fact = "neg" if pol else "nonneg"
            elif m == "pos":
                fact = "nonneg" if pol else ("nonpos" if fact is None else fact)
            elif m == "zero" and pol:
                fact = "zero"
        return fact

    for meth, want_plain in (("__neg__", "-self.number"), ("__abs__", "abs(self.number)")):
        fi = ci.methods[meth]
        bad = []
        n_ret = 0
        for r in shared.returns_of(fi.node):
            for val, conds in shared.alternatives(fi.node, r.value, shared.path_conditions(fi.node, r), at=r):
                n_ret += 1
                v = value_of(val)
                if v is None or v[1] != "self.prefix":
                    bad.append(f"`{ast.unparse(val)}`")
                    continue
                num = v[0].replace("self.number.copy_abs()", "abs(self.number)").replace("self.number.copy_negate()", "-self.number")
                sg = sign_conds(conds)
                if num == want_plain and sg != "?":
                    continue
                if meth == "__abs__" and ((num == "-self.number" and sg in ("neg", "nonpos", "zero")) or (num == "self.number" and sg in ("nonneg", "zero"))):
                    continue
                bad.append(f"`{ast.unparse(val)}` under {[('' if p_ else 'not ') + ast.unparse(t) for t, p_ in conds]}")
        R.check(n_ret > 0 and not bad, rule, key_of(fi), fi.site,
                f"{meth}: every returned value is the same prefix with the number {'negated' if meth == '__neg__' else 'made non-negative (decided, if at all, by an exact comparison of self.number with 0)'}"
                + (f"; not so: {bad}" if bad else ""),
                why=("negation changes magnitude or prefix" if meth == "__neg__" else "abs changes magnitude or prefix, or decides the sign with the tolerant Prefixed comparison: values within the tolerance of zero keep their minus sign"))

    for name, op in (("_add", "+"), ("_subtract", "-")):
        f = repo.func(F_PREFIX, name)
        EQ = ("lhs.prefix == rhs.prefix", "rhs.prefix == lhs.prefix", "lhs.prefix.value == rhs.prefix.value", "rhs.prefix.value == lhs.prefix.value", "lhs.prefix is rhs.prefix", "rhs.prefix is lhs.prefix")
        bad = []
        seen = set()
        for r in shared.returns_of(f.node):
            for val, conds in shared.alternatives(f.node, r.value, shared.path_conditions(f.node, r), at=r):
                eq = None
                lt = None
                unknown = []
                for t, pol in conds:
                    s_ = ast.unparse(t)
                    if s_ in EQ:
                        eq = pol
                    elif s_ == "lhs.prefix.value < rhs.prefix.value":
                        lt = pol
                    elif s_ == "rhs.prefix.value < lhs.prefix.value":
                        lt = (not pol) if eq is False else (False if pol else None)
                    elif s_ in ("lhs.prefix.value <= rhs.prefix.value",):
                        lt = pol if eq is False else (None if pol else False)
                    else:
                        unknown.append(("" if pol else "not ") + s_)
                v = value_of(val)
                got = ast.unparse(val)
                if unknown:
                    bad.append(f"`{got}` is returned under a condition other than the order of the two prefixes: {unknown}")
                    continue
                if v is None:
                    bad.append(f"`{got}`")
                    continue
                num, pre = v
                if eq is True:
                    ok = num == f"lhs.number {op} rhs.number" and pre in ("lhs.prefix", "rhs.prefix")
                    seen.add("eq")
                elif lt is None and eq is None and num == f"lhs.scale({pre}).number {op} rhs.scale({pre}).number":
                    ok = False  # unconditional scaling: to which prefix?
                else:
                    small = "lhs.prefix" if lt else "rhs.prefix"
                    if lt is None:
                        ok = False
                    else:
                        ok = pre == small and num in (f"lhs.scale({small}).number {op} rhs.scale({small}).number", f"lhs.number {op} rhs.scale({small}).number" if lt else f"lhs.scale({small}).number {op} rhs.number")
                        seen.add("lt" if lt else "gt")
                if not ok:
                    bad.append(f"`{got}` under {[('' if p_ else 'not ') + ast.unparse(t) for t, p_ in conds]}")
        R.check(not bad and {"lt", "gt"} <= seen, rule, key_of(f), f.site,
                f"{name}: equal prefixes -> numbers combined with `{op}` under that prefix; otherwise both scaled to the smaller prefix and combined left {op} right; cases seen {sorted(seen)}"
                + (f"; not so: {bad}" if bad else ""),
                why=f"{'sums' if op == '+' else 'differences'} are computed on unscaled mantissas, in the wrong order, under the wrong prefix, or skipped for some operand pairs")
    sc = ci.methods["scale"]
    ok = any(shared.prov_text(sc.node, r.value) == "Prefixed.new(self.number * Decimal(10) ** (self.prefix.value - prefix.value), prefix)" for r in shared.returns_of(sc.node))
    R.check(ok, rule, key_of(sc), sc.site, f"scale(p): number * 10 ** (own exponent - p's exponent), under p: {ok}", why="rescaling multiplies by the inverse factor: every mixed-prefix sum is off by powers of ten")
    # operator entry points route to the helpers with operands in order
    for meth, helper, l, r in (("__add__", "_add", "self", "other"), ("__sub__", "_subtract", "self", "other"), ("__rsub__", "_subtract", "other", "self")):
        m = ci.methods[meth]
        hits = pat.find(f"{helper}(lhs={l}, rhs={r})", m.node)
        hits2 = pat.find(f"{helper}(lhs=Prefixed.new({l}), rhs={r})", m.node) + pat.find(f"{helper}(lhs={l}, rhs=Prefixed.new({r}))", m.node)
        R.check(bool(hits) and bool(hits2), rule, key_of(m), m.site, f"{meth} calls {helper}(lhs={l}, rhs={r}) for Prefixed and for converted scalar operands: {bool(hits) and bool(hits2)}",
                why="reflected subtraction has its operands swapped")
    # multiplication: Prefixed * Prefixed -> number product times prefix product; Prefixed * Prefix keeps the leftover decades
    pm = ci.methods["__mul__"]
    ok = bool(pat.find("(self.number * other.number * self.prefix * other.prefix).scale()", pm.node)) and bool(pat.find("Prefixed.new(self.number * Decimal(str(other)), self.prefix).scale()", pm.node))
    R.check(ok, rule, key_of(pm), pm.site, f"__mul__: product of the numbers times the product of the prefixes, rescaled: {ok}", why="products are off by the prefix of one operand")
    pr = repo.func(F_PREFIX, "Prefix.__rmul__")
    T = "self.value + other.prefix.value"
    prs = [r for r in shared.returns_of(pr.node) if shared.cond_match(pr.node, r, "isinstance(other, Prefixed)", True, use_prov=False)]
    m = pat.match("Prefixed.new($NUM, $PRE)", shared.prov(pr.node, prs[0].value)) if len(prs) == 1 else None
    nn = m["NUM"] if m is not None else None
    targ_ok = nn is not None and T in ast.unparse(nn)
    exp_ok = m is not None and ast.unparse(m["PRE"]) == f"e({T}).symbol"
    shift_ok = nn is not None and ast.unparse(nn) in (f"other.number * Decimal(10) ** ({T} - e({T}).symbol.value)", f"other.number.scaleb({T} - e({T}).symbol.value)")
    res_ok = exp_ok
    R.check(targ_ok and exp_ok and shift_ok and res_ok, rule, key_of(pr), pr.site,
            f"Prefixed * Prefix: target exponent = sum of the two exponents ({targ_ok}); nearest prefix e(targ) ({exp_ok}); number shifted by the leftover decades targ - nearest ({shift_ok}: `{ast.unparse(nn) if nn is not None else None}`); result under the nearest prefix ({res_ok})",
            why="products whose exponents do not sum to a prefix (pairs with centi/deci/deca/hecto, or sums beyond +-24) are off by powers of ten")
    tp = repo.func(F_PREFIX, "to_prefixed")
    fl = False
    for r in shared.returns_of(tp.node):
        for v, cds in shared.alternatives(tp.node, r.value, list(shared.path_conditions(tp.node, r))):
            if ast.unparse(v) == "Prefixed(number=Decimal(str(v)))":
                ks = set()
                for t, pol in cds:
                    rr = au.isinstance_classes(t) if isinstance(t, ast.Call) else None
                    if rr is not None and ast.unparse(rr[0]) == "v" and pol:
                        ks |= {ast.unparse(c) for c in rr[1]}
                fl = fl or ks == {"int", "float"}
    # and no path converts a float to Decimal directly
    direct = any(ast.unparse(v) in ("Prefixed(number=Decimal(v))", "Prefixed(number=v)") and any(pol and (au.isinstance_classes(t) is not None) and ast.unparse(au.isinstance_classes(t)[0]) == "v" and {"float"} & {ast.unparse(c) for c in au.isinstance_classes(t)[1]} for t, pol in cds if isinstance(t, ast.Call))
                 for r in shared.returns_of(tp.node) for v, cds in shared.alternatives(tp.node, r.value, list(shared.path_conditions(tp.node, r))))
    fl = fl and not direct
    R.check(fl, rule, key_of(tp), tp.site, f"to_prefixed converts int/float through str() before Decimal (no binary-fraction digits): {fl}", why="0.1 becomes 0.1000000000000000055511151231257827...")
