"""Helpers shared by the per-property rule modules."""

from __future__ import annotations

import ast
from typing import Dict, Iterable, List, Optional, Sequence, Set, Tuple

from ..core import AnalysisError, ClassInfo, FuncInfo, Repo, dotted
from ..cfg import CFG
from .. import au, pat

# file anchors
F_BASE = "hdl21/elab/passes/base.py"
F_ELAB = "hdl21/elab/elab.py"
F_PORTREFS = "hdl21/elab/passes/portrefs.py"
F_FLATB = "hdl21/elab/passes/flatten_bundles.py"
F_ARRAYS = "hdl21/elab/passes/arrays.py"
F_SLICES = "hdl21/elab/passes/slices.py"
F_INSTB = "hdl21/elab/passes/inst_bundles.py"
F_CONNT = "hdl21/elab/passes/conntypes.py"
F_ORPH = "hdl21/elab/passes/orphanage.py"
F_MARK = "hdl21/elab/passes/mark_modules.py"
F_RRT = "hdl21/elab/helpers/resolve_ref_types.py"
F_WIDTH = "hdl21/elab/helpers/width.py"
F_INSTANCE = "hdl21/instance.py"
F_SLICE = "hdl21/slice.py"
F_SLICEABLE = "hdl21/sliceable.py"
F_CONCAT = "hdl21/concat.py"
F_SIGNAL = "hdl21/signal.py"
F_PORTREF = "hdl21/portref.py"
F_NOCONN = "hdl21/noconn.py"
F_BUNDLE = "hdl21/bundle.py"
F_MODULE = "hdl21/module.py"
F_CONNECT = "hdl21/connect.py"
F_EXPORT = "hdl21/proto/exporting.py"
F_IMPORT = "hdl21/proto/importing.py"
F_GENERATOR = "hdl21/generator.py"
F_PARAMS = "hdl21/params.py"
F_PREFIX = "hdl21/prefix.py"
F_SCALAR = "hdl21/scalar.py"
F_FLATTEN = "hdl21/flatten.py"
F_SIMPROTO = "hdl21/sim/proto.py"
F_SIMDATA = "hdl21/sim/data.py"
F_GENERATORS = "hdl21/generators.py"
F_WALKER = "hdl21/walker.py"
F_PDK = "hdl21/pdk/pdk.py"
F_PRIMS = "hdl21/primitives.py"
F_EXTMOD = "hdl21/external_module.py"
F_CALL = "hdl21/call.py"
F_QUALNAME = "hdl21/qualname.py"
F_INSTANTIABLE = "hdl21/instantiable.py"

# Helpers all of whose paths raise (verified by `check_noreturn`)
NORETURN = {"fail", "failer", "_attr_type_error", "invalid"}

_noreturn_cache: Dict[Tuple[str, str], bool] = {}


def is_noreturn(fi: FuncInfo) -> bool:
    k = (fi.file.rel, fi.qual)
    if k not in _noreturn_cache:
        g = CFG(fi.node)
        _noreturn_cache[k] = g.exit.id not in g.reachable()
    return _noreturn_cache[k]


def noreturn_set(repo: Repo) -> Set[str]:
    """Names of repo helpers all of whose paths end in `raise` (computed from
    their CFGs), plus the conventional parameter name `failer`."""
    out = {"failer"}
    for rel, qual in ((F_BASE, "ElabPass.fail"), (F_RRT, "fail"), (F_WIDTH, "fail"), (F_MODULE, "_attr_type_error"), (F_INSTANTIABLE, "invalid")):
        fi = repo.find_func(rel, qual)
        if fi is not None and is_noreturn(fi):
            out.add(fi.name)
    return out


def site_of(fi: FuncInfo, node: Optional[ast.AST] = None) -> str:
    return fi.at(node) if node is not None else fi.site


def key_of(fi: FuncInfo, extra: str = "") -> str:
    return f"{fi.file.rel}::{fi.qual}" + (f"::{extra}" if extra else "")


def union(repo: Repo, rel: str, name: str) -> List[str]:
    sf = repo.file(rel)
    m = repo.union_members(sf, name)
    if m is None:
        raise AnalysisError(f"anchor-vanished: type alias {name} not found / not a Union in {rel}")
    return m


def class_names(repo: Repo, fi: FuncInfo, exprs: Iterable[ast.AST]) -> Set[str]:
    """Expand the second argument(s) of isinstance into bare class names;
    `X.__args__` expands the Union alias X; tuple constants are flattened."""
    out: Set[str] = set()
    for e in exprs:
        if isinstance(e, ast.Attribute) and e.attr == "__args__":
            d = dotted(e.value)
            if d:
                loc = None
                # function-local or module-level alias
                m = repo.union_members(fi.file, d.split(".")[-1]) if "." not in d else None
                if m is None and "." in d:
                    r = repo.resolve_dotted(fi.file, ".".join(d.split(".")[:-1]))
                    if isinstance(r, tuple) and r[0] == "module":
                        m = repo.union_members(r[1], d.split(".")[-1])
                if m:
                    out.update(m)
                    continue
            out.add(ast.unparse(e))
        elif isinstance(e, ast.Tuple):
            out.update(class_names(repo, fi, e.elts))
        elif isinstance(e, ast.Call) and dotted(e.func) == "type" and len(e.args) == 1 and isinstance(e.args[0], ast.Constant) and e.args[0].value is None:
            out.add("None")
        else:
            d = dotted(e)
            if d is None:
                out.add(ast.unparse(e))
                continue
            nm = d.split(".")[-1]
            # alias of a union? (e.g. HasWidth)
            m = repo.union_members(fi.file, nm) if "." not in d else None
            if m and not (len(m) == 1 and m[0] == nm):
                out.update(m)
            else:
                out.add(nm)
    return out


def isinstance_handled(repo: Repo, fi: FuncInfo, subject: Optional[str] = None, node: Optional[ast.AST] = None) -> Set[str]:
    out: Set[str] = set()
    for _c, classes in au.handled_classes(node or fi.node, subject):
        out |= class_names(repo, fi, classes)
    return out


def find_calls(fi_or_node, pattern: str):
    node = fi_or_node.node if isinstance(fi_or_node, FuncInfo) else fi_or_node
    return pat.find(pattern, node)


def enclosing_loops(fn: ast.AST, target: ast.AST) -> List[ast.AST]:
    par = au.parents(fn)
    out = []
    n = target
    while n in par:
        n = par[n]
        if isinstance(n, (ast.For, ast.While, ast.AsyncFor)):
            out.append(n)
        if isinstance(n, (ast.ListComp, ast.SetComp, ast.DictComp, ast.GeneratorExp)):
            out.append(n)
    return out


def decorated_classes(repo: Repo, deco: str, prefix: str = "hdl21/") -> List[ClassInfo]:
    out = []
    for ci in repo.classes_in(prefix):
        if any(d == deco or d.endswith("." + deco) for d in ci.decorators):
            out.append(ci)
    return out
