"""C07 — elaboration results do not depend on elaboration history.

Decided: local pre-/post-conditions of the mechanisms that make history
invisible — the pre-flattening snapshot, the bundled-vs-flattened choice table,
the post-elaboration freeze, address-keyed caches keeping their keys alive, and
single ownership of the process-global caches.  Equality of packages over all
call sequences is not decided.
"""

from __future__ import annotations

import ast
from typing import Dict, List, Optional, Set, Tuple

from ..core import AnalysisError, FuncInfo, Repo, dotted
from ..cfg import CFG, Client, run as run_df
from .. import au, pat, fde
from .common import *  # noqa
from .common import key_of, noreturn_set
from . import shared, c02
from .c08 import may_raise


def check(repo: Repo, R) -> None:
    R.run(snapshot, repo, R)
    R.run(io_choice, repo, R)
    R.run(freeze, repo, R)
    R.run(id_keyed_caches, repo, R)
    R.run(cache_ownership, repo, R)
    from . import c08
    R.run(c08.check, repo, shared.Retag(R, lambda r: "C07.6-failed-visit-never-revisited" if r.startswith("C08.3") or r.startswith("C08.2") else None,
                                 "elaborating the same module again after a failed visit gives another result than the first call (the half-rewritten module passes)"))
    # the export entry point elaborates whatever it is given, on every call (elaboration itself is what decides
    # "already done", per module); it never looks at marks left by earlier calls to skip it
    ft = repo.func(F_EXPORT, "to_proto")
    els = [c for c in au.calls_in(ft.node) if (dotted(c.func) or "") in ("elaborate", "h.elaborate")]
    rets = shared.returns_of(ft.node)
    m_ = pat.match("ProtoExporter(tops=$T, domain=$D).export()", shared.prov(ft.node, rets[0].value, depth=1)) if len(rets) == 1 else None
    ok = len(els) == 1 and not shared.path_conditions(ft.node, els[0]) and ast.unparse(els[0].args[0]) == ft.node.args.args[0].arg and m_ is not None
    if ok:
        talts = {ast.unparse(v) for v, _c in shared.alternatives(ft.node, m_["T"], [])}
        ok = talts <= {ast.unparse(els[0]), f"[{ast.unparse(els[0])}]"}
    R.check(ok, "C07.7-export-elaborates-every-call", key_of(ft), ft.site, f"to_proto elaborates its argument unconditionally and exports exactly what elaboration returned: {ok}",
            why="exporting a list that mixes already elaborated and fresh modules hands un-elaborated modules to the exporter (arrays dropped, bundles refused), depending on which calls came before")
    c02_ = __import__("hsa.rules.c02", fromlist=["x"])
    R.run(c02_.live_passes, repo, shared.Retag(R, lambda r, k: "C07.7-export-elaborates-every-call" if k.endswith("Elaborator.elaborate") else None,
                                        "the result of elaborating a design depends on whether an earlier call already touched it"))
    c18_ = __import__("hsa.rules.c18", fromlist=["x"])
    R.run(c18_.check, repo, shared.Retag(R, lambda r, k: "C07.3-freeze" if r.startswith("C18.7") or (r.startswith("C18.4") and k.endswith("freeze-guard")) else None,
                                   "a definition that was elaborated accepts additions — or is changed by the very call that refuses one (the holder of the name is evicted before the refusal): exporting the same design again gives another package"))
    R.run(every_child_visited, repo, R)
    R.run(new_parents_see_original_ports, repo, R, "C07.9-new-parents-see-original-ports")
    R.floor("C07.1-snapshot-before-flattening", 2)
    R.floor("C07.2-bundled-vs-flattened-io", 2)
    R.floor("C07.3-freeze", 3)
    R.floor("C07.4-id-keyed-caches-pin-their-keys", 2)
    R.floor("C07.5-cache-ownership", 4)


def snapshot(repo: Repo, R):
    rule = "C07.1-snapshot-before-flattening"
    fi = repo.func(F_FLATB, "BundleFlattener.elaborate_module")
    stores = [st for st in au.stmts(fi.node) if isinstance(st, ast.Assign) and any(isinstance(t, ast.Attribute) and t.attr == "_pre_flattening_io" for t in st.targets)]
    if len(stores) != 1:
        R.bad(rule, key_of(fi, "snapshot"), fi.site, f"{len(stores)} stores of _pre_flattening_io in BundleFlattener.elaborate_module (expected exactly one)", "parents cannot see a child's original bundle-level ports")
    else:
        st = stores[0]
        val_ok = ast.unparse(st.value) in ("copy.copy(io(module))", "copy(io(module))", "dict(io(module))", "io(module)")
        cfg = CFG(fi.node, may_raise)

        class C(Client):
            def transfer(self, node, w):
                if node.kind == "stmt" and node.ast is st:
                    return [w | {"SNAP"}]
                return [w]

        IN = run_df(cfg, C())
        muts = []
        for n in cfg.nodes:
            tgt = n.ast if n.kind == "stmt" else n.expr
            if tgt is None:
                continue
            for c in au.calls_in(tgt):
                if isinstance(c.func, ast.Attribute) and c.func.attr in ("popitem", "pop") and "module." in ast.unparse(c.func.value):
                    muts.append(n)
                if ast.unparse(c.func) in ("self.replace_bundle_inst", "module.add"):
                    muts.append(n)
        before = bool(muts) and all("SNAP" in w for n in muts for w in IN[n.id])
        R.check(val_ok and before, rule, key_of(fi, "snapshot"), fi.at(st),
                f"`{ast.unparse(st)}`: value is a copy of the module's io ({val_ok}); it is taken before any bundle is removed or any flattened signal is added ({before}; {len(muts)} mutation sites)",
                why="a parent elaborated after its child sees the child's flattened ports where it connected a bundle (or vice versa), depending on call order")
    # nobody else writes the snapshot
    others = []
    for f in repo.funcs_in("hdl21/"):
        for n in ast.walk(f.node):
            if isinstance(n, ast.Attribute) and n.attr == "_pre_flattening_io" and isinstance(n.ctx, (ast.Store, ast.Del)):
                if f == fi:
                    continue
                if f.qual == "Module.__init__" and f.file.rel == F_MODULE:
                    continue
                others.append(f.at(n))
    R.check(not others, rule, f"{F_MODULE}::Module._pre_flattening_io::writers", F_MODULE,
            "only Module.__init__ (None) and BundleFlattener.elaborate_module write _pre_flattening_io" if not others else f"other writers of _pre_flattening_io: {others}",
            why="the snapshot is overwritten after flattening and then shows flattened ports")


def _atoms_for(fi: FuncInfo, pnames: Tuple[str, str]):
    """parent_flattened / child_flattened atoms, by local name or by their defining expression."""
    defs = au.local_defs(fi.node)
    names = {}
    for k, v in defs.items():
        s = ast.unparse(v)
        if s.endswith("._pre_flattening_io is not None"):
            who = s.split(".")[0]
            names[who] = k
    return names


def io_choice(repo: Repo, R):
    rule = "C07.2-bundled-vs-flattened-io"
    fi = repo.func(F_CONNT, "io_for_checking")
    par, ch = [a.arg for a in fi.node.args.args[:2]]
    names = _atoms_for(fi, (par, ch))

    def atom(nm, who):
        def f(t):
            if nm is not None and isinstance(t, ast.Name) and t.id == nm:
                return True
            s = ast.unparse(t)
            if s == f"{who}._pre_flattening_io is not None":
                return True
            if s == f"{who}._pre_flattening_io is None":
                return "neg"
            return False
        return f

    def kind_atom(kinds):
        def f(t):
            r = au.isinstance_classes(t) if isinstance(t, ast.Call) else None
            return r is not None and ast.unparse(r[0]) == ch and {ast.unparse(c).split(".")[-1] for c in r[1]} == kinds
        return f

    atoms = [("P", atom(names.get(par), par)), ("C", atom(names.get(ch), ch)), ("X", kind_atom({"ExternalModuleCall", "PrimitiveCall"})), ("M", kind_atom({"Module"}))]

    def norm(v):
        s = ast.unparse(v)
        if s in (f"io({ch})",):
            return "CURRENT"
        if s in (f"copy.copy({ch}._pre_flattening_io)", f"dict({ch}._pre_flattening_io)", f"copy({ch}._pre_flattening_io)"):
            return "SNAPSHOT"
        if s in (f"copy.copy({ch}.ports)", f"dict({ch}.ports)", f"copy({ch}.ports)"):
            return "PORTS"
        return s

    body = [st for st in fi.node.body if not (isinstance(st, ast.Expr) and isinstance(st.value, ast.Constant))]
    try:
        tab = fde.decision_table(body, atoms, ["<return>"], norm)
    except fde.Unknown as e:
        raise AnalysisError(f"idiom-unknown: io_for_checking: {e}")
    got = {("T" if p else "F") + ("T" if c else "F"): v["<return>"] for (p, c, x, m), v in tab.items() if not x and m}
    want = {"FF": "CURRENT", "FT": "SNAPSHOT", "TT": "CURRENT", "TF": "RAISE"}
    prefix_ok = all(v["<return>"] == "PORTS" for (p, c, x, m), v in tab.items() if x and not m) and all(v["<return>"] == "RAISE" for (p, c, x, m), v in tab.items() if not x and not m)
    R.check(got == want and prefix_ok, rule, key_of(fi), fi.site,
            f"decision table over (parent flattened, child flattened): {got}; expected {want}; primitives/external modules return a copy of their ports, other kinds raise: {prefix_ok}",
            why="a parent checked before its own flattening compares bundle connections with the child's flattened scalar ports (or the reverse), depending on which was elaborated first")
    fr = repo.func(F_PORTREFS, "io_for_resolving")
    a = fr.node.args.args[0].arg
    def norm2(v):
        s = ast.unparse(v)
        if s == f"io({a})":
            return "CURRENT"
        if s in (f"copy.copy({a}._pre_flattening_io)", f"dict({a}._pre_flattening_io)", f"copy({a}._pre_flattening_io)"):
            return "SNAPSHOT"
        return s

    def kind_atom2(kinds):
        def f(t):
            r = au.isinstance_classes(t) if isinstance(t, ast.Call) else None
            return r is not None and ast.unparse(r[0]) == a and {ast.unparse(c).split(".")[-1] for c in r[1]} == kinds
        return f

    def has_snapshot(t):
        s = ast.unparse(t)
        return True if s == f"{a}._pre_flattening_io is not None" else ("neg" if s == f"{a}._pre_flattening_io is None" else False)

    # the choice may depend on the existence of the snapshot only (not on marks left by other passes or calls)
    foreign = sorted({x.attr for n in au.walk_no_nested(fr.node) if isinstance(n, ast.If) for x in ast.walk(n.test) if isinstance(x, ast.Attribute) and x.attr != "_pre_flattening_io"})
    if foreign:
        R.bad(rule, key_of(fr), fr.site, f"io_for_resolving chooses between the snapshot and the current io by {foreign}, not by whether the snapshot exists",
              "a child that was flattened under a parent whose elaboration failed later is flattened but unmarked: a new parent's reference to its bundle port looks in the flattened io and fails")
        tab2 = None
    try:
        tab2 = None if foreign else fde.decision_table([st for st in fr.node.body if not (isinstance(st, ast.Expr) and isinstance(st.value, ast.Constant))], [("S", has_snapshot), ("X", kind_atom2({"ExternalModuleCall", "PrimitiveCall"})), ("M", kind_atom2({"Module"}))], ["<return>"], norm2)
    except fde.Unknown as e:
        raise AnalysisError(f"idiom-unknown: io_for_resolving: {e}")
    ok = tab2 is not None and tab2[(True, False, True)]["<return>"] == "SNAPSHOT"
    ok2 = tab2 is not None and tab2[(False, False, True)]["<return>"] == "CURRENT"
    if tab2 is not None:
      R.check(ok and ok2, rule, key_of(fr), fr.site, f"io_for_resolving returns the snapshot iff it exists ({ok}), else the current io ({ok2})",
            why="a port reference to a bundle-valued port of an already flattened child creates the wrong kind of implicit net")
    # both users of a child's ports during reference / no-connect resolution go through io_for_resolving
    for q in ("ResolvePortRefs.create_source", "ResolvePortRefs.replace_noconn"):
        f = repo.func(F_PORTREFS, q)
        calls = [ast.unparse(c) for c in au.calls_in(f.node) if (dotted(c.func) or "") in ("io", "io_for_resolving", "io_for_checking")]
        # one read, through io_for_resolving, of the target of the very reference whose port is looked up in it
        lookups = shared.calls_matching(f.node, "io_for_resolving($R.inst.of).get($R.portname)")
        ok = len(calls) == 1 and len(lookups) == 1
        R.check(ok, rule, key_of(f, "io-source"), f.site, f"{q} reads the child's ports through {calls} (expected one io_for_resolving(<ref>.inst.of).get(<ref>.portname): the pre-flattening snapshot when the child was elaborated earlier)",
                why="a no-connect or port reference on a bundle-valued port works when the child is fresh and fails (or resolves to a flattened scalar) when the child was elaborated or exported earlier")
    fio = repo.func(F_INSTANTIABLE, "io")
    a = fio.node.args.args[0].arg
    ok = bool(pat.find(f"$RV = copy.copy({a}.ports)", fio.node)) and bool(pat.find(f"$RV.update(copy.copy({a}.bundle_ports))", fio.node))
    R.check(ok, rule, key_of(fio), fio.site, f"io() is a fresh dict of signal ports plus bundle ports: {ok}", why="callers mutate the module's own port dict, or bundle ports are missing")


def freeze(repo: Repo, R):
    rule = "C07.3-freeze"
    fi = repo.func(F_MODULE, "_add")
    m = fi.node.args.args[0].arg
    cfg = CFG(fi.node, may_raise)
    IN = run_df(cfg, Client())
    stores = [n for n in cfg.nodes if n.kind == "stmt" and isinstance(n.ast, ast.Assign) and any(isinstance(t, ast.Subscript) for t in n.ast.targets)]
    if len(stores) < 2:
        raise AnalysisError(f"idiom-unknown: container stores not found in {fi.site}")
    guard_texts = [("cond", f"{m}._elaborated is not None", False), ("cond", f"{m}._elaborated is None", True), ("cond", f"{m}._elaborated", False)]
    ok = all(any(g in w for g in guard_texts) for n in stores for w in IN[n.id]) and all(IN[n.id] for n in stores)
    raises = any(isinstance(n, ast.If) and ((ast.unparse(n.test) == f"{m}._elaborated" and au.raises(n.body)) or (ast.unparse(n.test) == f"{m}._elaborated is None" and au.raises(n.orelse))) for n in au.walk_no_nested(fi.node))
    R.check(ok and raises, rule, key_of(fi), fi.site,
            f"every container store in Module._add is reached only with `{m}._elaborated is None` established ({ok}); otherwise it raises ({raises})",
            why="an elaborated module accepts additions, which earlier parents and caches never see")
    # both public entry points go through _add
    ci = repo.cls(F_MODULE, "Module")
    for meth in ("add", "__setattr__"):
        f = ci.methods[meth]
        ok = bool(pat.find("_add(module=self, val=val)", f.node)) or bool(pat.find("_add(self, val)", f.node))
        R.check(ok, rule, key_of(f), f.site, f"Module.{meth} inserts through _add (and therefore through the freeze guard): {ok}", why="one insertion path bypasses the freeze")
    # writers of _elaborated
    ws = []
    for f in repo.funcs_in("hdl21/"):
        for n in ast.walk(f.node):
            if isinstance(n, ast.Attribute) and n.attr == "_elaborated" and isinstance(n.ctx, ast.Store):
                recv = ast.unparse(n.value)
                kind = c02._receiver_kind(f, au.parents(f.node).get(n), "_elaborated") if isinstance(au.parents(f.node).get(n), (ast.Assign, ast.AnnAssign)) else None
                if kind == "Module" or (recv in ("module", "m")):
                    ws.append(f)
    names = sorted({f"{w.file.rel}::{w.qual}" for w in ws})
    want = {f"{F_MODULE}::Module.__init__", f"{F_MARK}::MarkModules.elaborate_module"}
    R.check(set(names) == want, rule, f"{F_MODULE}::Module._elaborated::writers", F_MODULE,
            f"Module._elaborated is written by {names}; expected only Module.__init__ and MarkModules",
            why="a module is frozen before elaboration completed, or thawed afterwards")


def id_keyed_caches(repo: Repo, R):
    rule = "C07.4-id-keyed-caches-pin-their-keys"
    n = 0
    for fi in repo.funcs_in(F_FLATB):
        for st in au.stmts(fi.node):
            if not (isinstance(st, ast.Assign) and len(st.targets) == 1 and isinstance(st.targets[0], ast.Subscript)):
                continue
            t = st.targets[0]
            m = pat.match("id($X)", t.slice)
            if m is None or not ast.unparse(t.value).startswith("THE_CACHE."):
                continue
            n += 1
            x = ast.unparse(m["X"])
            v = st.value
            defs = au.local_defs(fi.node)
            vx = au.expand(v, defs, depth=1) if isinstance(v, ast.Name) else v
            pinned = False
            how = ""
            if pat.match(f"BundleScope(src={x}, *$_)", vx):
                pinned, how = True, f"value is BundleScope(src={x})"
            else:
                # followed through one call: self.flatten_bundle_inst(x, ..) -> helper -> BundleScope(src=bundle_inst)
                if isinstance(vx, ast.Call):
                    r = repo.resolve_call(vx, fi)
                    hops = 0
                    while isinstance(r, FuncInfo) and hops < 3:
                        if pat.find("BundleScope(src=$S, *$_)", r.node):
                            src = pat.find("BundleScope(src=$S, *$_)", r.node)[0][1]["S"]
                            # the callee's parameter receiving x
                            pinned = isinstance(src, ast.Name) and src.id in [a.arg for a in r.node.args.args]
                            how = f"value comes from {r.qual}, which builds BundleScope(src={ast.unparse(src)})"
                            break
                        rets = [c for c in au.calls_in(r.node) if isinstance(repo.resolve_call(c, r), FuncInfo)]
                        nxt = None
                        for c in rets:
                            rr = repo.resolve_call(c, r)
                            if isinstance(rr, FuncInfo) and rr.file.rel == F_FLATB and rr != r:
                                nxt = rr
                        r = nxt
                        hops += 1
            R.check(pinned, rule, key_of(fi, ast.unparse(t)), fi.at(st),
                    f"`{ast.unparse(st)[:90]}`: the cached value holds a reference to the object whose address is the key ({how or 'not established'})",
                    why="once the key object is garbage collected its address is reused, and a later, unrelated bundle hits the stale cache entry — depending on allocation history")
    if n < 2:
        raise AnalysisError(f"anchor-vanished: id()-keyed stores into THE_CACHE found {n} (expected 2)")
    # BundlePortEntry: identity + name
    shared.eq_hash_wellformed(repo, R, rule, F_FLATB, "BundlePortEntry", "module", "portname",
                              why="two modules with equal content share one flattened-port cache entry, or one module's entry is not found again")


def cache_ownership(repo: Repo, R):
    rule = "C07.5-cache-ownership"
    owners = {
        "THE_CACHE": F_FLATB,
        "CLASS_LEVEL_CACHE": F_BASE,
    }
    for name, owner in owners.items():
        bad = []
        n_owner = 0
        for f in repo.funcs_in("hdl21/"):
            for n in ast.walk(f.node):
                hit = False
                if isinstance(n, (ast.Attribute, ast.Name)) and isinstance(getattr(n, "ctx", None), (ast.Store, ast.Del)) and (getattr(n, "attr", None) == name or getattr(n, "id", None) == name):
                    hit = True
                if isinstance(n, ast.Subscript) and isinstance(n.ctx, (ast.Store, ast.Del)) and name in ast.unparse(n.value):
                    hit = True
                if isinstance(n, ast.Call) and isinstance(n.func, ast.Attribute) and n.func.attr in ("add", "remove", "discard", "clear", "pop", "update", "setdefault", "popitem") and name in ast.unparse(n.func.value):
                    hit = True
                if hit:
                    if f.file.rel == owner:
                        n_owner += 1
                    else:
                        bad.append(f.at(n))
        R.check(not bad and n_owner > 0, rule, f"{owner}::{name}", owner,
                f"{name} is written at {n_owner} sites, all in {owner}" if not bad else f"{name} is written outside its owning module: {bad}",
                why="another module clears or edits a process-global elaboration cache: results depend on what ran before")
    # generator cache: written only in generator.py (tests aside)
    bad = []
    n_owner = 0
    for f in repo.funcs_in("hdl21/"):
        for n in ast.walk(f.node):
            if isinstance(n, ast.Call) and isinstance(n.func, ast.Attribute) and n.func.attr in ("add", "remove", "discard", "clear", "pop", "append", "reset") and any(k in ast.unparse(n.func.value) for k in ("Generator.Cache", "generator.cache", "the_cache")):
                (bad if f.file.rel != F_GENERATOR else [None]).append(f.at(n)) if f.file.rel != F_GENERATOR else None
                if f.file.rel == F_GENERATOR:
                    n_owner += 1
    R.check(not bad and n_owner >= 4, rule, f"{F_GENERATOR}::Generator.Cache", F_GENERATOR,
            f"the generator cache is written at {n_owner} sites, all in {F_GENERATOR}" if not bad else f"generator cache written elsewhere: {bad}",
            why="generator results depend on who cleared the cache")
    # per-class cache object created once per class and never replaced
    base = repo.cls(F_BASE, "ElabPass")
    isc = base.methods.get("__init_subclass__")
    stores = []
    for f in repo.funcs_in("hdl21/"):
        for n in ast.walk(f.node):
            if isinstance(n, ast.Attribute) and n.attr == "CLASS_LEVEL_CACHE" and isinstance(n.ctx, ast.Store):
                stores.append(f)
    ok = isc is not None and len(stores) == 1 and stores[0] == isc
    R.check(ok, rule, f"{F_BASE}::CLASS_LEVEL_CACHE::created-once", base.site,
            f"CLASS_LEVEL_CACHE is assigned only in ElabPass.__init_subclass__: {ok}", why="a pass's done-set is replaced mid-process; modules are re-visited by in-place passes")
    # done-set semantics: skip if done (idempotent re-elaboration)
    emb = repo.func(F_BASE, "ElabPass.elaborate_module_base")
    first = emb.node.body[0] if not (isinstance(emb.node.body[0], ast.Expr) and isinstance(emb.node.body[0].value, ast.Constant)) else emb.node.body[1]
    ok = isinstance(first, ast.If) and ast.unparse(first.test).endswith("in self.CLASS_LEVEL_CACHE.done") and isinstance(first.body[-1], ast.Return) and ast.unparse(first.body[-1].value) == emb.node.args.args[1].arg
    R.check(ok, rule, key_of(emb, "done-short-circuit"), emb.site, f"a module already completed by this pass is returned unchanged, first thing: {ok}",
            why="re-elaborating re-runs in-place passes on already rewritten modules")


def every_child_visited(repo: Repo, R):
    """A pass reaches a module through whoever instantiates it: the traversal descends through every kind of instance a
    module can hold — the kinds are read off Module._add — before it runs on the module itself."""
    rule = "C07.8-traversal-reaches-every-child"
    fa = repo.func(F_MODULE, "_add")
    marg, varg = fa.node.args.args[0].arg, fa.node.args.args[1].arg
    inst_classes = {c.name for c in repo.classes_in(F_INSTANCE)}
    conts = {}
    for st in au.walk_no_nested(fa.node):
        if isinstance(st, ast.Assign) and len(st.targets) == 1 and isinstance(st.value, ast.Attribute) and ast.unparse(st.value.value) == marg:
            for k in shared.admissible_kinds(fa.node, st, varg, inst_classes) - {"<other>"}:
                if len(shared.admissible_kinds(fa.node, st, varg, inst_classes) - {"<other>"}) == 1:
                    conts[k] = st.value.attr
    if len(conts) < 3:
        raise AnalysisError(f"idiom-unknown: instance-like containers of Module read off {fa.site}: {conts}")
    emb = repo.func(F_BASE, "ElabPass.elaborate_module_base")
    mp = emb.node.args.args[1].arg
    run = [c for c in au.calls_in(emb.node) if ast.unparse(c.func) == "self.elaborate_module"]
    if len(run) < 1:
        raise AnalysisError(f"idiom-unknown: {emb.site} does not call self.elaborate_module")
    visited = set()
    for lp in au.walk_no_nested(emb.node):
        if not isinstance(lp, ast.For):
            continue
        tv = ast.unparse(lp.target)
        calls = [c for c in au.calls_in(lp) if ast.unparse(c.func) == "self.elaborate_instance_base" and c.args and ast.unparse(c.args[0]) == tv]
        if not calls or any(isinstance(x, (ast.Break, ast.Continue)) for x in ast.walk(lp)) or any(shared.path_conditions(lp, c) for c in calls):
            continue
        if not all(shared.precedes(emb.node, lp, r_) for r_ in run):
            continue
        it = ast.unparse(au.expand(lp.iter, au.local_env(emb.node), depth=3))
        visited |= {a for a in conts.values() if f"{mp}.{a}" in it}
    missing = sorted(set(conts.values()) - visited)
    R.check(not missing, rule, key_of(emb), emb.site, f"before a pass runs on a module it has visited the targets of all its {sorted(conts.values())}" + (f" — NOT of {missing}" if missing else ""),
            why="a module reached only through an instance bundle (a Pair of modules that hold Pairs) is never visited by the early passes: its own instance bundles are silently dropped from the package — unless it was elaborated earlier")


def new_parents_see_original_ports(repo: Repo, R, rule: str):
    """Library code that builds a new parent around an instantiable it was handed (Wrapper, Series) reads that unit's
    ports through a view that is the same before and after the unit was elaborated: elaboration flattens bundle-valued
    ports in place and keeps the originals in `_pre_flattening_io`."""
    fio = repo.func(F_INSTANTIABLE, "io")
    # the views that hand out the pre-flattening ports when there are any: by role, not by name
    stable = set()
    for fi in repo.funcs_in("hdl21/"):
        if fi.cls is not None or not fi.node.args.args:
            continue
        a0 = fi.node.args.args[-1].arg if fi.name == "io_for_checking" else fi.node.args.args[0].arg
        for r_ in shared.returns_of(fi.node):
            if r_.value is None:
                continue
            t = shared.prov_text(fi.node, r_.value)
            if "_pre_flattening_io" in t and any("_pre_flattening_io" in shared.prov_text(fi.node, c) for c, _p in shared.path_conditions(fi.node, r_)):
                stable.add(fi.qual)
    if len(stable) < 1:
        raise AnalysisError(f"anchor-vanished: views that hand out `_pre_flattening_io` ({sorted(stable)})")
    n = 0
    for fi in repo.funcs_in(F_GENERATORS):
        params = {a.arg for a in fi.node.args.args}
        for c in au.calls_in(fi.node):
            callee = repo.resolve_call(c, fi)
            if not (callee is fio or (callee is None and (dotted(c.func) or "") == "io")) or not c.args:
                continue
            root = shared.prov(fi.node, c.args[0])
            made_here = isinstance(root, ast.Call)
            base = root
            while isinstance(base, (ast.Attribute, ast.Subscript)):
                base = base.value
            given = not made_here and isinstance(base, ast.Name) and base.id in params
            if not given:
                continue
            n += 1
            R.check(False, rule, key_of(fi, f"live-ports-of-{ast.unparse(c.args[0])}"), fi.at(c),
                    f"{fi.name} builds a new parent from `{ast.unparse(c)}`: the ports the unit has *now* — flattened ones once it was elaborated",
                    why="`to_proto(Wrapper(Bot))` works before `elaborate(Bot)` and is refused after it (`Missing connection to Port ab`); a Series stack silently gets scalar ports instead of the bundle")
    for fi in repo.funcs_in(F_GENERATORS):
        for c in au.calls_in(fi.node):
            callee = repo.resolve_call(c, fi)
            cname = callee.qual if isinstance(callee, FuncInfo) else (dotted(c.func) or "").split(".")[-1]
            if cname in stable and c.args:
                n += 1
                R.ok(rule, key_of(fi, f"original-ports-of-{ast.unparse(c.args[0])}"), fi.at(c), f"{fi.name} reads `{ast.unparse(c)}`: the unit's original ports, elaborated or not")
    if n < 2:
        raise AnalysisError(f"anchor-vanished: {F_GENERATORS} reads the ports of a unit at {n} sites; 2 were confirmed by reading (Wrapper, Series)")
