"""Facts about primitives, param-classes and the VLSIR reader tables, extracted
from declarative source (used by C06, C11, C13)."""

from __future__ import annotations

import ast
from typing import Dict, List, Optional, Set, Tuple

from ..core import AnalysisError, ClassInfo, FuncInfo, Repo, SourceFile, dotted
from .. import au, pat
from .common import *  # noqa


def module_value(repo: Repo, sf: SourceFile, name: str) -> Optional[ast.AST]:
    node = sf.defs.get(name)
    if isinstance(node, ast.Assign):
        return node.value
    if isinstance(node, ast.AnnAssign):
        return node.value
    return None


def port_names(repo: Repo, sf: SourceFile, expr: ast.AST, depth=0) -> Optional[List[str]]:
    """Names of the ports in a port-list expression: a list of `Port(name=..)`/`Signal(name=..)`
    calls, possibly behind `copy.deepcopy(..)`/`deepcopy(..)`/`list(..)` and module-level names."""
    if depth > 5:
        return None
    if isinstance(expr, ast.Call) and (dotted(expr.func) or "").split(".")[-1] in ("deepcopy", "copy", "list") and expr.args:
        return port_names(repo, sf, expr.args[0], depth + 1)
    if isinstance(expr, ast.Name):
        v = module_value(repo, sf, expr.id)
        if v is None:
            r = repo.resolve_name(sf, expr.id)
            if isinstance(r, tuple) and r[0] == "value":
                return port_names(repo, r[1], r[2].value, depth + 1)
            return None
        return port_names(repo, sf, v, depth + 1)
    if isinstance(expr, (ast.List, ast.Tuple)):
        out = []
        for e in expr.elts:
            if isinstance(e, ast.Call):
                kw = {k.arg: k.value for k in e.keywords}
                nm = au.str_const(kw["name"]) if "name" in kw else None
                if nm is None:
                    return None
                out.append(nm)
            else:
                return None
        return out
    return None


def paramclass_fields(repo: Repo, rel: str, cls: str) -> List[str]:
    ci = repo.cls(rel, cls)
    out = []
    for st in ci.node.body:
        if isinstance(st, ast.Assign) and len(st.targets) == 1 and isinstance(st.targets[0], ast.Name) and isinstance(st.value, ast.Call) and (dotted(st.value.func) or "").split(".")[-1] == "Param":
            out.append(st.targets[0].id)
    return out


def hdl21_primitives(repo: Repo) -> Dict[str, dict]:
    """name -> {ports, paramtype, primtype, aliases} for every `_add(prim=Primitive(..))`."""
    sf = repo.file(F_PRIMS)
    out = {}
    for n in ast.walk(sf.tree):
        if isinstance(n, ast.Call) and isinstance(n.func, ast.Name) and n.func.id == "_add":
            kw = {k.arg: k.value for k in n.keywords}
            prim = kw.get("prim") or (n.args[0] if n.args else None)
            if not (isinstance(prim, ast.Call) and dotted(prim.func) == "Primitive"):
                continue
            pk = {k.arg: k.value for k in prim.keywords}
            name = au.str_const(pk.get("name"))
            ports = port_names(repo, sf, pk.get("port_list"))
            ptype = ast.unparse(pk.get("primtype")).split(".")[-1] if pk.get("primtype") is not None else None
            pcls = ast.unparse(pk.get("paramtype")) if pk.get("paramtype") is not None else None
            aliases = [e.value for e in kw["aliases"].elts] if isinstance(kw.get("aliases"), ast.List) else []
            if name is None or ports is None:
                raise AnalysisError(f"idiom-unknown: primitive definition at {F_PRIMS}:{n.lineno}")
            out[name] = dict(ports=ports, paramtype=pcls, primtype=ptype, aliases=aliases, line=n.lineno)
    if len(out) < 15:
        raise AnalysisError(f"anchor-vanished: only {len(out)} primitives found in {F_PRIMS}")
    return out


def reader_primitives(repo: Repo) -> Dict[str, dict]:
    """vlsir.primitives as declared in the installed vlsirtools: name -> {ports, params}."""
    sf = None
    for f in repo.files.values():
        if f.modname == "vlsirtools.primitives":
            sf = f
    if sf is None:
        raise AnalysisError("reader sources (vlsirtools.primitives) not found")
    out = {}
    for n in ast.walk(sf.tree):
        if isinstance(n, ast.Call) and dotted(n.func) == "ExternalModule":
            kw = {k.arg: k.value for k in n.keywords}
            nm = kw.get("name")
            if not (isinstance(nm, ast.Call) and dotted(nm.func) == "_qname" and nm.args):
                continue
            name = au.str_const(nm.args[0])
            ports = None
            p = kw.get("ports")
            if isinstance(p, ast.Call) and dotted(p.func) == "_ports" and p.args and isinstance(p.args[0], (ast.Tuple, ast.List)):
                ports = [au.str_const(e) for e in p.args[0].elts]
            params = []
            required = []
            if isinstance(kw.get("parameters"), ast.List):
                for e in kw["parameters"].elts:
                    if isinstance(e, ast.Call):
                        k2 = {k.arg: k.value for k in e.keywords}
                        pn = au.str_const(k2.get("name"))
                        params.append(pn)
                        if "value" not in k2:
                            required.append(pn)
            out[name] = dict(ports=ports, params=params, required=required)
    if len(out) < 10:
        raise AnalysisError(f"reader: only {len(out)} vlsir.primitives found")
    return out


def dict_in_function(fi: FuncInfo, var: str) -> Optional[Dict[str, str]]:
    """The dict literal assigned to local `var` in fi, as {unparsed key: unparsed value}."""
    for st in au.stmts(fi.node):
        if isinstance(st, ast.Assign) and len(st.targets) == 1 and isinstance(st.targets[0], ast.Name) and st.targets[0].id == var:
            d = au.dict_literal(st.value)
            if d is not None:
                return {_k(k): _k(v) for k, v in d}
    return None


def expand_enum_table(repo, fi: FuncInfo, dc: ast.AST) -> Optional[ast.Dict]:
    """`{K(m): V(m) for m in <Enum class of the repository>}` written out: the members of an enum are known from its class
    body, so the table is a constant — `m.name` / `m.value` / `m` are substituted per member, and an enum member taken by
    its name (`E.Value("X")`, `getattr(E, "X")`, `E["X"]`) is `E.X`."""
    import copy

    if not (isinstance(dc, ast.DictComp) and len(dc.generators) == 1 and not dc.generators[0].ifs and isinstance(dc.generators[0].target, ast.Name) and isinstance(dc.generators[0].iter, ast.Name)):
        return None
    var, ename = dc.generators[0].target.id, dc.generators[0].iter.id
    ci = None
    r = repo.resolve_dotted(fi.file, ename)
    from ..core import ClassInfo as _CI

    if isinstance(r, _CI):
        ci = r
    if ci is None or not any("Enum" in b for b in ci.bases):
        return None
    members = [(st.targets[0].id, st.value) for st in ci.node.body if isinstance(st, ast.Assign) and len(st.targets) == 1 and isinstance(st.targets[0], ast.Name) and not st.targets[0].id.startswith("_")]
    if not members:
        return None

    def inst(e, nm, val):
        class S(ast.NodeTransformer):
            def visit_Attribute(self, node):
                if isinstance(node.value, ast.Name) and node.value.id == var:
                    if node.attr == "name":
                        return ast.copy_location(ast.Constant(nm), node)
                    if node.attr == "value":
                        return ast.copy_location(copy.deepcopy(val), node)
                return self.generic_visit(node)

            def visit_Name(self, node):
                if node.id == var and isinstance(node.ctx, ast.Load):
                    return ast.copy_location(ast.Attribute(ast.Name(ename, ast.Load()), nm, ast.Load()), node)
                return node

        class M(ast.NodeTransformer):
            def visit_Call(self, node):
                self.generic_visit(node)
                f = node.func
                if isinstance(f, ast.Attribute) and f.attr == "Value" and len(node.args) == 1 and isinstance(node.args[0], ast.Constant) and isinstance(node.args[0].value, str):
                    return ast.copy_location(ast.Attribute(f.value, node.args[0].value, ast.Load()), node)
                if isinstance(f, ast.Name) and f.id == "getattr" and len(node.args) == 2 and isinstance(node.args[1], ast.Constant) and isinstance(node.args[1].value, str):
                    return ast.copy_location(ast.Attribute(node.args[0], node.args[1].value, ast.Load()), node)
                return node

            def visit_Subscript(self, node):
                self.generic_visit(node)
                if isinstance(node.slice, ast.Constant) and isinstance(node.slice.value, str) and node.slice.value.isidentifier() and isinstance(node.value, (ast.Name, ast.Attribute)):
                    return ast.copy_location(ast.Attribute(node.value, node.slice.value, ast.Load()), node)
                return node

        return ast.fix_missing_locations(M().visit(S().visit(copy.deepcopy(e))))

    return ast.Dict([inst(dc.key, nm, v) for nm, v in members], [inst(dc.value, nm, v) for nm, v in members])


def dict_by_key(fi: FuncInfo, key_text: str, repo=None) -> Optional[Tuple[Dict[str, str], str]]:
    """The table subscripted with `key_text` in fi (`<table>[<key>]`): a dict literal in place, or a local / module-level
    name bound to one.  Returns ({unparsed key: unparsed value}, text of the table expression as written).
    Found by role, not by the table's name: where the literal lives (local, hoisted constant) does not matter."""
    from ..core import Repo as _R  # noqa

    for n in au.walk_no_nested(fi.node):
        tbl = None
        if isinstance(n, ast.Subscript) and isinstance(n.ctx, ast.Load) and ast.unparse(n.slice) == key_text:
            tbl = n.value
        elif isinstance(n, ast.Call) and isinstance(n.func, ast.Attribute) and n.func.attr == "get" and n.args and ast.unparse(n.args[0]) == key_text and (len(n.args) == 1 or ast.unparse(n.args[1]) == "None"):
            tbl = n.func.value  # `<table>.get(<key>)`: the same lookup, a miss is None instead of KeyError
        if tbl is not None:
            lit = None
            if isinstance(tbl, ast.Dict):
                lit = tbl
            elif isinstance(tbl, ast.Name):
                for st in au.stmts(fi.node):
                    if isinstance(st, ast.Assign) and len(st.targets) == 1 and isinstance(st.targets[0], ast.Name) and st.targets[0].id == tbl.id and isinstance(st.value, ast.Dict):
                        lit = st.value
                if lit is None:
                    for st in fi.file.tree.body:
                        if isinstance(st, (ast.Assign, ast.AnnAssign)):
                            tg = st.targets[0] if isinstance(st, ast.Assign) else st.target
                            if isinstance(tg, ast.Name) and tg.id == tbl.id and isinstance(st.value, ast.Dict):
                                lit = st.value
                            elif isinstance(tg, ast.Name) and tg.id == tbl.id and repo is not None and isinstance(st.value, ast.DictComp):
                                lit = expand_enum_table(repo, fi, st.value)  # a table derived from an enum of the repository
            if lit is None and repo is not None and isinstance(tbl, ast.DictComp):
                lit = expand_enum_table(repo, fi, tbl)
            if lit is not None:
                d = au.dict_literal(lit)
                if d is not None:
                    return {_k(k): _k(v) for k, v in d}, ast.unparse(tbl)
    return None


def returned_mapping(fi: FuncInfo) -> Optional[Dict[str, str]]:
    """The string-keyed dict display a function returns (`dict(k=v)` and `{"k": v}` are one canonical form; a
    value built in a local and returned is followed): {key: value text}."""
    from .shared import prov, returns_of

    out = None
    for r in returns_of(fi.node):
        v = prov(fi.node, r.value) if r.value is not None else None
        if isinstance(v, ast.Dict) and v.keys and all(isinstance(k, ast.Constant) and isinstance(k.value, str) for k in v.keys):
            out = {k.value: ast.unparse(x) for k, x in zip(v.keys, v.values)}
    return out


def _k(e: ast.AST) -> str:
    if isinstance(e, ast.Constant):
        return str(e.value)
    return ast.unparse(e)


def enum_values(repo: Repo, rel: str, cls: str) -> Dict[str, str]:
    ci = repo.cls(rel, cls)
    out = {}
    for st in ci.node.body:
        if isinstance(st, ast.Assign) and len(st.targets) == 1 and isinstance(st.targets[0], ast.Name) and not st.targets[0].id.startswith("_"):
            out[st.targets[0].id] = ast.unparse(st.value)
    return out


class _AttrToName(ast.NodeTransformer):
    def __init__(self, text, name):
        self.text, self.name = text, name

    def visit_Attribute(self, node):
        if ast.unparse(node) == self.text:
            return ast.copy_location(ast.Name(self.name, ast.Load()), node)
        return self.generic_visit(node)


def subst_attr(fn: ast.AST, text: str, name: str) -> ast.AST:
    import copy

    return ast.fix_missing_locations(_AttrToName(text, name).visit(copy.deepcopy(fn)))
