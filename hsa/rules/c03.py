"""C03 — indexing and concatenation follow Python sequence semantics.

Structural clauses (DESIGN §4 C03).  The numerical statement over all
(w, start, stop, step) is not decided here: normalisation is accepted when it is
delegated to Python's own `slice.indices` / `len(range(..))`, a small set of
known-correct closed forms is accepted, the known-wrong floor-division form is
rejected, anything else is ANALYSIS-ERROR (idiom-unknown).
"""

from __future__ import annotations

import ast
from typing import Dict, List, Optional, Set, Tuple

from ..core import AnalysisError, FuncInfo, Repo, dotted
from .. import au, pat
from .common import *  # noqa
from .common import key_of, union, isinstance_handled, noreturn_set, decorated_classes
from .shared import path_conditions, enclosing
from . import c01, shared


NEEDS_READER = True  # the attached bit-order clause reads the netlisters' conventions


def check(repo: Repo, R) -> None:
    R.run(slice_inner, repo, R, "C03")
    R.run(inner_properties, repo, R)
    R.run(c01.list_slice_index_maps, repo, R, "C03.4-nested-slice-index-maps")
    R.run(sliceable_kinds, repo, R)
    R.run(ref_width_is_referents, repo, R)
    R.run(concat_width, repo, R)
    R.run(slice_entry, repo, R)
    # "resolving nested slices and concatenations down to signal-level slices does not change the selected bit sequence":
    # flattening a concatenation keeps head before tail, and what the resolver leaves unresolved (a reversed or strided
    # slice directly on a signal) is refused by the exporter rather than written as a forward range
    from . import c02 as _c02
    from . import shared as _sh
    R.run(c01.bit_order, repo, _sh.Retag(R, lambda r, k: "C03.9-resolution-keeps-bit-sequence" if k.endswith("every-part-alike") else None,
                                        "a nested concatenation that reaches the exporter (a full-width slice of a Concat) is written inline in forward order: its parts come out swapped, widths unchanged"))
    R.run(c01.slice_resolution, repo, _sh.Retag(R, lambda r, k: "C03.9-resolution-keeps-bit-sequence" if any(x in k for x in ("concat-order", "::tail-", "flat-case", "_resolve_rest", "leading-slice-listed")) else None,
                                               "flattening a nested concatenation permutes its parts: Concat(Concat(a, b), c) is exported as c, a, b (same width, nothing notices)"))
    R.run(c01.secondary, repo, _sh.Retag(R, lambda r, k: "C03.9-resolution-keeps-bit-sequence" if k.endswith("slices.py::_resolve_slice") else None,
                                        "the bits peeled off a nested slice are put together again in another order (or neighbouring ones merged into an ascending range): `a[0:3][::-1]` comes out un-reversed, widths unchanged"),
          noreturn_set(repo))
    R.run(c01.ref_resolution, repo, _sh.Retag(R, lambda r, k: "C03.5-sliceable-kinds" if k.endswith("dependents-entered-with-the-referent") else None,
                                             "a slice of a port reference whose port is wired to a bundle member is re-parented onto the bundle reference and never handed on to the flat signal: the in-range slice `drv.q[1:3]` is refused by the resolver"))
    R.run(_c02.export_slice_guards, repo, _sh.Retag(R, lambda r: "C03.9-resolution-keeps-bit-sequence",
                                                   "a reversed slice the resolver left on its signal (`a[2:0:-1]`) is exported as the ascending range a[1],a[2]: the selected bits are silently reversed"),
          noreturn_set(repo), "C02.4-guard-inventory")
    R.floor("C03.1-int-index", 3)
    R.floor("C03.2-slice-index", 4)
    R.floor("C03.3-one-inner", 4)
    R.floor("C03.4-nested-slice-index-maps", 4)
    R.floor("C03.5-sliceable-kinds", 2)


def _find_inner_fn(repo: Repo) -> FuncInfo:
    """The function in hdl21/slice.py that constructs SliceInner (anchor by role)."""
    cands = [fi for fi in repo.funcs_in(F_SLICE) if pat.find("SliceInner(*$_)", fi.node) and fi.cls is None]
    if len(cands) > 1:
        # helpers split off the anchored function are read in place (canon.py inlines functions the reference tree does not
        # have); what is left of them as definitions is not a second anchor
        from .. import alpha
        ref = alpha.reference().get(F_SLICE) or {}
        known = [c for c in cands if c.qual in ref]
        if len(known) == 1:
            cands = known
    if len(cands) != 1:
        raise AnalysisError(f"anchor-vanished: expected one function constructing SliceInner in {F_SLICE}, found {[c.qual for c in cands]}")
    return cands[0]


def _is_width_helper_call(repo: Repo, fi: FuncInfo, e: ast.AST, parent_expr: str) -> bool:
    if not isinstance(e, ast.Call) or len(e.args) < 1:
        return False
    if ast.unparse(e.args[0]) != parent_expr:
        return False
    r = repo.resolve_call(e, fi)
    return isinstance(r, FuncInfo) and r.file.rel == F_WIDTH and r.name == "width"


def slice_inner(repo: Repo, R, prefix: str):
    """Integer and slice index normalisation.  `prefix` selects the property the
    obligations are reported under (C03, or C02 for the bounds part)."""
    fi = _find_inner_fn(repo)
    env = au.local_env(fi.node)
    defs = au.local_defs(fi.node)
    sl = fi.node.args.args[0].arg
    parent_expr = f"{sl}.parent"
    r_int = f"{prefix}.1-int-index" if prefix == "C03" else f"{prefix}.5-index-bounds"
    r_sl = f"{prefix}.2-slice-index" if prefix == "C03" else f"{prefix}.5-index-bounds"
    r_w = "C03.7-parent-width-for-every-kind"

    def X(e):  # expand through pure locals and through the single width-helper call
        return au.expand(e, defs, depth=4)

    # ---------------- integer branch
    int_if = None
    slice_if = None
    for n in au.walk_no_nested(fi.node):
        if isinstance(n, ast.If):
            t = ast.unparse(n.test)
            if t == "isinstance(index, int)" or (t.startswith("isinstance(") and t.endswith(", int)")):
                int_if = n
            if t.startswith("isinstance(") and t.endswith(", slice)"):
                slice_if = n
    if int_if is None or slice_if is None:
        raise AnalysisError(f"idiom-unknown: int / slice dispatch not found in {fi.site}")
    idx = ast.unparse(int_if.test.args[0])
    # candidate widths: every non-index atom compared against the index inside the integer arm; the bounds hold
    # when some raising statement is reached whenever i >= W, and whenever i < -W (propositionally, over the
    # path conditions: any spelling of the guard — two ifs, `or`, a negated chained comparison — decides the same)
    W = None
    upper_ok = lower_ok = False
    atoms = set()
    for n in ast.walk(int_if):
        if isinstance(n, ast.Compare) and len(n.ops) == 1 and isinstance(n.ops[0], (ast.Lt, ast.LtE, ast.Gt, ast.GtE)):
            for side in (X(n.left), X(n.comparators[0])):
                try:
                    pl = au.poly(side)
                except Exception:
                    continue
                for mon in pl:
                    for a in mon:
                        if a != idx:
                            atoms.add(a)
    itest = ast.unparse(int_if.test)

    class _Xfn:  # path conditions with locals expanded
        pass

    def reached(assume):
        prem = [(shared.parse_cond(itest), True)] + [(shared.parse_cond(t), p_) for t, p_ in assume]
        n_outer = len(path_conditions(fi.node, int_if))
        for r in shared.raising_leaves(ast.Module(int_if.body, [])):
            # what decides inside the integer arm (the conditions the arm itself is under say nothing about bounds)
            pcs = [(X(t), p_) for t, p_ in path_conditions(fi.node, r)[n_outer + 1:]]
            if shared.conds_imply(prem, pcs) is True:
                return True
        return False

    for a in sorted(atoms):
        u = reached([(f"{idx} < ({a})", False)])
        l = reached([(f"{idx} < -({a})", True)])
        if u or l:
            W, upper_ok, lower_ok = a, u, l
            if u and l:
                break
    R.check(upper_ok and lower_ok, r_int, key_of(fi, "int-bounds"), fi.at(int_if),
            f"integer index rejected when `{idx} >= {W}`: {upper_ok}; and when `{idx} < -{W}`: {lower_ok} (W = parent width)",
            why="`s[-5]` on a 4-bit signal is accepted and names bit -1; the '<' side is handled, the '>' side is not (or vice versa)")
    # normalisation of negative indices and the resulting record, per path: i < 0 -> (bot, top) = (i + W, i + W + 1);
    # otherwise (i, i + 1); step = width = 1
    ctor = [c for c, _b in pat.find("SliceInner(*$_)", ast.Module(int_if.body, []))]
    norm_ok = c_ok = False
    if ctor and W is not None and all(set(k.arg for k in ct.keywords) >= {"top", "bot", "step", "width"} for ct in ctor):
        ia = shared.alternatives(fi.node, int_if.test.args[0], [], at=int_if.test)
        idx_x = ast.unparse(X(ia[0][0])) if len(ia) == 1 else idx
        seen_neg = seen_pos = False
        norm_ok = c_ok = True
        unit = True
        for ct in ctor:  # one construction, or one per sign of the index
            kw = {k.arg: k.value for k in ct.keywords}
            unit = unit and ast.unparse(kw["step"]) == "1" and ast.unparse(kw["width"]) == "1"
            for fld, off in (("bot", 0), ("top", 1)):
                for v, cds in shared.alternatives(fi.node, kw[fld], list(path_conditions(fi.node, ct)), at=ct):
                    neg = None
                    for t, pol in shared.resolved_conditions(fi.node, cds):
                        if au.cmp_norm(X(t)) == au.cmp_norm(ast.parse(f"{idx_x} < 0", mode="eval").body):
                            neg = pol
                        elif au.cmp_norm(X(t)) == au.cmp_norm(ast.parse(f"{idx_x} >= 0", mode="eval").body):
                            neg = not pol
                    vx = X(v)
                    if neg is True:
                        seen_neg = True
                        if not au.poly_eq(vx, ast.parse(f"{idx_x} + {W} + {off}", mode="eval").body):
                            norm_ok = False
                    else:
                        seen_pos = seen_pos or neg is False
                        if not au.poly_eq(vx, ast.parse(f"{idx_x} + {off}", mode="eval").body):
                            (c_ok, norm_ok) = (False, norm_ok) if neg is False else (c_ok, False)
        norm_ok = norm_ok and seen_neg
        c_ok = c_ok and seen_pos and unit
    R.check(norm_ok, r_int, key_of(fi, "int-negative-normalised"), fi.at(int_if),
            f"a negative index is normalised by adding the parent width `{W}`: {norm_ok}",
            why="negative indices select the wrong bit")
    R.check(c_ok, r_int, key_of(fi, "int-result"), fi.at(int_if),
            "an integer index i yields (bot=i, top=i+1, step=1, width=1)" if c_ok else "an integer index does not yield (bot=i, top=i+1, step=1, width=1)",
            why="a single-bit slice has the wrong position or width")

    # ---------------- parent width for every sliceable kind (C03.7)
    if prefix == "C03":
        wsrc = None
        if W is not None:
            # W is the expanded text; find how it was obtained
            for name, d in defs.items():
                if ast.unparse(au.expand(d, defs, depth=4)) == W or name == W:
                    wsrc = d
            if wsrc is None:
                try:
                    wsrc = ast.parse(W, mode="eval").body
                except SyntaxError:
                    wsrc = None
        via_helper = wsrc is not None and any(_is_width_helper_call(repo, fi, n, "parent") or _is_width_helper_call(repo, fi, n, parent_expr) for n in ast.walk(wsrc))
        via_attr = W is not None and (W.endswith("parent.width") or W == "parent.width")
        R.check(via_helper and not via_attr, r_w, key_of(fi, "parent-width"), fi.site,
                f"the parent's width is obtained as `{W}`" + (" (the width() helper, defined for Signal, Slice, Concat, PortRef and BundleRef)" if via_helper else
                " — attribute `.width` does not exist on PortRef and is answered by __getattr__ magic on BundleRef"),
                why="`b.s[-1]` / `inst.port[2:]` on a bundle or port reference raise TypeError although in range")

    # ---------------- slice branch
    slice_arm = ast.Module(slice_if.body, [])  # the arm itself (an `elif` for the other index kind hangs off its orelse)
    ind = pat.find("$I.indices($W)", slice_arm)
    rng = pat.find("len(range($A, $B, $C))", slice_arm)
    empties = []
    for n in ast.walk(slice_arm):
        if isinstance(n, ast.If) and au.raises(n.body):
            empties.append(n)
    ctor = [c for c, _b in pat.find("SliceInner(*$_)", slice_arm)]
    if not ctor:
        raise AnalysisError(f"idiom-unknown: no SliceInner construction on the slice branch of {fi.site}")
    kw = {k.arg: k.value for k in ctor[0].keywords}
    if ind:
        c, b = ind[0]
        same_w = W is not None and ast.unparse(X(b["W"])) == W
        R.check(same_w, r_sl, key_of(fi, "slice-normalised-by-python"), fi.at(c),
                f"slice fields are normalised by `{ast.unparse(c)}` with the parent width: {same_w}",
                why="start/stop are clamped against another length than the parent's")
        # triple unpacked from indices()
        trip = None
        for st in ast.walk(slice_arm):
            if isinstance(st, ast.Assign) and st.value is c and isinstance(st.targets[0], ast.Tuple) and len(st.targets[0].elts) == 3:
                trip = [ast.unparse(e) for e in st.targets[0].elts]
        if trip is None:
            raise AnalysisError(f"idiom-unknown: result of indices() is not unpacked into (start, stop, step) in {fi.site}")
        wexpr = kw.get("width")
        wdef = au.expand(wexpr, defs, depth=2) if wexpr is not None else None
        m = pat.match("len(range($A, $B, $C))", wdef) if wdef is not None else None
        w_ok = m is not None and [ast.unparse(m[k]) for k in "ABC"] == trip
        for ct in ctor[1:]:
            we2 = {k.arg: k.value for k in ct.keywords}.get("width")
            wd2 = au.expand(we2, defs, depth=2) if we2 is not None else None
            m2 = pat.match("len(range($A, $B, $C))", wd2) if wd2 is not None else None
            w_ok = w_ok and m2 is not None and [ast.unparse(m2[k]) for k in "ABC"] == trip
        R.check(w_ok, r_sl, key_of(fi, "width-is-count"), fi.at(ctor[0]),
                f"width = `{ast.unparse(wdef) if wdef is not None else None}`; expected len(range({', '.join(trip)}))",
                why="the reported width differs from the number of selected bits (s[1::2] of a 4-bit bus reports width 1)")
        wname = ast.unparse(wexpr) if wexpr is not None else "width"
        e_ok = any(au.cmp_norm(n.test) in (au.cmp_norm(ast.parse(f"{wname} < 1", mode="eval").body),) for n in empties)
        R.check(e_ok, r_sl, key_of(fi, "empty-rejected"), fi.at(slice_if),
                f"an empty selection (`{wname} < 1`) raises: {e_ok}",
                why="`s[2:2]` is accepted and exported as a zero/negative-width slice")
        # bot / top per sign of step: lowest index, highest + 1
        start, stop, step = trip
        # `last`, by value: start + (width - 1) * step — found among the locals or written in place
        LAST = ast.parse(f"{start} + (len(range({start}, {stop}, {step})) - 1) * {step}", mode="eval").body

        class _RangeEnds(ast.NodeTransformer):
            """On a non-empty range (the empty one has raised): range(a, b, c)[0] == a, range(a, b, c)[-1] == a + (len(range(a, b, c)) - 1) * c"""
            def visit_Subscript(self, node):
                self.generic_visit(node)
                v = node.value
                if isinstance(v, ast.Call) and isinstance(v.func, ast.Name) and v.func.id == "range" and len(v.args) == 3 and not v.keywords:
                    k = ast.unparse(node.slice)
                    a_, b_, c_ = (ast.unparse(x) for x in v.args)
                    if k == "0":
                        return v.args[0]
                    if k == "-1":
                        return ast.parse(f"{a_} + (len(range({a_}, {b_}, {c_})) - 1) * {c_}", mode="eval").body
                return node

        def N(e):
            import copy as _c
            return _RangeEnds().visit(_c.deepcopy(shared.prov(fi.node, e)))

        def is_last(e):
            try:
                return au.poly_eq(N(e), LAST)
            except Exception:
                return False

        def is_start(e):
            return ast.unparse(N(e)) == start or ast.unparse(shared.prov(fi.node, e, depth=0)) == start or ast.unparse(e) == start

        def plus1(e, what):
            # e == what + 1
            return isinstance(e, ast.BinOp) and isinstance(e.op, ast.Add) and ((what(e.left) and ast.unparse(e.right) == "1") or (what(e.right) and ast.unparse(e.left) == "1"))

        bt_ok = False
        detail = "bot/top assignment per sign of step not recognised"
        got = {}
        # every construction of the record on the slice branch (one after the sign is decided, or one per sign)
        for ct in ctor:
            kwc = {k.arg: k.value for k in ct.keywords}
            if not {"bot", "top"} <= set(kwc):
                continue
            for fld in ("bot", "top"):
                for v, cds in shared.alternatives(fi.node, kwc[fld], list(path_conditions(fi.node, ct)), at=ct):
                    sg = c01._sign_of_branch([(shared.prov(fi.node, t), pol) for t, pol in cds], atom_suffix=step)
                    got.setdefault(sg, {})[fld] = v
        if set(got) == {1, -1} and all(set(got[k]) == {"bot", "top"} for k in got):
            p_ok = is_start(got[1]["bot"]) and plus1(got[1]["top"], is_last)
            n_ok = is_last(got[-1]["bot"]) and plus1(got[-1]["top"], is_start)
            bt_ok = p_ok and n_ok
            detail = f"step>0: (bot, top) = ({ast.unparse(got[1]['bot'])}, {ast.unparse(got[1]['top'])}); step<0: (bot, top) = ({ast.unparse(got[-1]['bot'])}, {ast.unparse(got[-1]['top'])}); with last = {start} + ({wname}-1)*{step}"
        elif set(got) == {None} and set(got[None]) == {"bot", "top"}:
            # one formula for both directions: the lowest and (one past) the highest of the first and the last selected index
            b_, t_ = got[None]["bot"], got[None]["top"]
            def mm(e, fn):
                return isinstance(e, ast.Call) and isinstance(e.func, ast.Name) and e.func.id == fn and len(e.args) == 2 and ((is_start(e.args[0]) and is_last(e.args[1])) or (is_start(e.args[1]) and is_last(e.args[0])))
            bt_ok = mm(shared.prov(fi.node, b_, depth=1) if isinstance(b_, ast.Name) else b_, "min") and plus1(t_, lambda x: mm(x, "max"))
            detail = f"(bot, top) = ({ast.unparse(b_)}, {ast.unparse(t_)}) for both directions; with last = {start} + ({wname}-1)*{step}"
        R.check(bt_ok, r_sl, key_of(fi, "bot-top"), fi.at(ctor[0]),
                detail + (" — bot is the lowest selected index and top one past the highest, for both directions" if bt_ok else ""),
                why="bot/top of strided or reversed slices are off, so nested resolution and export pick other bits")
        s_ok = all(ast.unparse({k.arg: k.value for k in ct.keywords}.get("step")) == step for ct in ctor)
        R.check(s_ok, r_sl, key_of(fi, "step"), fi.at(ctor[0]), f"step field is the normalised step `{step}`: {s_ok}", why="stride lost")
    else:
        # hand-written normalisation
        clamp = bool(pat.find("min($A, $B)", slice_if) or pat.find("max($A, $B)", slice_if))
        R.check(clamp, r_sl, key_of(fi, "slice-normalised-by-python"), fi.at(slice_if),
                "slice bounds are neither normalised by slice.indices(parent width) nor clamped to the parent width",
                why="`s[0:10]` on a 4-bit bus is accepted with width 10 and the netlist names bit s_9")
        e_ok = any("width" in ast.unparse(n.test) or "top" in ast.unparse(n.test) for n in empties if n.test is not None and "step" not in ast.unparse(n.test))
        R.check(e_ok, r_sl, key_of(fi, "empty-rejected"), fi.at(slice_if),
                "no guard rejects an empty selection", why="`s[2:2]` is accepted and exported as a zero/negative-width slice")
        wexpr = kw.get("width")
        wdef = au.expand(wexpr, defs, depth=1) if wexpr is not None else None
        if wdef is not None and pat.match("len(range($A, $B, $C))", wdef):
            R.ok(r_sl, key_of(fi, "width-is-count"), fi.at(ctor[0]), "width = len(range(..))")
        elif wdef is not None and isinstance(wdef, ast.BinOp) and isinstance(wdef.op, ast.FloorDiv) and not any(isinstance(n, ast.Constant) and n.value == 1 for n in ast.walk(wdef)) and not any(isinstance(n, ast.UnaryOp) for n in ast.walk(wdef)):
            R.bad(r_sl, key_of(fi, "width-is-count"), fi.at(ctor[0]),
                  f"width = `{ast.unparse(wdef)}` is a floor division of a span by the step; the number of selected indices is the ceiling (and is negative for reversed slices)",
                  why="s[1::2] of a 4-bit bus reports width 1, s[3:1:-1] width -2")
        else:
            raise AnalysisError(f"idiom-unknown: hand-written width arithmetic `{ast.unparse(wdef) if wdef is not None else None}` in {fi.site} is not judged by this rule")
        R.bad(r_sl, key_of(fi, "bot-top"), fi.at(ctor[0]), "hand-written bot/top arithmetic is not delegated to slice.indices(); not accepted",
              why="bounds beyond [-w, w] are not clamped")
    zero = pat.find("$I.indices($W)", slice_if) or any(au.cmp_norm(n.test) == ("eq", "step") and au.raises(n.body) for n in ast.walk(slice_if) if isinstance(n, ast.If))
    R.check(bool(zero), r_sl, key_of(fi, "zero-step"), fi.at(slice_if),
            "a zero step raises (slice.indices raises ValueError, or an explicit guard)" if zero else "a zero step is not rejected",
            why="division by zero / infinite selection")


def inner_properties(repo: Repo, R):
    rule = "C03.3-one-inner"
    ci = repo.cls(F_SLICE, "Slice")
    for name in ("top", "bot", "step", "width"):
        m = ci.methods.get(name)
        if m is None:
            raise AnalysisError(f"anchor-vanished: Slice.{name} property")
        ret = [n for n in au.walk_no_nested(m.node) if isinstance(n, ast.Return)]
        ok = len(ret) == 1 and ret[0].value is not None and ast.unparse(ret[0].value) == f"_get_inner(self).{name}" and "property" in [d for d in (au.dotted(x) if hasattr(au, 'dotted') else dotted(x) for x in m.node.decorator_list)]
        R.check(ok, rule, key_of(m), m.site,
                f"Slice.{name} returns `_get_inner(self).{name}` (the one memoised computation)" if ok else f"Slice.{name} is `{ast.unparse(ret[0].value) if ret else None}`, not the field of the same name of the memoised SliceInner",
                why="width/top/bot/step are computed by diverging code, or one reads another's field")
    g = repo.func(F_SLICE, "_get_inner")
    a = g.node.args.args[0].arg
    fi = _find_inner_fn(repo)
    from . import shared as _sh
    want_call = f"{fi.name}({a})"
    # (1) what is returned is the stored record, or the record computed now
    rets_ok = True
    n_ret = 0
    for r in _sh.returns_of(g.node):
        for v, _c in _sh.alternatives(g.node, r.value, path_conditions(g.node, r), at=r):
            n_ret += 1
            if ast.unparse(v) not in (f"{a}._inner", want_call):
                rets_ok = False
    # (2) the computed record is stored in _inner, and computed only when nothing is stored yet
    stored = False
    for st in au.walk_no_nested(g.node):
        if isinstance(st, ast.Assign) and len(st.targets) == 1 and ast.unparse(st.targets[0]) == f"{a}._inner":
            vals = {ast.unparse(v) for v, _c in _sh.alternatives(g.node, st.value, path_conditions(g.node, st), at=st)}
            stored = stored or vals == {want_call}
    only_when_empty = True
    calls = [c for c in au.calls_in(g.node) if ast.unparse(c) == want_call]
    for c in calls:
        conds = _sh.resolved_conditions(g.node, path_conditions(g.node, c))
        if _sh.conds_imply(conds, [(_sh.parse_cond(f"{a}._inner is None"), True)]) is not True:
            only_when_empty = False
    memo = rets_ok and n_ret > 0 and stored and bool(calls) and only_when_empty
    R.check(memo, rule, key_of(g), g.site,
            f"_get_inner computes `{fi.name}` once and memoises it in _inner" if memo else f"_get_inner does not memoise the single SliceInner computation (returns the stored or the fresh record: {rets_ok}; fresh record stored: {stored}; computed only while nothing is stored: {only_when_empty})",
            why="successive reads of a slice's fields can disagree")


def sliceable_kinds(repo: Repo, R):
    rule = "C03.5-sliceable-kinds"
    want = set(union(repo, F_WIDTH, "Sliceable"))
    deco = {c.name for c in decorated_classes(repo, "sliceable")}
    R.check(want == deco and want == {"Signal", "Slice", "Concat", "PortRef", "BundleRef"}, rule, f"{F_WIDTH}::Sliceable", F_WIDTH,
            f"classes decorated @sliceable: {sorted(deco)}; width.Sliceable: {sorted(want)}; property text: signals, slices, concatenations, port references, bundle references",
            why="an in-range index is refused on one of the five kinds (or accepted on a kind without width)")
    fw = repo.func(F_WIDTH, "width")
    handled = isinstance_handled(repo, fw)
    conn = set(union(repo, F_CONNECT, "Connectable"))
    missing = sorted(conn - handled)
    falls = au.default_raises(fw.node.body, noreturn_set(repo))
    R.check(not missing and falls, rule, key_of(fw), fw.site,
            f"width() dispatches over {sorted(handled)}; Connectable = {sorted(conn)}" + (f"; MISSING {missing}" if missing else "") + f"; falls through to a failure: {falls}",
            why="width() returns None for a connectable kind, and width comparisons silently pass")
    rw = repo.func(F_WIDTH, "ref_width")
    h2 = isinstance_handled(repo, rw, subject=rw.node.args.args[0].arg)
    R.check({"PortRef", "BundleRef"} <= h2, rule, key_of(rw), rw.site,
            f"ref_width resolves both reference kinds: {sorted(h2)}",
            why="the width of a port or bundle reference is not its referent's width")


def ref_width_is_referents(repo: Repo, R):
    """The width of a reference is the width of the signal it refers to — that number, unscaled, is what is
    remembered on the reference and what every return of the Signal arm hands out."""
    rule = "C03.5-sliceable-kinds"
    rw = repo.func(F_WIDTH, "ref_width")
    rp = rw.node.args.args[0].arg
    memo = f"{rp}._width"

    def is_referent_width(e: ast.AST) -> bool:
        v = shared.prov(rw.node, e)
        if not (isinstance(v, ast.Call) and isinstance(v.func, ast.Name) and v.func.id == "width" and v.args):
            return False
        a0 = ast.unparse(v.args[0])
        return a0.startswith(("resolve_portref_type(", "resolve_bundleref_type(")) or isinstance(shared.prov(rw.node, v.args[0]), ast.Name)

    writes = [n for n in au.walk_no_nested(rw.node) if isinstance(n, (ast.Assign, ast.AugAssign, ast.AnnAssign)) and any(ast.unparse(t) == memo for t in (n.targets if isinstance(n, ast.Assign) else [n.target]))]
    bad = [f"`{ast.unparse(n)}`" for n in writes if not (isinstance(n, ast.Assign) and is_referent_width(n.value))]
    rets = [r for r in shared.returns_of(rw.node) if r.value is not None]
    n_ok = 0
    for r in rets:
        for v, _c in shared.alternatives(rw.node, r.value, shared.path_conditions(rw.node, r), at=r):
            t = ast.unparse(v)
            if t == memo or is_referent_width(v):
                n_ok += 1
            elif isinstance(v, ast.Call) and ast.unparse(v.func) in (rw.node.args.args[1].arg if len(rw.node.args.args) > 1 else "failer", "fail"):
                continue
            else:
                bad.append(f"returns `{t[:70]}`")
    R.check(bool(writes) and n_ok >= 2 and not bad, rule, key_of(rw, "referent-width-unscaled"), rw.site,
            f"ref_width remembers and returns exactly width(<referent signal>)" if not bad else f"ref_width scales or replaces the referent's width: {bad}",
            why="a slice of an instance-array port reference counts n times the port's bits: `arr.p[-1]` names a bit beyond the signal")


def concat_width(repo: Repo, R):
    rule = "C03.6-concat-width-is-sum"
    fw = repo.func(F_WIDTH, "width")
    arg = fw.node.args.args[0].arg
    hits = pat.find(f"sum([width($P) for $P in {arg}.parts])", fw.node) + pat.find(f"sum((width($P) for $P in {arg}.parts))", fw.node) + pat.find(f"sum(width($P) for $P in {arg}.parts)", fw.node)
    ok = False
    for c, b in hits:
        conds = path_conditions(fw.node, c)
        ok = any(pol and ast.unparse(t) == f"isinstance({arg}, Concat)" for t, pol in conds)
    # ... and that sum, computed at the time of the question, is what every return of the Concat arm hands out
    from . import shared as _sh
    rets = [r for r in _sh.returns_of(fw.node) if any(pol and ast.unparse(t) == f"isinstance({arg}, Concat)" for t, pol in path_conditions(fw.node, r))]
    fresh = bool(rets)
    stale = ""
    for r in rets:
        for v, _c in _sh.alternatives(fw.node, r.value, path_conditions(fw.node, r), at=r):
            if not any(pat.match(p_, v) is not None for p_ in (f"sum([width($P) for $P in {arg}.parts])", f"sum((width($P) for $P in {arg}.parts))")):
                fresh = False
                stale = ast.unparse(v)
    stores = [ast.unparse(t) for n in au.walk_no_nested(fw.node) if isinstance(n, (ast.Assign, ast.AugAssign, ast.AnnAssign)) for t in (n.targets if isinstance(n, ast.Assign) else [n.target]) if isinstance(t, (ast.Attribute, ast.Subscript))]
    R.check(ok and fresh and not stores, rule, key_of(fw, "Concat"), fw.site,
            "width(Concat) is the sum of the widths of its parts, computed when asked" if ok and fresh and not stores else
            (f"width(Concat) returns `{stale}`" if stale else "width(Concat) is not `sum(width(p) for p in conn.parts)`") + (f"; width() stores into {stores}" if stores else ""),
            why="Concat(a, b) does not have len(a) + len(b) bits — or keeps the number it had when first asked, after a part's width has changed")
    # Signal / Slice arms return their own width
    for cls in ("Signal", "Slice"):
        ok2 = False
        for n, classes, arm in au.dispatch_arms(fw.node, arg):
            if cls in {ast.unparse(c).split(".")[-1] for c in classes}:
                ok2 = len(arm) == 1 and isinstance(arm[0], ast.Return) and ast.unparse(arm[0].value) == f"{arg}.width"
        R.check(ok2, rule, key_of(fw, cls), fw.site, f"width({cls}) is its own `.width`: {ok2}", why=f"width of a {cls} is misreported")


def slice_entry(repo: Repo, R):
    rule = "C03.8-index-entry"
    fs = repo.func(F_SLICEABLE, "_slice")
    tchk = shared.fails_unless(fs.node, "isinstance(index, (int, slice))") is not None
    reg = bool(pat.find("parent._slices.add($S)", fs.node))
    mk = bool(pat.find("Slice(parent=parent, index=index)", fs.node))
    R.check(tchk and reg and mk, rule, key_of(fs), fs.site,
            f"square brackets: non-int/slice index raises: {tchk}; builds Slice(parent, index): {mk}; registers the slice with its parent (so reference resolution can re-parent it): {reg}",
            why="a slice of a port reference is not re-parented when the reference resolves, and is exported against the reference")
    # ... with the index as it was given: what a Slice stores is judged (and normalised) once, by the inner resolution
    ctors = [c for c, _b in pat.find("Slice(parent=$A, index=$I)", fs.node)]
    rewrites = []
    for c in ctors:
        for kw in c.keywords:
            pn = kw.arg
            if not (isinstance(kw.value, ast.Name) and kw.value.id == pn):
                rewrites.append(f"{pn}=`{ast.unparse(kw.value)}`")
                continue
            alts = shared.param_alternatives(fs.node, pn, c)
            if alts is None:
                raise AnalysisError(f"idiom-unknown: {fs.site}: binding of `{pn}` where the Slice is built")
            for v, cds in alts:
                if v is None:
                    continue
                # a normalisation `index + W` of a negative index is the same index only when it is known to be >= -W
                guarded = False
                if pn == "index" and isinstance(v, ast.BinOp) and isinstance(v.op, ast.Add) and ast.unparse(v.left) == pn:
                    w_ = ast.unparse(v.right)
                    for t, pol in cds:
                        if isinstance(t, ast.Compare) and len(t.ops) == 1:
                            l_, r_, op_ = ast.unparse(t.left), ast.unparse(t.comparators[0]), type(t.ops[0]).__name__
                            if {l_, r_} == {pn, f"-{w_}"}:
                                op_ = op_ if l_ == pn else {"Lt": "Gt", "Gt": "Lt", "LtE": "GtE", "GtE": "LtE"}.get(op_, op_)
                                guarded = guarded or (op_ == "GtE" and pol) or (op_ == "Lt" and not pol)
                if not guarded:
                    rewrites.append(f"{pn} := `{ast.unparse(v)}`" + (f" when {' and '.join(('' if p_ else 'not ') + ast.unparse(t) for t, p_ in cds)}" if cds else ""))
    R.check(bool(ctors) and not rewrites, rule, key_of(fs, "index-as-given"), fs.site,
            "the Slice stores the parent and the index it was asked for" if not rewrites else f"the index (or parent) is rewritten before it is stored: {rewrites}",
            why="an index moved into range before the range check is accepted: `Signal(width=4)[-5]` becomes bit 3 instead of an error")
    ci = repo.cls(F_SLICE, "Slice")
    pi = ci.methods.get("__post_init__")
    # whatever is refused when the slice is built is refused for every width: it must select nothing for every width
    from . import slicedomain
    R.run(slicedomain.early_rejections, repo, R, rule, [fs] + ([pi] if pi is not None else []))
    ok = pi is not None and shared.fails_unless(pi.node, "is_sliceable(self.parent)") is not None
    R.check(ok, rule, key_of(pi) if pi else f"{F_SLICE}::Slice", ci.site, f"Slice() rejects non-sliceable parents: {ok}", why="a slice of a bundle instance or no-connect is accepted")
