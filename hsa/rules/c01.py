"""C01 — elaboration and export preserve the connectivity the designer wrote.

Structural clauses only (DESIGN §4 C01); the composition of the passes on
arbitrary object graphs is not decided.
"""

from __future__ import annotations

import ast
import re
from typing import Dict, List, Optional, Set, Tuple

from ..core import AnalysisError, FuncInfo, Repo, dotted
from .. import au, pat
from .common import *  # noqa
from .common import key_of, union, isinstance_handled, noreturn_set, class_names, decorated_classes
from . import shared
from .shared import path_conditions, enclosing, enclosing_all, iter_direction, loop_iters
from .shared import alternatives as shared_alts

NEEDS_READER = True

P = "C01"


def check(repo: Repo, R) -> None:
    noret = noreturn_set(repo)
    R.run(source_covers_connectables, repo, R, "C01.1-portref-source-kinds")
    R.run(bit_order, repo, R)
    R.run(array_partition, repo, R, "C01.3-array-partition")
    R.run(bundle_conn_path, repo, R, "C01.4-bundle-reconnect-by-path")
    R.run(inst_bundle_names, repo, R, "C01.5-instbundle-member-wiring")
    R.run(noconn_private, repo, R, noret)
    R.run(shared.eq_hash_wellformed, repo, R, "C01.7-ref-eq-hash", F_PORTREF, "PortRef", "inst", "portname",
                              why="two references to the same (instance, port) stop comparing equal, so groups of connected ports split or merge")
    R.run(shared.eq_hash_wellformed, repo, R, "C01.7-ref-eq-hash", F_BUNDLE, "BundleRef", "parent", "attrname",
                              why="comparing/hashing a BundleRef manufactures a bogus reference through __getattr__ magic; a design using b.x through a port-reference chain dies in BundleFlattener")
    R.run(slice_resolution, repo, R)
    R.run(shared.owner_only_writes, repo, R, "C01.9-conns-owner-api",
                             why="a pass that rewrites conns without updating the back-reference set leaves stale or missing _connected_ports entries that later passes follow")
    from . import c04
    from . import c02 as _c02
    R.run(_c02.live_passes, repo, shared.Retag(R, lambda r, k: "C01.16-pass-order" if "<" in k.split("::")[-1] else None,
                                        "a connection is rewritten by a pass that runs before the pass producing what it consumes: nets are merged (a NoConn on a Pair port shorts p and n) or split"))
    R.run(c04.pairing, repo, shared.Retag(R, lambda r: "C01.9-conns-owner-api",
                                   "a replaced port reference / bundle keeps its back-reference: ResolvePortRefs or BundleFlattener later follow it and short the re-connected port onto the old net"))
    # "the same leaf devices with the same parameters": nothing an elaboration pass inserts may take the name of (and so
    # evict) something the designer placed, and every parameter that is set reaches the exported instance
    from . import c05 as _c05
    from . import c13 as _c13
    R.run(_c05.check, repo, shared.Retag(R, lambda r: "C01.17-devices-and-parameters-kept" if r.startswith("C05.1") else None,
                                        "the invented name evicts a hand-placed instance or signal of the same name from the module: a device (or a net) of the written circuit is missing from the package"))
    R.run(_c13.none_skipped, repo, shared.Retag(R, lambda r, k: "C01.17-devices-and-parameters-kept" if k.endswith("only-none") else None,
                                                "a parameter explicitly set to a falsy value (0, 0.0, False, '') is dropped: the device is netlisted with the model's default"))
    # "the same leaf devices": an ideal element is written as the VLSIR primitive that is that element
    R.run(_c13.ideal_primitives, repo, R, "C01.17-devices-and-parameters-kept")
    # "every port reaches the net it was connected to": the bits a slice connection names are the bits it was written with
    from . import c03 as _c03, c10 as _c10
    R.run(_c03.slice_inner, repo, shared.Retag(R, lambda r, k: "C01.8-slice-resolution-order" if r.startswith("C03.2") else None,
                                              "the resolved bottom / top of a down-counting strided slice is off: the lowest bit of the connection lands on a neighbouring net, widths and counts unchanged"), "C03")
    R.run(_c10.anonymous_members_by_key, repo, shared.Retag(R, lambda r, k: "C01.14-ref-resolution" if k.endswith("reference-followed-to-the-end") else None,
                                                           "an anonymous-bundle member given as a port reference that resolves to a bundle member is followed one step only: the valid design is refused (`Invalid AnonBundle attribute BundleRef`)"))
    R.run(total_loops, repo, R, noret)
    R.run(copy_port_internal, repo, R)
    R.run(copy_aliasing, repo, R, "C01.12-copy-shares-backrefs")
    R.run(noconn_array, repo, R)
    R.run(ref_resolution, repo, R)
    R.run(secondary, repo, R, noret)
    R.floor("C01.1-portref-source-kinds", 1)
    R.floor("C01.2-bit-order", 5)
    R.floor("C01.3-array-partition", 3)
    R.floor("C01.7-ref-eq-hash", 4)
    R.floor("C01.10-total-loops", 6)


# --------------------------------------------------------------------------
# 1. every connectable kind that can sit in a port-reference group is a Source
# --------------------------------------------------------------------------


def source_covers_connectables(repo: Repo, R, rule: str):
    conn = set(union(repo, F_CONNECT, "Connectable"))
    deco = {c.name for c in decorated_classes(repo, "connectable")}
    if conn != deco:
        R.bad(rule, f"{F_CONNECT}::Connectable", F_CONNECT,
              f"`Connectable` union {sorted(conn)} differs from the classes decorated @connectable {sorted(deco)}",
              "a connectable kind unknown to the type union is not dispatched by the passes")
    universe = conn - {"PortRef", "NoConn"}
    fi = repo.func(F_PORTREFS, "ResolvePortRefs.find_source")
    handled = isinstance_handled(repo, fi)
    if not handled:
        handled = set(union(repo, F_PORTREFS, "Source"))
    missing = sorted(universe - handled)
    R.check(
        not missing,
        rule,
        f"{F_PORTREFS}::Source",
        fi.site,
        f"find_source keeps {sorted(handled)}; connectable kinds that may be connected to a port in a reference group: {sorted(universe)}"
        + (f"; MISSING {missing}" if missing else ""),
        why="`i0 = Inner(a=bus[0]); i1 = Inner(a=i0.a)`: the Slice/Concat in the group is not recognised as its source, "
        "a fresh signal replaces it and the connection to bus[0] is silently lost",
    )


# --------------------------------------------------------------------------
# 2. bit order and index conventions agree with the readers
# --------------------------------------------------------------------------


def reader_facts(repo: Repo) -> Dict[str, object]:
    """Facts read from the installed vlsirtools netlisters."""
    facts: Dict[str, object] = {}
    rel = None
    for r, sf in repo.files.items():
        if sf.modname == "vlsirtools.netlist.spice":
            rel = r
    if rel is None:
        raise AnalysisError("reader sources (vlsirtools.netlist.spice) not found")
    sf = repo.files[rel]
    cls = None
    for ci in repo.all_classes():
        if ci.file is sf and "format_signal_slice" in ci.methods and "format_concat" in ci.methods:
            cls = ci
            break
    if cls is None:
        raise AnalysisError("reader: class with format_signal_slice/format_concat not found")
    # (a) buses are written MSB first
    m = cls.methods["format_signal_ref"]
    env = au.local_env(m.node)
    dirs = [iter_direction(it, env) for _n, _t, it in loop_iters(m.node)]
    facts["bus_dir"] = dirs[0] if dirs else None
    # (b) slice expansion range(bot, top+1), direction
    m = cls.methods["format_signal_slice"]
    env = au.local_env(m.node)
    rng = pat.find("range($B.bot, $T.top + 1)", m.node)
    facts["slice_top_inclusive"] = bool(rng)
    d = None
    for _n, _t, it in loop_iters(m.node):
        d = iter_direction(au.expand(it, env), {})
    facts["slice_dir"] = d
    # (c) concat parts left to right
    m = cls.methods["format_concat"]
    env = au.local_env(m.node)
    dirs = [iter_direction(it, env) for _n, _t, it in loop_iters(m.node)]
    facts["concat_dir"] = dirs[0] if dirs else None
    return facts


def _parts_loop_direction(fi: FuncInfo, param: str) -> Optional[int]:
    """Direction in which `fi` walks `<param>.parts`."""
    env = au.local_env(fi.node)
    cands = []
    for _n, _t, it in loop_iters(fi.node):
        itx = au.expand(it, env)
        if f"{param}.parts" in ast.unparse(itx):
            cands.append(iter_direction(itx, {}))
    if len(cands) != 1:
        return None
    return cands[0]


def bit_order(repo: Repo, R):
    rule = "C01.2-bit-order"
    facts = reader_facts(repo)
    R.note(f"reader facts: {facts}")
    if facts["bus_dir"] is None or facts["concat_dir"] is None or facts["slice_dir"] is None:
        raise AnalysisError(f"idiom-unknown: could not read iteration directions from the vlsirtools netlister: {facts}")
    # --- (i) export_slice: inclusive top, same bot, parent signal name
    fi = repo.func(F_EXPORT, "export_slice")
    sl = fi.node.args.args[0].arg
    env = au.local_env(fi.node)
    calls = [c for c, _b in pat.find("$F(*$_)", fi.node) if isinstance(c, ast.Call) and {k.arg for k in c.keywords} >= {"signal", "top", "bot"}]
    if len(calls) != 1:
        raise AnalysisError(f"idiom-unknown: expected one Slice(signal=, top=, bot=) construction in {fi.site}")
    kw = {k.arg: au.expand(k.value, env) for k in calls[0].keywords}
    want_top = ast.parse(f"{sl}.top - 1", mode="eval").body if facts["slice_top_inclusive"] else ast.parse(f"{sl}.top", mode="eval").body
    R.check(au.poly_eq(kw["top"], want_top), rule, key_of(fi, "top"), fi.at(calls[0]),
            f"exported top = `{ast.unparse(kw['top'])}`; Slice.top is exclusive and the reader expands range(bot, top + 1) ⇒ expected `{ast.unparse(want_top)}`",
            why="every exported slice gains or loses its most significant bit")
    R.check(au.poly_eq(kw["bot"], ast.parse(f"{sl}.bot", mode="eval").body), rule, key_of(fi, "bot"), fi.at(calls[0]),
            f"exported bot = `{ast.unparse(kw['bot'])}`, expected `{sl}.bot`",
            why="every exported slice is shifted")
    R.check(ast.unparse(kw["signal"]) == f"{sl}.parent.name", rule, key_of(fi, "signal"), fi.at(calls[0]),
            f"exported signal = `{ast.unparse(kw['signal'])}`, expected `{sl}.parent.name`",
            why="the slice names another signal")
    # --- (ii) export_concat part order.  hdl21 Concat(a, b): a lowest (LSB first).
    # The reader prints buses in direction bus_dir (-1 = MSB first) and concat parts
    # in direction concat_dir; the first printed part therefore lands on the
    # most significant port bits when bus_dir == -1.
    fi = repo.func(F_EXPORT, "export_concat")
    d = _parts_loop_direction(fi, fi.node.args.args[0].arg)
    if d is None:
        raise AnalysisError(f"idiom-unknown: cannot determine in which order {fi.site} walks the parts")
    need = facts["bus_dir"] * facts["concat_dir"]  # -1: parts must be emitted most-significant first
    R.check(d == need, rule, key_of(fi, "part-order"), fi.site,
            f"export_concat emits parts {'in order' if d == 1 else 'reversed'}; hdl21 Concat is LSB-first, the netlisters print buses "
            f"{'MSB' if facts['bus_dir'] == -1 else 'LSB'}-first and concat parts {'left to right' if facts['concat_dir'] == 1 else 'right to left'} "
            f"⇒ parts must be emitted {'in order' if need == 1 else 'reversed'}",
            why="Concat(x, y) on a 2-bit port netlists x on bit 1 and y on bit 0: bit i of the connection does not reach bit i of the port")
    # ... every part the same way: each exported part is the part the (one) loop over `parts` stands on, whatever its kind —
    # a part handled by a loop of its own (a nested Concat written inline) has an order of its own
    ca = fi.node.args.args[0].arg
    appends = [c for c in au.calls_in(fi.node) if isinstance(c.func, ast.Attribute) and c.func.attr in ("append", "extend", "add") and ast.unparse(c.func.value).endswith(".parts")]
    odd = []
    for c in appends:
        loops_ = [l for l in shared.enclosing_all(fi.node, c, (ast.For,))]
        outer_ = [l for l in loops_ if f"{ca}.parts" in ast.unparse(shared.prov(fi.node, l.iter))]
        if len(loops_) != 1 or len(outer_) != 1:
            odd.append(f"`{ast.unparse(c)[:50]}` under {len(loops_)} loop(s)")
        elif shared.path_conditions(fi.node, c) and any("isinstance" in ast.unparse(t) for t, _p in shared.path_conditions(fi.node, c)):
            odd.append(f"`{ast.unparse(c)[:50]}` only for some kinds of part")
    if appends:
        R.check(not odd, rule, key_of(fi, "every-part-alike"), fi.site, "export_concat writes each part once, from the one loop over the parts, whatever its kind" if not odd else f"export_concat treats some parts separately: {odd}",
                why="a nested concatenation written inline in its own (forward) order comes out part-swapped: Concat(Concat(a, b)[:], c) is exported as b, a, c")
    # --- (iii) importer mirrors (i) and (ii)
    fi2 = repo.func(F_IMPORT, "import_concat")
    d2 = _parts_loop_direction(fi2, fi2.node.args.args[0].arg)
    if d2 is None:
        raise AnalysisError(f"idiom-unknown: cannot determine in which order {fi2.site} walks the parts")
    R.check(d2 == d, rule, key_of(fi2, "part-order"), fi2.site,
            f"import_concat walks parts {'in order' if d2 == 1 else 'reversed'}, export_concat {'in order' if d == 1 else 'reversed'} (must mirror each other)",
            why="an imported package re-exports concatenations with reversed significance")
    fi3 = repo.func(F_IMPORT, "import_connection_target")
    env3 = au.local_env(fi3.node)
    sls = [c for c, _b in pat.find("Slice(parent=$P, index=slice($A, $B))", fi3.node)]
    if len(sls) != 1:
        raise AnalysisError(f"idiom-unknown: expected one Slice(parent=, index=slice(a, b)) in {fi3.site}")
    b = pat.match("Slice(parent=$P, index=slice($A, $B))", sls[0])
    lo, hi = au.expand(b["A"], env3), au.expand(b["B"], env3)
    lo_ok = [n for n in ast.walk(lo) if isinstance(n, ast.Attribute) and n.attr == "bot"] and au.poly_eq(lo, _strip_to_attr(lo, "bot"))
    hi_attr = _strip_to_attr(hi, "top")
    hi_ok = hi_attr is not None and au.poly_eq(hi, ast.BinOp(hi_attr, ast.Add(), ast.Constant(1)))
    R.check(bool(lo_ok) and hi_ok, rule, key_of(fi3, "slice"), fi3.at(sls[0]),
            f"imported slice = [{ast.unparse(lo)} : {ast.unparse(hi)}]; expected [bot : top + 1] (inverse of the exporter's inclusive top)",
            why="round trip shifts or resizes every slice")


def _strip_to_attr(e: ast.AST, attr: str) -> Optional[ast.AST]:
    for n in ast.walk(e):
        if isinstance(n, ast.Attribute) and n.attr == attr:
            return n
    return None


# --------------------------------------------------------------------------
# 3. array per-element wiring is the partition
# --------------------------------------------------------------------------


def array_partition(repo: Repo, R, rule: str):
    fi = repo.func(F_ARRAYS, "ArrayFlattener.elaborate_module")
    env = au.local_env(fi.node)
    noret = noreturn_set(repo)
    connects = [(c, b) for c, b in pat.find("$I.connect($P, $V)", fi.node)]
    sliced, broadcast = [], []
    for c, b in connects:
        v = au.expand(b["V"], env, depth=1) if isinstance(b["V"], ast.Name) else b["V"]
        conds = path_conditions(fi.node, c)
        if isinstance(v, ast.Subscript) and isinstance(v.slice, ast.Slice):
            sliced.append((c, v, conds))
        else:
            broadcast.append((c, v, conds))
    if len(sliced) != 1:
        raise AnalysisError(f"idiom-unknown: expected exactly one per-element `conn[lo:hi]` connection in {fi.site}, found {len(sliced)}")
    c, v, conds = sliced[0]
    lo, hi = v.slice.lower, v.slice.upper
    if lo is None or hi is None or v.slice.step is not None:
        R.bad(rule, key_of(fi, "slice-bounds"), fi.at(c), f"per-element slice `{ast.unparse(v)}` must have explicit lower and upper bound and unit step", "elements receive the wrong bits")
        return
    # loop variable
    loops = enclosing_all(fi.node, c, (ast.For,))
    kvar = None
    for lp in loops:
        names = [n.id for n in ast.walk(lp.target) if isinstance(n, ast.Name)]
        for nm in names:
            if nm in au.names_in(lo) or nm in au.names_in(hi):
                kvar = nm
                loop = lp
    if kvar is None:
        R.bad(rule, key_of(fi, "slice-bounds"), fi.at(c), f"per-element slice `{ast.unparse(v)}` does not depend on the element index", "every element receives the same bits of an n*w wide connection")
        return
    # the loop index must enumerate new instances from 0
    it = au.expand(loop.iter, env)
    idx_ok = bool(pat.match("enumerate($X)", it)) or bool(pat.match("range($N)", it)) or bool(pat.match("range(0, $N)", it))
    plo, phi = au.poly(lo), au.poly(hi)
    width = au._padd(phi, plo, -1)
    # the width expression on the guarding branch
    guard = None
    for t, pol in conds:
        cn = au.cmp_norm(t)
        if pol and cn and cn[0] == "eq" and ".n" in cn[1]:
            guard = (t, cn)
    # which atom is the port width?  lo must be k * W with W an atom
    w_atoms = [k for k in plo if kvar in k]
    ok_lo = len(plo) == 1 and len(w_atoms) == 1 and len(w_atoms[0]) == 2 and plo[w_atoms[0]] == 1
    W = None
    if ok_lo:
        W = [a for a in w_atoms[0] if a != kvar][0]
    ok_w = W is not None and width == {(W,): 1}
    # hi(k) == lo(k+1)
    lo_next = au.poly(_subst_name(lo, kvar, ast.BinOp(ast.Name(kvar, ast.Load()), ast.Add(), ast.Constant(1))))
    ok_next = lo_next == phi
    R.check(ok_lo and ok_w and ok_next and idx_ok, rule, key_of(fi, "slice-bounds"), fi.at(c),
            f"element k receives conn[{ast.unparse(lo)} : {ast.unparse(hi)}]; lo(0)=0 and lo = k*W: {ok_lo}; hi-lo = W = {W}: {ok_w}; hi(k) = lo(k+1): {ok_next}; k counts new instances from 0: {idx_ok}",
            why="instance k of an array does not get bits [k*w, (k+1)*w) of an n*w wide connection (overlap, gap or shift)")
    # guard: W * array.n == conn.width, with W the *port* width
    g_ok = False
    gtxt = "none"
    if guard is not None and W is not None:
        gtxt = ast.unparse(guard[0])
        g_ok = W in guard[1][1] and ".n" in guard[1][1] and ".width" in guard[1][1]
        # exact form: W*array.n - conn.width == 0
        cm = guard[0]
        if isinstance(cm, ast.Compare):
            both = au._padd(au.poly(cm.left), au.poly(cm.comparators[0]), -1)
            mons = sorted(both)
            g_ok = len(mons) == 2 and any(len(m) == 2 and W in m and any(a.endswith(".n") for a in m) for m in mons) and any(len(m) == 1 and m[0].endswith(".width") and m[0] != W for m in mons)
    R.check(g_ok, rule, key_of(fi, "per-element-guard"), fi.at(c),
            f"per-element branch guarded by `{gtxt}`; expected `<port>.width * <array>.n == <conn>.width`",
            why="per-element slicing is applied to a connection that is not exactly n*w wide")
    # broadcast branch for scalars: guarded by port.width == conn.width, connects conn itself
    b_ok = False
    for cb, vb, condsb in broadcast:
        for t, pol in condsb:
            cn = au.cmp_norm(t)
            if pol and cn and cn[0] == "eq" and W is not None and W in cn[1] and ".n" not in cn[1]:
                portname_arg = pat.match("$I.connect($P, $V)", cb)
                loopv = enclosing(fi.node, cb, (ast.For,))
                b_ok = loopv is not None and isinstance(vb, ast.Name)
    R.check(b_ok, rule, key_of(fi, "broadcast"), fi.site,
            "a connection of exactly the port's width is connected unchanged to every new instance" if b_ok else "no branch `port.width == conn.width` that connects the connection itself to every new instance",
            why="broadcast connections of an array are dropped or sliced")
    # every other width fails
    ifnode = enclosing(fi.node, c, (ast.If,))
    top_if = None
    for anc in enclosing_all(fi.node, c, (ast.If,)):
        cn = au.cmp_norm(anc.test)
        if cn and cn[0] == "eq":
            top_if = anc
    else_fails = False
    if top_if is not None:
        # walk the elif chain to the final else
        cur = top_if
        while len(cur.orelse) == 1 and isinstance(cur.orelse[0], ast.If) and au.cmp_norm(cur.orelse[0].test):
            cur = cur.orelse[0]
        else_fails = au.raises(cur.orelse, noret)
    R.check(else_fails, rule, key_of(fi, "other-widths-fail"), fi.site,
            "any width other than w or n*w reaches fail()" if else_fails else "the width dispatch has no final else that fails",
            why="an array connection of a third width is silently accepted")


class _SubstName(ast.NodeTransformer):
    def __init__(self, name, rep):
        self.name, self.rep = name, rep

    def visit_Name(self, node):
        if node.id == self.name:
            import copy as _c
            return _c.deepcopy(self.rep)
        return node


def _subst_name(e, name, rep):
    import copy as _c
    return ast.fix_missing_locations(_SubstName(name, rep).visit(_c.deepcopy(e)))


# --------------------------------------------------------------------------
# 4. bundle re-connection is member-path faithful
# --------------------------------------------------------------------------


def bundle_conn_path(repo: Repo, R, rule: str):
    fi = repo.func(F_FLATB, "BundleFlattener.replace_bundle_conn")
    params = [a.arg for a in fi.node.args.args]
    env = au.local_env(fi.node)
    hits = pat.find("$I.connect($FP.name, $F.signals[$K])", fi.node)
    if not hits:
        conns = pat.find("$I.connect(*$_)", fi.node)
        if not conns:
            raise AnalysisError(f"idiom-unknown: no connect call in {fi.site}")
        R.bad(rule, key_of(fi, "connect"), fi.at(conns[0][0]),
              f"re-connection `{ast.unparse(conns[0][0])}` is not of the form inst.connect(<flat port>.name, <conn-side scope>.signals[<path>])",
              "flattened bundle members are wired to the wrong flattened port")
        return
    for c, b in hits:
        loop = enclosing(fi.node, c, (ast.For,))
        ok = False
        detail = "connect call is not inside a loop over the port-side scope"
        if loop is not None and isinstance(loop.target, ast.Tuple) and len(loop.target.elts) == 2:
            kname, fpname = [ast.unparse(x) for x in loop.target.elts]
            it = au.expand(loop.iter, au.local_defs(fi.node))
            m = pat.match("$S.signals.items()", it)
            same_k = ast.unparse(b["K"]) == kname
            same_fp = ast.unparse(b["FP"]) == fpname
            scope_param = ast.unparse(b["F"]) in params
            port_side = m is not None and ast.unparse(m["S"]) != ast.unparse(b["F"])
            # the port-side scope must come from the cache entry of (inst.of, portname)
            src_ok = False
            if m is not None:
                s_expr = ast.unparse(m["S"])
                src_ok = "flat_bundle_ports" in s_expr
                ent = pat.find("BundlePortEntry($M, $PN)", fi.node)
                if ent:
                    mm = ent[0][1]
                    src_ok = src_ok and ast.unparse(mm["M"]).endswith(".of") and ast.unparse(mm["PN"]) in params
            ok = same_k and same_fp and scope_param and port_side and src_ok
            detail = (f"for ({kname}, {fpname}) in port-side scope: connect({ast.unparse(b['FP'])}.name, {ast.unparse(b['F'])}.signals[{ast.unparse(b['K'])}]); "
                      f"same path var: {same_k}; port name from the port-side leaf: {same_fp}; value from the connection-side scope parameter: {scope_param}; "
                      f"port-side scope looked up by (inst.of, portname): {src_ok}")
        R.check(ok, rule, key_of(fi, "connect"), fi.at(c), detail,
                why="member x of the connected bundle is wired to the flattened port of another member")
    # old bundle-level connection removed through the owner API first
    dis = pat.find("$I.disconnect($PN)", fi.node)
    R.check(bool(dis) and ast.unparse(dis[0][1]["PN"]) in params, rule, key_of(fi, "disconnect-first"), fi.site,
            "the bundle-valued connection is removed through disconnect(portname)" if dis else "the bundle-valued connection is never disconnected",
            why="the hierarchical bundle connection stays in conns next to its flattened replacements")


# --------------------------------------------------------------------------
# 5. instance-bundle scalarisation is name faithful
# --------------------------------------------------------------------------


def inst_bundle_names(repo: Repo, R, rule: str):
    fi = repo.func(F_INSTB, "InstBundleElabPass.elaborate_instance_bundle")
    env = au.local_env(fi.node)
    # the mapping signame -> new instance
    # ... built by a dict comprehension, or by the equivalent loop `for s in ..: D[s] = <value>` (temporaries of the loop body expanded)
    class _DC:  # the common view of both spellings
        pass

    cands = []
    for n in au.walk_no_nested(fi.node):
        if isinstance(n, ast.DictComp) and len(n.generators) == 1:
            d = _DC()
            d.node, d.generators, d.key, d.value = n, n.generators, n.key, n.value
            asg_ = au.parents(fi.node).get(n)
            d.mapping = asg_.targets[0].id if isinstance(asg_, ast.Assign) and isinstance(asg_.targets[0], ast.Name) else None
            cands.append(d)
        if isinstance(n, ast.For) and not n.orelse:
            stores = [st for st in n.body if isinstance(st, ast.Assign) and len(st.targets) == 1 and isinstance(st.targets[0], ast.Subscript) and isinstance(st.targets[0].value, ast.Name)]
            if len(stores) == 1 and stores[0] is n.body[-1] and all(isinstance(st, ast.Assign) and len(st.targets) == 1 and isinstance(st.targets[0], ast.Name) for st in n.body[:-1]):
                ldefs = {st.targets[0].id: st.value for st in n.body[:-1]}
                d = _DC()
                d.node = n
                d.generators = [ast.comprehension(n.target, n.iter, [], 0)]
                d.key = stores[0].targets[0].slice
                d.value = au.expand(stores[0].value, ldefs)
                d.mapping = stores[0].targets[0].value.id
                cands.append(d)
    cands = [d for d in cands if any(isinstance(x, ast.Call) and (dotted(x.func) or "").split(".")[-1] == "Instance" for x in ast.walk(d.value))]
    if len(cands) != 1:
        raise AnalysisError(f"idiom-unknown: expected one construction of the mapping signal name -> new Instance (dict comprehension or accumulation loop) in {fi.site}, found {len(cands)}")
    dc = cands[0]
    g = dc.generators[0]
    var = ast.unparse(g.target)
    it = ast.unparse(au.expand(g.iter, env))
    val = dc.value
    key_ok = ast.unparse(dc.key) == var
    iter_ok = it.endswith(".bundle.signals") or it.endswith(".bundle.signals.keys()")
    name_ok = False
    of_ok = False
    for c, b in pat.find("$S.flatname(segments=[$A, $B], *$_)", val) + pat.find("$S.flatname([$A, $B], *$_)", val):
        name_ok = ast.unparse(b["B"]) == var and ast.unparse(b["A"]).endswith(".name")
    for c, b in pat.find("Instance(of=$O, *$_)", val):
        of_ok = ast.unparse(b["O"]).endswith(".of")
    R.check(key_ok and iter_ok and name_ok and of_ok, rule, key_of(fi, "member-instances"), fi.at(dc.node),
            f"one Instance per bundle signal `{var}` in `{it}`: key is the signal name: {key_ok}; instance name joins bundle-instance name and `{var}`: {name_ok}; target is the InstanceBundle's target: {of_ok}",
            why="the p/n member instances of a Pair are created under the wrong member name, swapping their wiring")
    mapping = dc.mapping
    par = au.parents(fi.node)
    # the three connection branches
    n = 0
    for c, b in pat.find("$NI.connect($PN, _bundle_ref($C, $S))", fi.node) + pat.find("$NI.connect($PN, $C.get($S))", fi.node):
        loop = enclosing(fi.node, c, (ast.For,))
        ok = False
        if loop is not None and isinstance(loop.target, ast.Tuple) and len(loop.target.elts) == 2:
            sname, iname = [ast.unparse(x) for x in loop.target.elts]
            ok = ast.unparse(b["S"]) == sname and ast.unparse(b["NI"]) == iname and ast.unparse(loop.iter) == f"{mapping}.items()"
        n += 1
        R.check(ok, rule, key_of(fi, f"member-conn-{n}"), fi.at(c),
                f"`{ast.unparse(c)}`: member instance and member signal come from the same (name, instance) pair of `{mapping}`: {ok}",
                why="member instance p is connected to member n of the bundle (or of the anonymous bundle)")
    if n < 2:
        raise AnalysisError(f"idiom-unknown: bundle / anonymous-bundle member connections not found in {fi.site}")
    scal = [c for c, b in pat.find("$NI.connect($PN, $C)", fi.node) if isinstance(b["C"], ast.Name)]
    ok = False
    for c in scal:
        loop = enclosing(fi.node, c, (ast.For,))
        if loop is not None and ast.unparse(loop.iter) in (f"{mapping}.values()",):
            ok = True
    R.check(ok, rule, key_of(fi, "scalar-conn"), fi.site,
            "a scalar connection is connected to every member instance" if ok else "no loop connecting a scalar connection to every member instance",
            why="a shared scalar connection reaches only some member instances")
    # disconnect before reconnect
    dis = pat.find("$IB.disconnect($PN)", fi.node)
    R.check(bool(dis), rule, key_of(fi, "disconnect-first"), fi.site,
            "each connection is removed from the InstanceBundle through disconnect()" if dis else "connections are not disconnected from the InstanceBundle",
            why="the connectable keeps a back-reference to the removed InstanceBundle")


# --------------------------------------------------------------------------
# 6. no-connect replacement is private
# --------------------------------------------------------------------------


def noconn_private(repo: Repo, R, noret):
    rule = "C01.6-noconn-private-net"
    fi = repo.func(F_PORTREFS, "ResolvePortRefs.replace_noconn")
    env = au.local_env(fi.node)
    conns = pat.find("$X.connect($PN, $S)", fi.node)
    ok = len(conns) >= 1
    detail = f"{len(conns)} connect call(s) in replace_noconn"
    # one connect, or one per branch of the naming decision: each of them wires the fresh copy to the group's port
    for c, b in conns:
        sig_src = au.expand(b["S"], au.local_defs(fi.node), depth=1)
        from_copy = bool(pat.match("$SELF.copy_port($P)", sig_src))
        to_portref = ast.unparse(b["X"]).endswith("portref.inst") and ast.unparse(b["PN"]).endswith("portref.portname")
        ok = ok and from_copy and to_portref
        detail = f"`{ast.unparse(c)}`: signal comes from copy_port(port): {from_copy}; connected to the port of the group's PortRef: {to_portref}"
    # ... and no path skips it
    ok = ok and not [r_ for r_ in shared.returns_of(fi.node) if not any(shared.precedes(fi.node, c, r_) for c, _b in conns)]
    R.check(ok, rule, key_of(fi, "one-connect"), fi.site, detail,
            why="the replacement net of a no-connect is shared with something else, or the port is left on the NoConn")
    fh = repo.func(F_PORTREFS, "ResolvePortRefs.handle_noconn")
    guard = False
    for n in au.walk_no_nested(fh.node):
        if isinstance(n, ast.If):
            cn = au.cmp_norm(n.test)
            if cn and cn[0] == "le" and "len(group)" in cn[1] and au.raises(n.body, noret):
                # len(group) > 2  <=>  3 - len(group) <= 0
                guard = cn[1].replace(" ", "") in ("3+-1*len(group)", "-1*len(group)+3")
    R.check(guard, rule, key_of(fh, "cardinality-guard"), fh.site,
            "a NoConn group with more than two members (NoConn + one port) fails" if guard else "no `len(group) > 2 -> fail` guard",
            why="a no-connect that is also referenced elsewhere is accepted and its net is shared")


# --------------------------------------------------------------------------
# 8. slice / concat resolution keeps order
# --------------------------------------------------------------------------


def slice_resolution(repo: Repo, R):
    rule = "C01.8-slice-resolution-order"
    list_slice_index_maps(repo, R, rule)
    fi = repo.func(F_SLICES, "_resolve_concat")
    # every `Concat(*(A + B))` keeps first-before-rest; the rest is resolved from parts[k:]
    n = 0
    for c, b in pat.find("Concat(*($A + $B))", fi.node):
        # by provenance, not by name: the left operand is made of the head (`parts[0]` / `parts[:k]`), the right one of
        # the resolved tail (`parts[k:]`)
        a, bb = shared.prov_text(fi.node, b["A"]), shared.prov_text(fi.node, b["B"])
        head = lambda t: bool(re.search(r"\.parts\[(0|:\w+)\]", t))
        tail = lambda t: bool(re.search(r"\.parts\[\w+:\]", t))
        ok = head(a) and not tail(a) and tail(bb) and not head(bb)
        n += 1
        R.check(ok, rule, key_of(fi, f"concat-order-{n}"), fi.at(c),
                f"`{ast.unparse(c)}` concatenates the resolved head before the resolved tail: {ok}",
                why="resolving a nested concatenation reorders its parts")
    env = au.local_env(fi.node)
    # the tail: all remaining parts, in order — resolved in place, or through the helper that accepts an empty tail
    tail_fn = repo.find_func(F_SLICES, "_resolve_rest")
    tails = [(c, b["X"], False) for c, b in pat.find("_resolve_concat(Concat(*$X))", fi.node)] + ([(c, b["X"], True) for c, b in pat.find("_resolve_rest($X)", fi.node)] if tail_fn is not None else [])
    for c, x, via_helper in tails:
        ok = isinstance(x, ast.Subscript) and isinstance(x.slice, ast.Slice) and x.slice.upper is None and x.slice.step is None and x.slice.lower is not None and ast.unparse(x.value).endswith(".parts")
        # a tail that starts right after the first part is empty when that part is the last one: only the helper takes that
        may_be_empty = ok and ast.unparse(x.slice.lower) != "idx"
        n += 1
        R.check(ok and (via_helper or not may_be_empty), rule, key_of(fi, f"tail-{ast.unparse(x)}"), fi.at(c),
                f"the tail is `{ast.unparse(x)}` (all remaining parts, in order): {ok}" + ("" if via_helper or not may_be_empty else "; it is empty when the compound part comes last, and a Concat of no parts is refused"),
                why="parts are dropped or duplicated while flattening a concatenation — or a valid concatenation whose last part is itself a concatenation / nested slice is refused ('Concatenation with no parts')")
    if tail_fn is not None:
        pa = tail_fn.node.args.args[0].arg
        empty_ok = any(ast.unparse(r_.value) in ("()", "tuple()") and shared.conds_imply(shared.path_conditions(tail_fn.node, r_), [(shared.parse_cond(pa), False)]) is True for r_ in shared.returns_of(tail_fn.node) if r_.value is not None)
        rest_ok = any(ast.unparse(r_.value) == f"_resolve_concat(Concat(*{pa})).parts" for r_ in shared.returns_of(tail_fn.node) if r_.value is not None)
        n += 1
        R.check(empty_ok and rest_ok, rule, key_of(tail_fn), tail_fn.site, f"_resolve_rest: no parts -> no parts ({empty_ok}); otherwise the parts of the resolved concatenation of exactly these parts ({rest_ok})",
                why="the tail of a concatenation is dropped, or an empty tail is refused")
    # a leading slice contributes the list of its signal-level slices (a list: it is concatenated with the tail's parts)
    for c, b in pat.find("Concat(*($A + $B))", fi.node):
        a_ = shared.prov(fi.node, b["A"])
        if "Slice" in ast.unparse(b["A"]) or "_resolve_slice(" in ast.unparse(a_) or "_list_slice(" in ast.unparse(a_):
            listed = "_list_slice(" in ast.unparse(a_) and "_resolve_slice(" not in ast.unparse(a_)
            R.check(listed, rule, key_of(fi, "leading-slice-listed"), fi.at(c), f"a leading slice is expanded with _list_slice (a list of slices), not _resolve_slice (one object): {listed}",
                    why="`Concat(a, d[0:2][0:1], c)` is refused with a TypeError: a Slice object is added to a tuple")
    for c, b in pat.find("Concat(*[_resolve_sliceable($P) for $P in $C.parts])", fi.node):
        n += 1
        R.ok(rule, key_of(fi, "flat-case"), fi.at(c), "flat case maps each part in order")
    if n < 4:
        raise AnalysisError(f"idiom-unknown: {fi.site} no longer has the head/tail shape the rule knows ({n} sites)")


def _sign_of_branch(conds, atom_suffix=".step") -> Optional[int]:
    """+1 / -1 if the path conditions say `<x>.step` is positive / negative."""
    from fractions import Fraction
    for t, pol in conds:
        if not (isinstance(t, ast.Compare) and len(t.ops) == 1):
            continue
        p = au._padd(au.poly(t.left), au.poly(t.comparators[0]), -1)
        atoms = {a for mon in p for a in mon}
        if len(atoms) != 1 or not next(iter(atoms)).endswith(atom_suffix):
            continue
        if any(len(mon) > 1 for mon in p):
            continue
        atom = next(iter(atoms))

        def ev(v):
            x = p.get((), Fraction(0)) + p.get((atom,), Fraction(0)) * v
            op = type(t.ops[0])
            return {ast.Lt: x < 0, ast.LtE: x <= 0, ast.Gt: x > 0, ast.GtE: x >= 0, ast.Eq: x == 0, ast.NotEq: x != 0}.get(op)

        tp, tn = ev(1), ev(-1)
        if tp is None or tp == tn:
            continue
        return (1 if tp else -1) * (1 if pol else -1)
    return None


def branch_defs(fn: ast.AST, name: str) -> List[Tuple[ast.AST, List[Tuple[ast.AST, bool]]]]:
    out = []
    for n in au.walk_no_nested(fn):
        if isinstance(n, ast.Assign) and len(n.targets) == 1 and isinstance(n.targets[0], ast.Name) and n.targets[0].id == name:
            out.append((n.value, path_conditions(fn, n)))
    return out


def _split_ifexp(e: ast.AST, conds):
    """Split top-level conditional expressions into (expr, conds) alternatives."""
    for n in ast.walk(e):
        if isinstance(n, ast.IfExp):
            a = _replace_node(e, n, n.body)
            b = _replace_node(e, n, n.orelse)
            return _split_ifexp(a, conds + [(n.test, True)]) + _split_ifexp(b, conds + [(n.test, False)])
    return [(e, conds)]


def _replace_node(root, old, new):
    import copy as _c

    class T(ast.NodeTransformer):
        def visit(self, node):
            if node is old:
                return _c.deepcopy(new)
            return super().visit(node)

    # work on a copy that preserves identity mapping: do replacement on the original
    # tree structure via a shallow-copying transformer
    class Copy(ast.NodeTransformer):
        def generic_visit(self, node):
            if node is old:
                return _c.deepcopy(new)
            node = _c.copy(node)
            for f, v in ast.iter_fields(node):
                if isinstance(v, list):
                    setattr(node, f, [self.generic_visit(x) if isinstance(x, ast.AST) else x for x in v])
                elif isinstance(v, ast.AST):
                    setattr(node, f, self.generic_visit(v))
            return node

    return Copy().generic_visit(root)


def list_slice_index_maps(repo: Repo, R, rule: str):
    """Single-bit base case of `_list_slice`: bit j of a parent slice is
    parent.bot + j*step (step>0) / parent.top-1 + j*step (step<0); in a Concat
    parent the running offset starts at 0 and parts are walked forward; the
    first/rest recursion starts at bot (step>0) / top-1 (step<0)."""
    fi = repo.func(F_SLICES, "_list_slice")
    env = au.local_env(fi.node)
    sl = fi.node.args.args[0].arg
    why = "`s[::2][1]` resolves to s[1] instead of s[2]; with a reversed parent the bits come out in the wrong order"
    cases = []
    for c, b in pat.find("_list_slice($P[$I])", fi.node):
        conds = path_conditions(fi.node, c)
        if any(pol and ast.unparse(au.expand(t, env)) == f"isinstance({sl}.parent, Slice)" for t, pol in conds):
            cases.append((c, b, conds))
    if not cases:
        raise AnalysisError(f"idiom-unknown: nested-slice base case not found in {fi.site}")
    want = {
        1: au.poly(ast.parse(f"{sl}.parent.bot + {sl}.bot * {sl}.parent.step", mode="eval").body),
        -1: au.poly(ast.parse(f"{sl}.parent.top - 1 + {sl}.bot * {sl}.parent.step", mode="eval").body),
    }
    seen = {1: None, -1: None}
    problems = []
    for c, b, conds in cases:
        from . import shared as _sh0

        palts = _sh0.alternatives(fi.node, b["P"], list(conds))
        if not (palts and all(ast.unparse(v) == f"{sl}.parent.parent" for v, _c in palts)):
            problems.append(f"base is `{ast.unparse(b['P'])}`, expected the grand-parent `{sl}.parent.parent`")
        from . import shared as _sh

        alts = _sh.alternatives(fi.node, b["I"], list(conds))
        for e, cds in alts:
            cds = [(au.expand(t, env), pol) for t, pol in cds]
            sign = _sign_of_branch(cds)
            p = au.poly(e)
            if sign is None:
                # one formula for both directions
                if not any(any(a.endswith(".step") for a in mon) for mon in p):
                    problems.append(f"bit j of a slice of a slice is taken from parent.parent[{au.poly_str(p)}]: the parent's step is ignored")
                else:
                    problems.append(f"index `{ast.unparse(e)}` is used for both directions of the parent slice")
                continue
            if p == want[sign]:
                seen[sign] = ast.unparse(e)
            else:
                problems.append(f"for a parent slice with step {'> 0' if sign > 0 else '< 0'} bit j is taken from index `{au.poly_str(p)}`, expected `{au.poly_str(want[sign])}`")
    ok = not problems and seen[1] is not None and seen[-1] is not None
    if not problems and not ok:
        problems.append(f"index map missing for parent slices with step {'> 0' if seen[1] is None else '< 0'}")
    R.check(ok, rule, key_of(fi, "nested-slice-index-map"), fi.at(cases[0][0]),
            f"bit j of a slice of a slice: step>0 -> parent.parent[{seen[1]}], step<0 -> parent.parent[{seen[-1]}]" if ok else "; ".join(problems),
            why=why)
    # ---- first/rest recursion
    firsts = {}
    rests = {}
    from . import shared as _sh

    def _as_slice(x):
        if isinstance(x, ast.Slice):
            return x
        if isinstance(x, ast.Call) and isinstance(x.func, ast.Name) and x.func.id == "slice" and len(x.args) == 3 and not x.keywords:
            lo, hi, stp = x.args
            none = lambda v: None if isinstance(v, ast.Constant) and v.value is None else v
            return ast.Slice(none(lo), none(hi), none(stp))
        return None

    def _is_parent(n):
        alts_ = _sh.alternatives(fi.node, n.value, list(path_conditions(fi.node, n)))
        return bool(alts_) and all(ast.unparse(v) == f"{sl}.parent" for v, _c in alts_)

    unsigned: List[str] = []
    subs = [n for n in au.walk_no_nested(fi.node) if isinstance(n, ast.Subscript) and _is_parent(n) and not any(pol and "== 1" in ast.unparse(t) and "width(" in ast.unparse(t) for t, pol in path_conditions(fi.node, n))]
    for n in subs:
        for val, cds in _sh.alternatives(fi.node, n.slice, list(path_conditions(fi.node, n))):
            sg = _sign_of_branch([(au.expand(t, env), pol) for t, pol in cds])
            if sg is None:
                unsigned.append(ast.unparse(val))
                continue
            as_sl = _as_slice(val)
            if as_sl is not None:
                rests[sg] = (as_sl, cds)
            else:
                firsts[sg] = val
    if not firsts and not rests and len(unsigned) >= 2:
        # the peeling is there, but it is the same for both signs of the step
        R.check(False, rule, key_of(fi, "first-bit"), fi.site, f"the first/rest peeling (`parent[{unsigned[0]}]`, `parent[{unsigned[1]}]`) does not depend on the sign of the step: a reversed slice is walked upwards",
                why="a reversed multi-bit slice of a slice or concatenation (`Concat(a, b, c, d)[2:0:-1]`) is emitted in ascending order: widths unchanged, bit i no longer reaches port bit i")
        return
    if set(firsts) != {1, -1} or set(rests) != {1, -1}:
        raise AnalysisError(f"idiom-unknown: first/rest recursion of {fi.site} not recognised (firsts {sorted(firsts)}, rests {sorted(rests)})")
    f_ok = au.poly_eq(firsts[1], ast.parse(f"{sl}.bot", mode="eval").body) and au.poly_eq(firsts[-1], ast.parse(f"{sl}.top - 1", mode="eval").body)
    R.check(f_ok, rule, key_of(fi, "first-bit"), fi.site,
            f"first peeled bit: step>0 -> parent[{ast.unparse(firsts[1])}], step<0 -> parent[{ast.unparse(firsts[-1])}] (expected bot / top - 1; top is exclusive)",
            why="a strided or reversed slice of a slice/concat starts one bit off")
    (rp, _cp), (rn, cn) = rests[1], rests[-1]
    stepv = ast.unparse(au.expand(rp.step, env)) if rp.step is not None else None
    p_ok = rp.lower is not None and rp.upper is not None and au.poly_eq(au.expand(rp.lower, env), ast.parse(f"{sl}.bot + {sl}.step", mode="eval").body) and au.poly_eq(au.expand(rp.upper, env), ast.parse(f"{sl}.top", mode="eval").body) and stepv == f"{sl}.step"
    n_lower_ok = rn.lower is not None and au.poly_eq(au.expand(rn.lower, env), ast.parse(f"{sl}.top - 1 + {sl}.step", mode="eval").body)
    # upper: bot - 1, but never -1 (which Python reads as "last element"): None when bot == 0
    n_upper_ok = False
    upper_alts = []
    for n in subs:
        for val, cds in _sh.alternatives(fi.node, n.slice, list(path_conditions(fi.node, n))):
            as_sl = _as_slice(val)
            if as_sl is not None and _sign_of_branch([(au.expand(t, env), pol) for t, pol in cds]) == -1:
                up = as_sl.upper
                upper_alts.append((None if (up is None or (isinstance(up, ast.Constant) and up.value is None)) else up, cds))
    vals = {ast.unparse(e) if e is not None else "None" for e, _c in upper_alts}
    pos = ast.parse(f"{sl}.bot > 0", mode="eval").body
    n_upper_ok = vals == {f"{sl}.bot - 1", "None"} and all(any(au.cmp_norm(au.expand(t, env)) in (au.cmp_norm(pos),) and pol == (e is not None) for t, pol in cds) or any(au.cmp_norm(ast.UnaryOp(ast.Not(), au.expand(t, env))) == au.cmp_norm(pos) and pol == (e is None) for t, pol in cds) for e, cds in upper_alts)
    nstep = ast.unparse(au.expand(rn.step, env)) if rn.step is not None else None
    R.check(p_ok and n_lower_ok and n_upper_ok and nstep == f"{sl}.step", rule, key_of(fi, "rest-slice"), fi.site,
            f"remaining bits: step>0 -> parent[{ast.unparse(rp)}] ok={p_ok}; step<0 -> parent[{ast.unparse(rn)}] lower ok={n_lower_ok}, upper (bot-1, or None when bot == 0) ok={n_upper_ok}",
            why="peeling a strided/reversed slice drops, repeats or wraps bits (a stop of -1 means 'last element' to Python)")
    # ---- full-width shortcut needs unit step
    sc = None
    for n in au.walk_no_nested(fi.node):
        if isinstance(n, ast.If) and "width(" in ast.unparse(n.test) and pat.find("_resolve_sliceable($X.parent)", n):
            sc = n
    if sc is None:
        raise AnalysisError(f"idiom-unknown: full-width shortcut not found in {fi.site}")
    conj = sc.test.values if isinstance(sc.test, ast.BoolOp) and isinstance(sc.test.op, ast.And) else [sc.test]
    has_step1 = any(au.cmp_norm(t) == au.cmp_norm(ast.parse(f"{sl}.step == 1", mode="eval").body) for t in conj)
    has_w = any(ast.unparse(t).replace(" ", "") in (f"width({sl})==width({sl}.parent)", f"width({sl}.parent)==width({sl})") for t in conj)
    R.check(has_step1 and has_w, rule, key_of(fi, "full-width-shortcut"), fi.at(sc),
            f"a slice is replaced by its parent only if it is full width ({has_w}) and has step 1 ({has_step1})",
            why="`x[::-1]` of a slice/concat has full width but reversed order; replacing it by its parent silently un-reverses the connection")
    # concat case: offset accumulator starts at 0, walks parts forward
    acc_ok = False
    for lp in [n for n in au.walk_no_nested(fi.node) if isinstance(n, ast.For)]:
        it = ast.unparse(au.expand(lp.iter, env))
        if it.endswith(".parent.parts"):
            d = iter_direction(lp.iter, env)
            # accumulator
            aug = [n for n in ast.walk(lp) if isinstance(n, ast.AugAssign) and isinstance(n.op, ast.Add)]
            if aug and d == 1:
                acc = ast.unparse(aug[0].target)
                lc = [(ast.unparse(t), p_) for t, p_ in path_conditions(fi.node, lp)]
                init = [s for s in au.stmts(fi.node) if isinstance(s, ast.Assign) and ast.unparse(s.targets[0]) == acc and [(ast.unparse(t), p_) for t, p_ in path_conditions(fi.node, s)] == lc and s.lineno < lp.lineno]
                sub = pat.find(f"_list_slice($P[{sl}.bot - {acc}])", lp)
                ldefs = au.local_defs(fi.node)
                inc_ok = ast.unparse(au.expand(aug[0].value, ldefs)) in ("width(part)", f"width({ast.unparse(lp.target)})")
                test_ok = False
                for n in ast.walk(lp):
                    if isinstance(n, ast.If):
                        cn = au.cmp_norm(au.expand(n.test, ldefs))
                        want = au.cmp_norm(ast.parse(f"width({ast.unparse(lp.target)}) + {acc} > {sl}.bot", mode="eval").body)
                        if cn == want:
                            test_ok = True
                acc_ok = bool(init) and ast.unparse(init[0].value) == "0" and bool(sub) and inc_ok and test_ok
    R.check(acc_ok, rule, key_of(fi, "concat-offset"), fi.site,
            "bit j of a slice of a Concat: parts walked in order, running offset starts at 0, advanced by width(part), bit taken at j - offset of the first part with offset + width > j"
            if acc_ok else "the Concat base case does not walk parts forward with a zero-based running offset (or its membership test / index is off)",
            why="a bit of a sliced concatenation is taken from the wrong part or the wrong position in it")


# --------------------------------------------------------------------------
# 10. per-element work is total
# --------------------------------------------------------------------------


def _loop_total(loop: ast.For, allowed_exits=()) -> Tuple[bool, str]:
    """No break/return/continue inside the loop body (other than nested loops'
    own break/continue)."""
    for n in au.walk_no_nested(loop):
        if n is loop:
            continue
        if isinstance(n, (ast.Break, ast.Return)):
            return False, f"`{ast.unparse(n)}` at line {n.lineno} leaves the loop early"
        if isinstance(n, ast.Continue):
            return False, f"`continue` at line {n.lineno} skips elements"
    return True, ""


def _iter_is_whole(it: ast.AST, env) -> Tuple[bool, str]:
    e = au.expand(it, env)
    # list(x) / tuple(x) / x.items() / x.values() / x / enumerate(x) — not a slice of it
    while isinstance(e, ast.Call) and isinstance(e.func, ast.Name) and e.func.id in ("list", "tuple", "enumerate", "sorted") and e.args:
        e = e.args[0]
    if isinstance(e, ast.Subscript):
        return False, f"iterates a subscript/slice `{ast.unparse(e)}` of the collection"
    return True, ast.unparse(e)


def total_loops(repo: Repo, R, noret):
    rule = "C01.10-total-loops"
    table = [
        # (file, function, substring the loop's (expanded) iterable must contain, reason)
        (F_PORTREFS, "ResolvePortRefs.handle_portconn", "group_port_refs", "every PortRef of a group is resolved to the group's source"),
        (F_RRT, "update_ref_deps", "_connected_ports", "every port connected to a resolved reference is reconnected"),
        (F_RRT, "update_ref_deps", "_slices", "every slice of a resolved reference is re-parented"),
        (F_RRT, "update_ref_deps", "_concats", "every concatenation containing a resolved reference is updated"),
        (F_FLATB, "BundleFlattener.replace_bundle_conn", ".signals.items()", "every member of the flattened port is reconnected"),
        (F_FLATB, "BundleFlattener.replace_bundle_inst", "_connected_ports", "every instance port connected to the bundle is rewired"),
        (F_FLATB, "BundleFlattener.resolve_bundleref", "_connected_ports", "every instance port connected through a bundle reference is rewired"),
        (F_FLATB, "BundleFlattener.resolve_bundlerefs", "refs_to_me", "every reference handed out by a bundle instance is resolved"),
        (F_ARRAYS, "ArrayFlattener.elaborate_module", ".conns.items()", "every connection of the array is distributed"),
        (F_SLICES, "SliceResolver.elaborate_module", ".conns.items()", "every slice/concat-valued connection is resolved"),
        (F_SLICES, "SliceResolver.elaborate_module", ".instances.values()", "every instance is visited by the slice resolver"),
    ]
    for rel, qual, needle, reason in table:
        fi = repo.func(rel, qual)
        env = au.local_env(fi.node)
        loops = [lp for lp in au.walk_no_nested(fi.node) if isinstance(lp, ast.For) and needle in ast.unparse(au.expand(lp.iter, env))]
        if not loops:
            raise AnalysisError(f"anchor-vanished: loop over `{needle}` not found in {fi.site}")
        for lp in loops:
            ok1, why1 = _loop_total(lp)
            ok2, why2 = _iter_is_whole(lp.iter, env)
            R.check(ok1 and ok2, rule, key_of(fi, needle), fi.at(lp),
                    f"{reason}: loop over `{ast.unparse(lp.iter)}` covers the whole collection" if ok1 and ok2 else f"{reason}: {why1 or why2}",
                    why="an element that is skipped keeps its stale connection/parent and is exported on the wrong net")
    # while-loops that drain a container must drain it completely
    for rel, qual, cont in ((F_ARRAYS, "ArrayFlattener.elaborate_module", "instarrays"), (F_FLATB, "BundleFlattener.elaborate_module", "bundles"), (F_INSTB, "InstBundleElabPass.elaborate_module", "instbundles")):
        fi = repo.func(rel, qual)
        ws = [w for w in au.walk_no_nested(fi.node) if isinstance(w, ast.While) and ast.unparse(w.test).endswith("." + cont)]
        if not ws:
            raise AnalysisError(f"anchor-vanished: `while module.{cont}` not found in {fi.site}")
        for w in ws:
            ok, why = True, ""
            for n in au.walk_no_nested(w):
                if isinstance(n, (ast.Break, ast.Return)) and enclosing(w, n, (ast.For, ast.While)) in (None, w):
                    ok, why = False, f"`{ast.unparse(n)}` at line {n.lineno} leaves the drain loop early"
            R.check(ok, rule, key_of(fi, f"while-{cont}"), fi.at(w),
                    f"`while module.{cont}` drains the container completely" if ok else why,
                    why=f"some {cont} survive the pass that is meant to remove them")
    # find_source: more than one source fails
    fi = repo.func(F_PORTREFS, "ResolvePortRefs.find_source")
    # whatever the order of the cases: with more than one source a failure is reached (arithmetic over len(<sources>))
    srcs = [st.targets[0].id for st in au.walk_no_nested(fi.node) if isinstance(st, ast.Assign) and len(st.targets) == 1 and isinstance(st.targets[0], ast.Name) and "Source.__args__" in ast.unparse(st.value)]
    ok = bool(srcs) and shared.raises_under(fi.node, [(f"len({srcs[0]}) > 1", True)], noret)
    R.check(ok, rule, key_of(fi, "multi-source-fails"), fi.site,
            "with more than one source in the group fail() is reached" if ok else "more than one source in a group does not fail",
            why="two distinct signals shorted through port references are silently merged onto one of them")


# --------------------------------------------------------------------------
# 11. copies made for implicit nets are internal and fresh
# --------------------------------------------------------------------------


def copy_port_internal(repo: Repo, R):
    rule = "C01.11-copy-port-internal"
    fi = repo.func(F_PORTREFS, "ResolvePortRefs.copy_port")
    src = fi.node
    vis = pat.find("$S.vis = Visibility.INTERNAL", src)
    dr = pat.find("$S.direction = PortDir.NONE", src)
    cp = pat.find("copy.copy($P)", src) + pat.find("copy($P)", src) + pat.find("copy.deepcopy($P)", src)
    R.check(bool(vis) and bool(dr) and bool(cp), rule, key_of(fi, "signal"), fi.site,
            f"signal copies: fresh copy: {bool(cp)}; vis=INTERNAL: {bool(vis)}; direction=NONE: {bool(dr)}",
            why="the implicit net behind a port reference / no-connect becomes a port of the parent (or aliases the child's port object)")
    bi = pat.find("BundleInstance(of=$P.of, port=False, role=None, *$_)", src)
    R.check(bool(bi), rule, key_of(fi, "bundle"), fi.site,
            "bundle copies are new non-port, role-less instances of the same bundle type" if bi else "bundle copy is not `BundleInstance(of=port.of, port=False, role=None)`",
            why="the implicit bundle behind a port reference becomes a port of the parent or keeps a role")
    memo = [n for n in au.walk_no_nested(src) if isinstance(n, ast.Attribute) and isinstance(n.ctx, ast.Store) and isinstance(n.value, ast.Name) and n.value.id == "self"]
    R.check(not memo, rule, key_of(fi, "no-memo"), fi.site,
            "copy_port keeps no state (a new object per call)" if not memo else f"copy_port stores into self.{memo[0].attr}",
            why="two groups share one implicit signal")


# --------------------------------------------------------------------------
# 12. copies do not alias back-reference state (F14)
# --------------------------------------------------------------------------


def container_fields(repo: Repo, ci) -> List[str]:
    out = []
    for m in ci.methods.values():
        if m.name not in ("__init__", "__post_init__"):
            continue
        for n in ast.walk(m.node):
            if isinstance(n, (ast.Assign, ast.AnnAssign)):
                tgts = n.targets if isinstance(n, ast.Assign) else [n.target]
                v = n.value
                if v is None:
                    continue
                vs = ast.unparse(v)
                if vs in ("set()", "dict()", "list()", "{}", "[]", "WeakSet()"):
                    for t in tgts:
                        if isinstance(t, ast.Attribute) and isinstance(t.value, ast.Name) and t.value.id == "self":
                            out.append(t.attr)
    return out


def copy_aliasing(repo: Repo, R, rule: str):
    classes = {}
    for ci in repo.classes_in("hdl21/"):
        cf = container_fields(repo, ci)
        if cf:
            classes[ci.name] = (ci, cf)
    R.note(f"{len(classes)} container-owning classes inspected: {sorted(classes)}")
    bi, fields = classes.get("BundleInstance", (None, []))
    if bi is None:
        raise AnalysisError("anchor-vanished: BundleInstance with per-instance containers not found")
    has_copy = "__copy__" in bi.methods
    sites = []
    # copy(self) inside the class
    for m in bi.methods.values():
        for c, b in pat.find("copy(self)", m.node) + pat.find("copy.copy(self)", m.node):
            sites.append((m, c))
    # copy(x) with x annotated BundleInstance
    for fi in repo.funcs_in(F_BUNDLE):
        if fi.cls is not None:
            continue
        ann = {a.arg: ast.unparse(a.annotation) for a in fi.node.args.args if a.annotation is not None}
        for c, b in pat.find("copy($X)", fi.node) + pat.find("copy.copy($X)", fi.node):
            if isinstance(b["X"], ast.Name) and "BundleInstance" in ann.get(b["X"].id, ""):
                sites.append((fi, c))
    if not sites and not has_copy:
        R.note("no shallow copy of BundleInstance remains")
    if not sites:
        R.ok(rule, f"{F_BUNDLE}::BundleInstance", bi.site, "no copy.copy(BundleInstance) site")
    for fi, c in sites:
        ok = has_copy
        detail = (f"`{ast.unparse(c)}` copies a BundleInstance; the class owns per-instance containers {fields} and "
                  + ("defines __copy__" if has_copy else "defines no __copy__/__deepcopy__, so the copy SHARES them with the original"))
        if has_copy:
            cm = bi.methods["__copy__"]
            # __copy__ must build through the constructor (fresh containers)
            ctor = pat.find("BundleInstance(*$_)", cm.node) + pat.find("type(self)(*$_)", cm.node) + pat.find("self.__class__(*$_)", cm.node)
            ok = bool(ctor)
            if not ok:
                detail += " but __copy__ does not construct a new instance"
            else:
                init = bi.methods.get("__init__")
                fields = [a.arg for a in init.node.args.kwonlyargs] if init else []
                kws = {k.arg: ast.unparse(k.value) for k in ctor[0][0].keywords}
                wrong = [f for f in fields if kws.get(f) != f"self.{f}"]
                if wrong:
                    ok = False
                    detail += f"; __copy__ does not carry over field(s) {wrong} unchanged"
                else:
                    detail += f"; __copy__ re-constructs with every field ({', '.join(fields)}) carried over"
        R.check(ok, rule, key_of(fi, ast.unparse(c)), fi.at(c), detail,
                why="`b2 = flipped(b1)` / `b1, b2 = 2 * B()`: both objects share refs_to_me and _connected_ports, so instances wired to b1 are rewired to b2's signals")


# --------------------------------------------------------------------------
# 13. a no-connect on an instance array is private per element
# --------------------------------------------------------------------------


def noconn_array(repo: Repo, R):
    rule = "C01.13-noconn-array-width"
    fi = repo.func(F_PORTREFS, "ResolvePortRefs.replace_noconn")
    defs = au.local_defs(fi.node)
    found = None
    for n in au.walk_no_nested(fi.node):
        if isinstance(n, ast.If):
            for c in ast.walk(n.test):
                r = au.isinstance_classes(c) if isinstance(c, ast.Call) else None
                if r and "InstanceArray" in {ast.unparse(x).split(".")[-1] for x in r[1]} and ast.unparse(r[0]).endswith(".inst"):
                    found = (n, ast.unparse(r[0]))
    if found is None:
        R.bad(rule, key_of(fi), fi.site,
              "replace_noconn creates a net of the port's own width for every receiver; ArrayFlattener broadcasts a w-wide net to all n elements",
              why="`2 * Inner(a=NoConn())` puts arr_0.a and arr_1.a on one net: a no-connected port shares its net with another port")
        return
    ifn, inst = found
    ok = False
    got = "no width assignment"
    for st in ast.walk(ifn):
        if isinstance(st, ast.Assign) and len(st.targets) == 1 and isinstance(st.targets[0], ast.Attribute) and st.targets[0].attr == "width":
            p = au.poly(st.value)
            got = ast.unparse(st.value)
            mons = list(p)
            ok = len(mons) == 1 and p[mons[0]] == 1 and len(mons[0]) == 2 and f"{inst}.n" in mons[0] and any(a.endswith(".width") for a in mons[0])
    R.check(ok, rule, key_of(fi), fi.at(ifn),
            f"for an InstanceArray receiver the replacement net has width `{got}` (expected <port>.width * {inst}.n, which ArrayFlattener slices per element)",
            why="`2 * Inner(a=NoConn())` puts arr_0.a and arr_1.a on one net: a no-connected port shares its net with another port")


# --------------------------------------------------------------------------
# 14. reference resolution reconnects primary and dependants
# --------------------------------------------------------------------------


def ref_resolution(repo: Repo, R):
    rule = "C01.14-ref-resolution"
    fi = repo.func(F_PORTREFS, "resolve_portref")
    p0, p1 = [a.arg for a in fi.node.args.args[:2]]
    c1 = pat.find(f"{p0}.inst.connect({p0}.portname, {p1})", fi.node)
    c2 = pat.find(f"update_ref_deps({p0}, {p1})", fi.node)
    c3 = pat.find(f"{p0}.resolved = {p1}", fi.node)
    R.check(bool(c1) and bool(c2) and bool(c3), rule, key_of(fi), fi.site,
            f"resolve_portref: records the referent: {bool(c3)}; connects the referenced port itself to it: {bool(c1)}; updates dependants: {bool(c2)}",
            why="the instance whose port was referenced (or the ports connected to the reference) stay off the shared net")
    fu = repo.func(F_RRT, "update_ref_deps")
    r0, r1 = [a.arg for a in fu.node.args.args[:2]]
    ok1 = False
    for c, b in pat.find(f"$CP.inst.replace($CP.portname, {r1})", fu.node):
        lp = enclosing(fu.node, c, (ast.For,))
        ok1 = lp is not None and ast.unparse(lp.target) == ast.unparse(b["CP"])
    ok2 = bool(pat.find(f"$S.parent = {r1}", fu.node))
    # what is stored into <concat>.parts: the old parts, position by position, with the reference replaced by the referent
    ok3 = False
    for st in au.stmts(fu.node):
        if isinstance(st, ast.Assign) and len(st.targets) == 1 and isinstance(st.targets[0], ast.Attribute) and st.targets[0].attr == "parts":
            owner = ast.unparse(st.targets[0].value)
            for v, _c in shared_alts(fu.node, st.value, []):
                comp = v.args[0] if isinstance(v, ast.Call) and isinstance(v.func, ast.Name) and v.func.id in ("tuple", "list") and len(v.args) == 1 else v
                if isinstance(comp, (ast.ListComp, ast.GeneratorExp)) and len(comp.generators) == 1 and not comp.generators[0].ifs and isinstance(comp.generators[0].target, ast.Name):
                    pv = comp.generators[0].target.id
                    it = comp.generators[0].iter
                    while isinstance(it, ast.Call) and isinstance(it.func, ast.Name) and it.func.id in ("list", "tuple") and len(it.args) == 1:
                        it = it.args[0]
                    ok3 = ast.unparse(comp.elt) == f"{r1} if {pv} is {r0} else {pv}" and ast.unparse(it) == f"{owner}.parts"
    R.check(ok1 and ok2 and ok3, rule, key_of(fu), fu.site,
            f"update_ref_deps: each connected port replaced by the referent (same port name): {ok1}; dependent slices re-parented: {ok2}; concat parts substituted position-wise: {ok3}",
            why="ports, slices or concatenations that used the reference keep pointing at the unresolved reference or at another part")
    # whoever hands a dependent on to a new parent enters it among that parent's dependents (as `parent[..]` and Concat()
    # do when they create it): the referent may itself be a reference that resolves later, and must find them then
    handed = {}
    for attr, stores in (("_slices", [st for st in au.stmts(fu.node) if isinstance(st, ast.Assign) and ast.unparse(st.targets[0]).endswith(".parent") and ast.unparse(st.value) == r1]),
                         ("_concats", [st for st in au.stmts(fu.node) if isinstance(st, ast.Assign) and ast.unparse(st.targets[0]).endswith(".parts")])):
        okh = bool(stores)
        for st in stores:
            dep = ast.unparse(st.targets[0].value)
            lp = enclosing(fu.node, st, (ast.For,))
            regs = [c for c in au.calls_in(lp if lp is not None else fu.node) if isinstance(c.func, ast.Attribute) and c.func.attr == "add" and ast.unparse(c.func.value) == f"{r1}.{attr}" and len(c.args) == 1 and ast.unparse(c.args[0]) == dep]
            # under nothing but "the referent keeps such a record at all"
            okh = okh and any(all(ast.unparse(t) in (f"hasattr({r1}, '{attr}')",) and pol for t, pol in shared.path_conditions(fu.node, c) if (t, pol) not in shared.path_conditions(fu.node, st)) for c in regs)
        handed[attr] = okh
    R.check(all(handed.values()), rule, key_of(fu, "dependents-entered-with-the-referent"), fu.site,
            f"update_ref_deps enters every slice and concatenation it hands on among the referent's own dependents: {handed}",
            why="a slice (or concatenation) of a port reference whose port is wired to a bundle member stays on the bundle reference for ever: the design is refused with `Invalid attempt to resolve slicing`")
    # follow(): both directions
    ff = follow_function(repo)
    if ff is None:
        raise AnalysisError("anchor-vanished: the group-collecting function called from ResolvePortRefs.elaborate_module")
    fname = ff.name
    pr = ff.node.args.args[0].arg
    fwd = pat.find(f"{pr}.inst.conns.get({pr}.portname, *$_)", ff.node) or pat.find(f"{pr}.inst.conns[{pr}.portname]", ff.node)
    back = [lp for lp in au.walk_no_nested(ff.node) if isinstance(lp, ast.For) and ast.unparse(lp.iter).replace("list(", "").rstrip(")") == f"{pr}._connected_ports"]
    rec_f = bool(pat.find(f"{fname}($C, $G, *$_)", ff.node))
    rec_b = bool(back) and bool(pat.find(f"{fname}({ast.unparse(back[0].target)}, $G, *$_)", back[0])) if back else False
    addsrc = bool(pat.find("$G.add(conn)", ff.node)) or bool(pat.find("$G.add($C)", ff.node))
    R.check(bool(fwd) and rec_f and rec_b and addsrc, rule, key_of(ff), ff.site,
            f"follow: reads the port's own connection: {bool(fwd)}; recurses into it when it is a reference: {rec_f}; adds non-reference connections to the group: {addsrc}; recurses over every port connected to the reference: {rec_b}",
            why="a chain or fan of port references is split into several groups, each getting its own signal")


# --------------------------------------------------------------------------
# 15. secondary mechanisms of the same passes (added after the first build)
# --------------------------------------------------------------------------



def follow_function(repo: Repo) -> Optional[FuncInfo]:
    """The function that collects a reference group, by role: the one called with `<pending>.pop()` as its first
    argument from ResolvePortRefs.elaborate_module (a closure of it on the confirmed tree; may be a module-level function)."""
    fe = repo.func(F_PORTREFS, "ResolvePortRefs.elaborate_module")
    for c in au.calls_in(fe.node):
        if c.args and isinstance(c.args[0], ast.Call) and isinstance(c.args[0].func, ast.Attribute) and c.args[0].func.attr == "pop" and isinstance(c.func, ast.Name):
            ff = repo.find_func(F_PORTREFS, f"ResolvePortRefs.elaborate_module.<locals>.{c.func.id}") or repo.find_func(F_PORTREFS, c.func.id)
            if ff is not None:
                return ff
    return None


def secondary(repo: Repo, R, noret):
    """Secondary mechanisms of the connectivity passes.  Every clause is stated over value provenance
    (`prov`: locals replaced by what they were computed from) and path conditions of the canonical form,
    so that renames, temporaries, extracted helpers and re-arranged control flow do not matter."""
    from .shared import prov, prov_text, cond_match, calls_matching, returns_of

    rule = "C01.15-pass-plumbing"
    # (a) ResolvePortRefs looks at every instance-like kind, and at every NoConn connection
    fe = repo.func(F_PORTREFS, "ResolvePortRefs.elaborate_module")
    outer = [n for n in au.walk_no_nested(fe.node) if isinstance(n, ast.For) and "module.instances.values()" in prov_text(fe.node, n.iter)]
    kinds = {k for k in ("instances", "instarrays", "instbundles") if outer and f"module.{k}.values()" in prov_text(fe.node, outer[0].iter)}
    pr = nc = False
    if outer:
        iv = ast.unparse(outer[0].target)
        for n in ast.walk(outer[0]):
            if isinstance(n, ast.For) and ast.unparse(n.iter) == f"{iv}._refs.portrefs.values()" and pat.find(f"$S.add({ast.unparse(n.target)})", n):
                pr = True
            if isinstance(n, ast.For) and ast.unparse(n.iter) == f"{iv}.conns.items()" and isinstance(n.target, ast.Tuple) and len(n.target.elts) == 2:
                k, v = [ast.unparse(x) for x in n.target.elts]
                for c, _b in pat.find(f"$S.add(_get_connref({iv}, {k}))", n):
                    if cond_match(fe.node, c, f"isinstance({v}, NoConn)"):
                        nc = True
    R.check(kinds == {"instances", "instarrays", "instbundles"} and pr and nc, rule, key_of(fe, "collect"), fe.site,
            f"port references are collected from {sorted(kinds)} (needs instances, arrays and instance bundles): every handed-out reference ({pr}) and every NoConn connection ({nc})",
            why="port references / no-connects on arrays or instance bundles are never resolved and reach the exporter")
    wl = [n for n in au.walk_no_nested(fe.node) if isinstance(n, ast.While) and isinstance(n.test, ast.Name)]
    grp = bool(wl) and follow_function(repo) is not None and bool(pat.find(f"{follow_function(repo).name}({ast.unparse(wl[0].test)}.pop(), $G, *$_)", wl[0]))
    hg = False
    for n in au.walk_no_nested(fe.node):
        if isinstance(n, ast.For) and pat.find(f"self.handle_group(module, {ast.unparse(n.target)})", n) and enclosing(fe.node, n, (ast.If, ast.While, ast.For)) is None:
            hg = True
    R.check(grp and hg, rule, key_of(fe, "groups"), fe.site, f"groups are formed until no reference is left ({grp}) and every group is handled ({hg})", why="some reference groups are never replaced by a signal")
    fh = repo.func(F_PORTREFS, "ResolvePortRefs.handle_group")
    nocs = pat.find("self.handle_noconn(module, group)", fh.node)
    pcs = pat.find("self.handle_portconn(module, group)", fh.node)
    tst = "any((isinstance($N, NoConn) for $N in group))"
    ok = len(nocs) == 1 and len(pcs) == 1 and cond_match(fh.node, nocs[0][0], tst, True) and cond_match(fh.node, pcs[0][0], tst, False)
    R.check(ok, rule, key_of(fh), fh.site, f"a group containing a NoConn is handled as a no-connect, any other as a connection group: {ok}", why="a no-connected port is given a shared net (or vice versa)")
    fhp = repo.func(F_PORTREFS, "ResolvePortRefs.handle_portconn")
    finds = pat.find("$S = self.find_source(group)", fhp.node)
    ok = False
    if len(finds) == 1:
        sv = ast.unparse(finds[0][1]["S"])
        creates = pat.find(f"{sv} = self.create_source(module, $G)", fhp.node)
        ok = len(creates) == 1 and cond_match(fhp.node, creates[0][0], f"{sv} is None", True, use_prov=False) and pat.match("[$X for $X in group if isinstance($X, PortRef)]", prov(fhp.node, creates[0][1]["G"])) is not None
    R.check(ok, rule, key_of(fhp), fhp.site, f"an existing source is reused; a new one is created only when the group has none: {ok}", why="a group with an explicit signal gets a second, fresh net: the designer's signal is cut off")
    fcs = repo.func(F_PORTREFS, "ResolvePortRefs.create_source")
    adds = pat.find("module.add($S)", fcs.node)
    ok = False
    if len(adds) == 1:
        m = pat.match("self.copy_port(io_for_resolving($R.inst.of).get($R.portname))", prov(fcs.node, adds[0][1]["S"]))
        ok = m is not None and ast.unparse(m["R"]) == f"self.which_portref_to_name({fcs.node.args.args[2].arg})"
    R.check(ok, rule, key_of(fcs), fcs.site, f"the implicit net copies the referenced port of the naming instance's target (its width / bundle type): {ok}", why="the implicit net has another port's width")
    fwn = repo.func(F_PORTREFS, "ResolvePortRefs.which_portref_to_name")
    g = fwn.node.args.args[1].arg
    srt = any(isinstance(c.func, ast.Name) and c.func.id == "sorted" and len(c.args) == 1 and ast.unparse(c.args[0]) == g and any(k.arg == "key" and isinstance(k.value, ast.Lambda) and len(k.value.args.args) == 1 and ast.unparse(k.value.body) == f"({k.value.args.args[0].arg}.inst.name, {k.value.args.args[0].arg}.portname)" for k in c.keywords) for c in au.calls_in(fwn.node, nested=True))
    unc = [st.targets[0].id for st in au.walk_no_nested(fwn.node) if isinstance(st, ast.Assign) and len(st.targets) == 1 and isinstance(st.targets[0], ast.Name) and isinstance(st.value, (ast.ListComp, ast.GeneratorExp)) and "is None" in ast.unparse(st.value)]
    many = bool(unc) and shared.raises_under(fwn.node, [(f"len({unc[0]}) > 1", True)], noret)
    R.check(srt and many, rule, key_of(fwn), fwn.site, f"naming is deterministic (the unconnected port, else the first by (instance name, port name) — a total order on the group: {srt}); several unconnected ports fail: {many}", why="net names depend on iteration order")
    # (b) follow() distinguishes references from sources
    ff = follow_function(repo)
    ok = False
    if ff is not None and len(ff.node.args.args) >= 2:
        pv, gv = [a.arg for a in ff.node.args.args[:2]]
        rec = [c for c, b in pat.find(f"{ff.name}($C, {gv}, *$_)", ff.node) if pat.match(f"{pv}.inst.conns.get({pv}.portname)", prov(ff.node, b["C"])) is not None]
        src = [c for c, b in pat.find(f"{gv}.add($C)", ff.node) if pat.match(f"{pv}.inst.conns.get({pv}.portname)", prov(ff.node, b["C"])) is not None]
        ok = len(rec) == 1 and len(src) == 1 and cond_match(ff.node, rec[0], "isinstance($C, PortRef)", True) and cond_match(ff.node, src[0], "isinstance($C, PortRef)", False)
    R.check(ok, rule, key_of(ff, "ref-vs-source") if ff else "follow", ff.site if ff else fe.site, f"a port's connection is followed when it is a reference and recorded as (candidate) source otherwise: {ok}", why="a reference is taken for a source (or a signal is followed as if it were a reference)")
    # (b') ... and walks the back-references of a port reference only into instances the module holds
    held = False
    n_walk = 0
    if ff is not None:
        for lp in [n for n in au.walk_no_nested(ff.node) if isinstance(n, ast.For) and ast.unparse(n.iter).endswith("._connected_ports")]:
            tv = ast.unparse(lp.target)
            for c in [c for c in au.calls_in(lp) if isinstance(c.func, ast.Name) and c.func.id == ff.name]:
                n_walk += 1
                conds = {(ast.unparse(t), pol) for t, pol in shared.path_conditions(ff.node, c)}
                held = (f"{tv}.inst._parent_module is module", True) in conds or (f"module is {tv}.inst._parent_module", True) in conds
    R.check(held and n_walk == 1, rule, key_of(ff, "follow-held-instances-only") if ff else "follow", ff.site if ff else fe.site,
            f"the ports listed as connected to a reference are followed only when their instance is owned by the module being resolved: {held}",
            why="a connection made by an instance that was since replaced (same name) or consumed by `n * inst` still ties its old net into the group: a later NoConn on that port is refused as multiply-connected, or two nets merge")
    # (c) BundleRef path / root
    bp = repo.func(F_BUNDLE, "BundleRef.path")
    rets = returns_of(bp.node)
    base = [r for r in rets if ast.unparse(r.value) == "[self.attrname]" and cond_match(bp.node, r, "isinstance(self.parent, BundleInstance)", True)]
    rec = [r for r in rets if ast.unparse(prov(bp.node, r.value)) == "self.parent.path() + [self.attrname]" and not cond_match(bp.node, r, "isinstance(self.parent, BundleInstance)", True)]
    ok = len(base) == 1 and len(rec) == 1 and len(rets) == 2
    R.check(ok, rule, key_of(bp), bp.site, f"a nested bundle reference's path lists the outer member first: {ok}", why="b.sub.x resolves member `sub` of `x` (path reversed): wrong signal or failure")
    br = repo.func(F_BUNDLE, "BundleRef.root")
    rets = returns_of(br.node)
    base = [r for r in rets if ast.unparse(r.value) == "self.parent" and cond_match(br.node, r, "isinstance(self.parent, BundleInstance)", True)]
    rec = [r for r in rets if ast.unparse(prov(br.node, r.value)) == "self.parent.root()" and not cond_match(br.node, r, "isinstance(self.parent, BundleInstance)", True)]
    ok = len(base) == 1 and len(rec) == 1 and len(rets) == 2
    R.check(ok, rule, key_of(br), br.site, f"a reference's root is the outermost bundle instance: {ok}", why="references resolve against another bundle instance")
    fb = repo.func(F_BUNDLE, "_bundle_ref")
    rets = returns_of(fb.node)
    tbl = None
    for r in rets:
        m = pat.match("$T[key]", r.value)
        if m is not None and cond_match(fb.node, r, f"key in {ast.unparse(m['T'])}", True, use_prov=False):
            tbl = ast.unparse(m["T"])
    ok = False
    if tbl is not None:
        st = pat.find(f"{tbl}[key] = $V", fb.node)
        ok = len(st) == 1 and ast.unparse(prov(fb.node, st[0][1]["V"])) == "BundleRef(parent=self, attrname=key)" and not cond_match(fb.node, st[0][0], f"key in {tbl}", True, use_prov=False)
        newrets = [r for r in rets if ast.unparse(prov(fb.node, r.value)) == "BundleRef(parent=self, attrname=key)"]
        ok = ok and len(newrets) == 1 and isinstance(newrets[0].value, ast.Name)
    R.check(ok, rule, key_of(fb), fb.site, f"one BundleRef per (parent, member): reused when present, recorded when new: {ok}", why="two reference objects for one member: connections made through one are not resolved with the other")
    # (d) resolve_bundleref: root scope from the cache, path resolved in it, result recorded
    frb = repo.func(F_FLATB, "BundleFlattener.resolve_bundleref")
    bv = frb.node.args.args[1].arg
    rp = calls_matching(frb.node, f"self.resolve_path(THE_CACHE.bundle_insts.get(id({bv}.root())), Path({bv}.path()))")
    rec = [x for x, b in pat.find(f"{bv}.resolved = $V", frb.node)] + [x for x in au.walk_no_nested(frb.node) if isinstance(x, ast.Assign) and len(x.targets) == 2 and f"{bv}.resolved" in [ast.unparse(t) for t in x.targets]]
    ok = len(rp) == 1 and len(rec) == 1 and any(n is rp[0][0] for n in ast.walk(prov(frb.node, rec[0].value))) or (len(rp) == 1 and len(rec) == 1 and ast.unparse(prov(frb.node, rec[0].value)) == ast.unparse(prov(frb.node, rp[0][0])))
    upd = pat.find(f"update_ref_deps({bv}, $V)", frb.node)
    sig = len(upd) == 1 and cond_match(frb.node, upd[0][0], "isinstance($V, Signal)", True)
    R.check(ok and sig, rule, key_of(frb), frb.site, f"a bundle reference resolves its own path in the flattened scope of its own root ({ok}); a signal-valued result updates every dependant ({sig})", why="b.x resolves to another bundle's or another member's signal")
    frbs = repo.func(F_FLATB, "BundleFlattener.resolve_bundlerefs")
    calls = [ast.unparse(c) for c in au.calls_in(frbs.node) if isinstance(c.func, ast.Attribute) and c.func.attr.startswith("resolve_bundleref")]
    lv = [ast.unparse(n.target) for n in au.walk_no_nested(frbs.node) if isinstance(n, ast.For)]
    R.check(len(lv) == 1 and calls == [f"self.resolve_bundlerefs({lv[0]})", f"self.resolve_bundleref({lv[0]})"], rule, key_of(frbs), frbs.site, f"references are resolved recursively, children first: {calls}", why="nested references stay unresolved")
    frp = repo.func(F_FLATB, "BundleFlattener.resolve_path")
    loops = [n for n in au.walk_no_nested(frp.node) if isinstance(n, ast.For) and ast.unparse(n.iter) == "path.segs"]
    ok = False
    if len(loops) == 1:
        sv = ast.unparse(loops[0].target)
        s1 = pat.find(f"$NS = $NS.signals[{sv}]", loops[0])
        s2 = pat.find(f"$NS = $NS.scopes[{sv}]", loops[0])
        rets = returns_of(frp.node)
        ok = len(s1) == 1 and len(s2) == 1 and ast.unparse(s1[0][1]["NS"]) == ast.unparse(s2[0][1]["NS"]) and any(ast.unparse(r.value) == ast.unparse(s1[0][1]["NS"]) for r in rets)
    R.check(ok, rule, key_of(frp), frp.site, f"paths are resolved segment by segment, each in the scope reached so far: {ok}", why="nested paths resolve in the wrong scope")
    # (e) replace_bundle_inst: cache before reconnecting (parents and references look the scope up)
    fri = repo.func(F_FLATB, "BundleFlattener.replace_bundle_inst")
    st = pat.find("THE_CACHE.bundle_insts[id(bundle_inst)] = $F", fri.node)
    rc = pat.find("self.replace_bundle_conn(*$_)", fri.node)
    rr = pat.find("self.resolve_bundlerefs(bundle_inst)", fri.node)
    order = [id(x) for x in au.walk_no_nested(fri.node)]
    ok = bool(st) and bool(rc) and bool(rr) and order.index(id(st[0][0])) < order.index(id(rc[0][0])) and order.index(id(st[0][0])) < order.index(id(rr[0][0]))
    fl = bool(st) and ast.unparse(prov(fri.node, st[0][1]["F"])) == "self.flatten_bundle_inst(bundle_inst, path=Path([]))"
    R.check(ok and fl, rule, key_of(fri), fri.site, f"a bundle instance is flattened from its own definition ({fl}) and recorded in the cache before connections and references are rewritten ({ok})", why="references into the bundle find no (or a stale) flattened scope")
    # (f) anonymous bundles: members keep their own names; references are resolved first
    fab = repo.func(F_FLATB, "BundleFlattener.flatten_anonymous_bundle")
    lp = [n for n in au.walk_no_nested(fab.node) if isinstance(n, ast.For) and ast.unparse(n.iter).endswith("._namespace.items()") and isinstance(n.target, ast.Tuple) and len(n.target.elts) == 2]
    ok = False
    if len(lp) == 1:
        nm, at = [ast.unparse(x) for x in lp[0].target.elts]
        sigs = pat.find(f"$S.signals[Path([{nm}])] = {at}", lp[0])
        res = pat.find(f"{at} = self.resolve_bundleref({at})", lp[0])
        subs = pat.find(f"$S.add_subscope({nm}, $X)", lp[0])
        guard = [t for t, pol in path_conditions(fab.node, res[0][0]) if pol and isinstance(t, ast.Call) and au.isinstance_classes(t) is not None and ast.unparse(au.isinstance_classes(t)[0]) == at and "BundleRef" in {ast.unparse(c) for c in au.isinstance_classes(t)[1]}] if len(res) == 1 else []
        ok = len(sigs) == 1 and len(res) == 1 and len(subs) >= 2 and bool(guard)
    R.check(ok, rule, key_of(fab), fab.site, f"every member of an anonymous bundle enters the scope under its own name; references are resolved first; nested bundles become sub-scopes: {ok}", why="members of an anonymous bundle are connected to the wrong flattened port")
    fem = repo.func(F_FLATB, "BundleFlattener.elaborate_module")
    ok = False
    for n in au.walk_no_nested(fem.node):
        if isinstance(n, ast.For) and prov_text(fem.node, n.iter) == "instances_and_arrays(module)":
            iv = ast.unparse(n.target)
            for c, b in pat.find(f"self.replace_anon_bundle_conn(inst={iv}, portname=$P, anon=$A)", n):
                ok = True
    fia = repo.func(F_FLATB, "instances_and_arrays")
    rets = returns_of(fia.node)
    ok2 = len(rets) == 1 and prov_text(fia.node, rets[0].value) == "list(module.instances.values()) + list(module.instarrays.values())"
    R.check(ok and ok2, rule, key_of(fem, "anon"), fem.site, f"anonymous-bundle connections of every instance and array are replaced: {ok and ok2}", why="anonymous bundles on arrays reach the array flattener")
    # (g) arrays: bundle broadcast, target
    fa = repo.func(F_ARRAYS, "ArrayFlattener.elaborate_module")
    mk = calls_matching(fa.node, "module.add(Instance(of=self.elaborate_instance_base(array), name=$N))")
    ok = len(mk) == 1 and any(isinstance(l, (ast.For, ast.ListComp)) and ast.unparse(l.iter if isinstance(l, ast.For) else l.generators[0].iter) == "range(array.n)" for l in enclosing_loops(fa.node, mk[0][0]))
    bb = False
    for c, b in pat.find("$I.connect(portname, conn)", fa.node):
        if cond_match(fa.node, c, "isinstance(conn, BundleInstance)", True, use_prov=False) and any(isinstance(l, ast.For) and ast.unparse(l.target) == ast.unparse(b["I"]) for l in enclosing_loops(fa.node, c)):
            bb = True
    R.check(ok and bb, rule, key_of(fa, "instances"), fa.site, f"array.n new instances of the array's own target ({ok}); a bundle connection is given to every one of them ({bb})", why="the array flattens into the wrong number of instances or another target")
    # (h) slice resolver reconnects resolved value to the same port
    fsr = repo.func(F_SLICES, "SliceResolver.elaborate_module")
    ok = False
    for c, b in pat.find("$I.connect($P, $V)", fsr.node):
        iv = ast.unparse(b["I"])
        lp2 = [l for l in enclosing_loops(fsr.node, c) if isinstance(l, ast.For) and ast.unparse(l.iter) in (f"{iv}.conns.items()", f"list({iv}.conns.items())")]
        if lp2 and isinstance(lp2[0].target, ast.Tuple) and len(lp2[0].target.elts) == 2:
            k, v = [ast.unparse(x) for x in lp2[0].target.elts]
            ok = ok or (ast.unparse(b["P"]) == k and prov_text(fsr.node, b["V"]) == f"_resolve_sliceable({v})" and cond_match(fsr.node, c, f"isinstance({v}, (Slice, Concat))", True, use_prov=False))
    R.check(ok, rule, key_of(fsr), fsr.site, f"each slice/concat connection is replaced by its own resolved form on the same port: {ok}", why="a resolved slice is connected to another port")
    frs = repo.func(F_SLICES, "_resolve_slice")
    sl = frs.node.args.args[0].arg
    rets = returns_of(frs.node)
    one = [r for r in rets if prov_text(frs.node, r.value) == f"_list_slice({sl})[0]" and cond_match(frs.node, r, f"len(_list_slice({sl})) == 1", True)]
    many = [r for r in rets if prov_text(frs.node, r.value) == f"Concat(*_list_slice({sl}))"]
    ok = len(one) == 1 and len(many) == 1
    R.check(ok, rule, key_of(frs), frs.site, f"the peeled bits are re-assembled in order (one element as is, several as Concat(*ls)): {ok}", why="resolved bits are re-assembled in another order")
    R.floor(rule, 18)
