"""Typed extraction of protobuf message field accesses (writes in the exporter,
reads in the importer).  Types come from annotations (`vckt.X`, `vlsir.X`),
constructor calls, loop variables over repeated fields, and the message schema
below (generated once from the vlsir descriptors; field name -> (type, repeated, oneof))."""

from __future__ import annotations

import ast
from typing import Dict, List, Optional, Set, Tuple

from ..core import FuncInfo, Repo, dotted
from .. import au

SCHEMA = {"Package": {"domain": [9, False, None], "modules": ["Module", True, None], "ext_modules": ["ExternalModule", True, None], "desc": [9, False, None]}, "Module": {"name": [9, False, None], "ports": ["Port", True, None], "signals": ["Signal", True, None], "instances": ["Instance", True, None], "parameters": ["Param", True, None], "literals": [9, True, None]}, "ExternalModule": {"name": ["QualifiedName", False, None], "desc": [9, False, None], "ports": ["Port", True, None], "signals": ["Signal", True, None], "parameters": ["Param", True, None], "spicetype": ["SpiceType", False, None]}, "Instance": {"name": [9, False, None], "module": ["Reference", False, None], "parameters": ["Param", True, None], "connections": ["Connection", True, None]}, "Connection": {"portname": [9, False, None], "target": ["ConnectionTarget", False, None]}, "ConnectionTarget": {"sig": [9, False, "stype"], "slice": ["Slice", False, "stype"], "concat": ["Concat", False, "stype"]}, "Slice": {"signal": [9, False, None], "top": [3, False, None], "bot": [3, False, None]}, "Concat": {"parts": ["ConnectionTarget", True, None]}, "Port": {"signal": [9, False, None], "direction": ["Direction", False, None]}, "Signal": {"name": [9, False, None], "width": [3, False, None]}, "Param": {"name": [9, False, None], "value": ["ParamValue", False, None], "desc": [9, False, None]}, "ParamValue": {"bool_value": [8, False, "value"], "int64_value": [3, False, "value"], "double_value": [1, False, "value"], "string_value": [9, False, "value"], "literal": [9, False, "value"], "prefixed": ["Prefixed", False, "value"]}, "Prefixed": {"prefix": ["SIPrefix", False, None], "int64_value": [3, False, "number"], "double_value": [1, False, "number"], "string_value": [9, False, "number"]}, "QualifiedName": {"domain": [9, False, None], "name": [9, False, None]}, "Reference": {"local": [9, False, "to"], "external": ["QualifiedName", False, "to"]}}

MUTATORS = {"append", "extend", "CopyFrom", "add", "MergeFrom", "insert"}


def msg_of_annotation(a: Optional[ast.AST]) -> Set[str]:
    out: Set[str] = set()
    if a is None:
        return out
    for n in ast.walk(a):
        d = dotted(n) if isinstance(n, (ast.Attribute, ast.Name)) else None
        if d and d.split(".")[0] in ("vckt", "vlsir", "vsp") and d.split(".")[-1] in SCHEMA:
            out.add(d.split(".")[-1])
        if isinstance(n, ast.Constant) and isinstance(n.value, str):
            last = n.value.split(".")[-1]
            if n.value.split(".")[0] in ("vckt", "vlsir") and last in SCHEMA:
                out.add(last)
    return out


def msg_of_ctor(e: ast.AST) -> Optional[str]:
    if isinstance(e, ast.Call):
        d = dotted(e.func)
        if d and d.split(".")[0] in ("vckt", "vlsir") and d.split(".")[-1] in SCHEMA:
            return d.split(".")[-1]
    return None


class Access:
    def __init__(self):
        self.writes: Dict[str, Dict[str, List[str]]] = {}
        self.reads: Dict[str, Dict[str, List[str]]] = {}
        self.oneof_arms: Dict[str, Set[str]] = {}  # oneof group -> string literals compared against WhichOneof()

    def w(self, m, f, site):
        self.writes.setdefault(m, {}).setdefault(f, []).append(site)

    def r(self, m, f, site):
        self.reads.setdefault(m, {}).setdefault(f, []).append(site)


def analyse(repo: Repo, rel: str) -> Access:
    acc = Access()
    # class-level typing of self.<attr>
    self_types: Dict[Tuple[str, str], Set[str]] = {}
    for fi in repo.funcs_in(rel):
        if fi.cls is None or fi.name != "__init__":
            continue
        ann = {a.arg: msg_of_annotation(a.annotation) for a in fi.node.args.args}
        for st in ast.walk(fi.node):
            if isinstance(st, ast.Assign) and len(st.targets) == 1 and isinstance(st.targets[0], ast.Attribute) and isinstance(st.targets[0].value, ast.Name) and st.targets[0].value.id == "self":
                t: Set[str] = set()
                if isinstance(st.value, ast.Name) and st.value.id in ann:
                    t = ann[st.value.id]
                c = msg_of_ctor(st.value)
                if c:
                    t = {c}
                    for k in st.value.keywords:
                        acc.w(c, k.arg, fi.at(st))
                if t:
                    self_types[(fi.cls.name, st.targets[0].attr)] = t
    for fi in repo.funcs_in(rel):
        if ".<locals>." in fi.qual:
            continue
        _analyse_fn(repo, fi, acc, self_types)
    return acc


def _analyse_fn(repo: Repo, fi: FuncInfo, acc: Access, self_types):
    env: Dict[str, Set[str]] = {}
    a = fi.node.args
    list_env: Dict[str, Set[str]] = {}
    for p in list(a.posonlyargs) + list(a.args) + list(a.kwonlyargs):
        t = msg_of_annotation(p.annotation)
        if t:
            ann = p.annotation
            if isinstance(ann, ast.Subscript) and (dotted(ann.value) or "").split(".")[-1] in ("List", "Sequence", "Iterable", "list"):
                list_env[p.arg] = t  # a list of messages: elements are typed, the list itself is not
            else:
                env[p.arg] = t

    def type_of(e: ast.AST) -> Set[str]:
        if isinstance(e, ast.Name):
            return env.get(e.id, set())
        if isinstance(e, ast.Attribute):
            if isinstance(e.value, ast.Name) and e.value.id == "self" and fi.cls is not None:
                return self_types.get((fi.cls.name, e.attr), set())
            out: Set[str] = set()
            for bt in type_of(e.value):
                f = SCHEMA.get(bt, {}).get(e.attr)
                if f and isinstance(f[0], str) and f[0] in SCHEMA:
                    out.add(f[0])
            return out
        c = msg_of_ctor(e)
        if c:
            return {c}
        return set()

    # two passes so that aliases/loop variables defined later in text are still typed
    for _ in range(2):
        for n in au.walk_no_nested(fi.node):
            if isinstance(n, ast.Assign) and len(n.targets) == 1 and isinstance(n.targets[0], ast.Name):
                t = type_of(n.value)
                if t:
                    env[n.targets[0].id] = t
            if isinstance(n, (ast.For, ast.comprehension)) and isinstance(n.target, ast.Name):
                it = n.iter
                if isinstance(it, ast.Call) and isinstance(it.func, ast.Name) and it.func.id in ("reversed", "list", "tuple", "enumerate", "sorted") and it.args:
                    it = it.args[0]
                if isinstance(it, ast.Name) and it.id in list_env:
                    env.setdefault(n.target.id, set()).update(list_env[it.id])
                if isinstance(it, ast.Attribute):
                    for bt in type_of(it.value):
                        f = SCHEMA.get(bt, {}).get(it.attr)
                        if f and f[1] and isinstance(f[0], str) and f[0] in SCHEMA:
                            env.setdefault(n.target.id, set()).add(f[0])
    par = au.parents(fi.node)
    for n in ast.walk(fi.node):
        c = msg_of_ctor(n)
        if c:
            for k in n.keywords:
                if k.arg:
                    acc.w(c, k.arg, fi.at(n))
        if isinstance(n, ast.Attribute):
            bts = type_of(n.value)
            if not bts:
                continue
            for bt in bts:
                if n.attr not in SCHEMA.get(bt, {}):
                    continue
                p = par.get(n)
                written = isinstance(n.ctx, (ast.Store, ast.Del))
                # x.f.append(..) / x.f.CopyFrom(..)
                if isinstance(p, ast.Attribute) and p.value is n and p.attr in MUTATORS and isinstance(par.get(p), ast.Call):
                    written = True
                # x.f.g = ...  (write-through)
                q = p
                while isinstance(q, ast.Attribute) and not written:
                    if isinstance(q.ctx, (ast.Store, ast.Del)):
                        written = True
                    q = par.get(q)
                if written:
                    acc.w(bt, n.attr, fi.at(n))
                else:
                    acc.r(bt, n.attr, fi.at(n))
        # getattr(x, v) under `v in ("f", "g", ..)`: reads exactly those fields
        if isinstance(n, ast.Call) and isinstance(n.func, ast.Name) and n.func.id == "getattr" and len(n.args) >= 2 and isinstance(n.args[1], ast.Name):
            from .shared import path_conditions

            for t, pol in path_conditions(fi.node, n):
                if pol and isinstance(t, ast.Compare) and len(t.ops) == 1 and isinstance(t.ops[0], ast.In) and isinstance(t.left, ast.Name) and t.left.id == n.args[1].id and isinstance(t.comparators[0], (ast.Tuple, ast.List, ast.Set)):
                    names = [au.str_const(x) for x in t.comparators[0].elts]
                    if all(x is not None for x in names):
                        for bt in type_of(n.args[0]):
                            for nm in names:
                                if nm in SCHEMA.get(bt, {}):
                                    acc.r(bt, nm, fi.at(n))
        # WhichOneof arms: `x.WhichOneof("grp") == "arm"` or `ptype == "arm"` after `ptype = x.WhichOneof("grp")`
    which: Dict[str, str] = {}
    for n in au.walk_no_nested(fi.node):
        if isinstance(n, ast.Assign) and isinstance(n.value, ast.Call) and isinstance(n.value.func, ast.Attribute) and n.value.func.attr == "WhichOneof" and n.value.args and isinstance(n.targets[0], ast.Name):
            which[n.targets[0].id] = au.str_const(n.value.args[0]) or "?"
    for n in au.walk_no_nested(fi.node):
        if isinstance(n, ast.Compare) and len(n.ops) == 1 and isinstance(n.ops[0], ast.Eq):
            lit = au.str_const(n.comparators[0])
            if lit is None:
                continue
            grp = None
            if isinstance(n.left, ast.Name) and n.left.id in which:
                grp = which[n.left.id]
            if isinstance(n.left, ast.Call) and isinstance(n.left.func, ast.Attribute) and n.left.func.attr == "WhichOneof" and n.left.args:
                grp = au.str_const(n.left.args[0])
            if grp:
                acc.oneof_arms.setdefault(grp, set()).add(lit)
        # membership form: `ptype in ("a", "b")`
        if isinstance(n, ast.Compare) and len(n.ops) == 1 and isinstance(n.ops[0], ast.In) and isinstance(n.comparators[0], (ast.Tuple, ast.List, ast.Set)):
            names = [au.str_const(x) for x in n.comparators[0].elts]
            grp = None
            if isinstance(n.left, ast.Name) and n.left.id in which:
                grp = which[n.left.id]
            if isinstance(n.left, ast.Call) and isinstance(n.left.func, ast.Attribute) and n.left.func.attr == "WhichOneof" and n.left.args:
                grp = au.str_const(n.left.args[0])
            if grp and names and all(x is not None for x in names):
                acc.oneof_arms.setdefault(grp, set()).update(names)
