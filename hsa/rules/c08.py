"""C08 — a failed elaboration or generator call does not poison later ones.

Decided clauses (DESIGN §4 C08):
 1. pending sets hold only visits in flight (pairing on the CFG incl. exceptional exits)
 2. `done` is stored only after the body completed normally
 3. a visit that fails is recorded and the record is consulted (and re-raised) on entry
"""

from __future__ import annotations

import ast
from typing import Dict, List, Optional, Set, Tuple

from ..core import AnalysisError, FuncInfo, Repo, dotted
from ..cfg import CFG, Client, Node, default_may_raise, run as run_df, SAFE_FUNCS, SAFE_METHODS
from .. import au, pat
from .common import F_BASE, F_GENERATOR, key_of, noreturn_set

CONTAINER_SAFE = SAFE_METHODS | {"pop", "remove", "popitem", "index", "count", "insert"}


def may_raise(node: ast.AST) -> bool:
    """DESIGN §2: raise/assert, and calls other than built-in container methods
    and total built-ins."""
    if isinstance(node, (ast.Raise, ast.Assert)):
        return True
    for n in au.walk_no_nested(node):
        if isinstance(n, ast.Call):
            f = n.func
            if isinstance(f, ast.Name) and f.id in SAFE_FUNCS:
                continue
            if isinstance(f, ast.Attribute) and f.attr in CONTAINER_SAFE:
                continue
            return True
    return False


def _norm(e: ast.AST, env) -> str:
    return ast.unparse(au.expand(e, env))


def _container_root(e: ast.AST) -> ast.AST:
    """`C[:-1]`, `list(C)`, `set(C)`, `C.copy()` all test membership in (part of) C."""
    while True:
        if isinstance(e, ast.Subscript) and isinstance(e.slice, ast.Slice):
            e = e.value
        elif isinstance(e, ast.Call) and isinstance(e.func, ast.Name) and e.func.id in ("list", "tuple", "set", "frozenset", "reversed") and len(e.args) == 1:
            e = e.args[0]
        elif isinstance(e, ast.Call) and isinstance(e.func, ast.Attribute) and e.func.attr == "copy" and not e.args:
            e = e.func.value
        else:
            return e


class _Visit:
    """Facts extracted from a visit function (one that guards re-entrance with a
    pending set)."""

    def __init__(self, fi: FuncInfo):
        self.fi = fi
        self.env = au.local_env(fi.node)
        self.pending_sets: Dict[str, List[ast.Call]] = {}  # normalised set expr -> add calls
        for ins in ("$S.add($X)", "$S.append($X)"):
            for call, b in pat.find(ins, fi.node):
                s = _norm(b["S"], self.env)
                # role: the same function tests `X in S` (or in a slice / re-listing of S) and raises/fails on the true branch
                if self._has_circular_check(s, b["X"]):
                    self.pending_sets.setdefault(s, []).append(call)

    def _has_circular_check(self, s: str, x: ast.AST) -> bool:
        for n in au.walk_no_nested(self.fi.node):
            if isinstance(n, ast.If) and isinstance(n.test, ast.Compare) and len(n.test.ops) == 1 and isinstance(n.test.ops[0], ast.In):
                if _norm(_container_root(n.test.comparators[0]), self.env) == s and pat.same(n.test.left, x):
                    if au.raises(n.body, NORET):
                        return True
        return False


NORET: Set[str] = set()


class PairClient(Client):
    def __init__(self, v: _Visit, setexpr: str):
        self.v, self.s = v, setexpr

    def transfer(self, node: Node, w):
        if node.kind != "stmt" or node.ast is None:
            return [w]
        for c in au.calls_in(node.ast):
            f = c.func
            if isinstance(f, ast.Attribute) and _norm(f.value, self.v.env) == self.s:
                if f.attr in ("add", "append"):
                    w = w | {"HELD"}
                elif f.attr in ("remove", "discard", "clear", "pop"):
                    w = w - {"HELD"}
        return [w]


def _body_calls(v: _Visit) -> List[ast.Call]:
    out = []
    for p in ("self.elaborate_module($M)", "$C.gen.func($P)", "$C.func($P)"):
        for call, _b in pat.find(p, v.fi.node):
            out.append(call)
    if not out:
        # by expansion, e.g. `func = call.gen.func; func(params)`
        for call in au.calls_in(v.fi.node):
            if _norm(call.func, v.env).endswith(".gen.func"):
                out.append(call)
    return out


def _stmt_of(cfg: CFG, call: ast.AST) -> List[Node]:
    out = []
    for n in cfg.nodes:
        if n.kind in ("stmt", "test", "for", "with") and n.ast is not None:
            tgt = n.ast if n.kind == "stmt" else n.expr
            if tgt is not None and any(x is call for x in ast.walk(tgt)):
                out.append(n)
    return out


def check(repo: Repo, R) -> None:
    global NORET
    NORET = noreturn_set(repo)
    anchors = [(F_BASE, "ElabPass.elaborate_module_base"), (F_GENERATOR, "run")]
    visits: List[_Visit] = []
    for rel, qual in anchors:
        fi = repo.func(rel, qual)
        v = _Visit(fi)
        if not v.pending_sets:
            raise AnalysisError(f"anchor-vanished: no pending-set (add + circularity test) found in {fi.site}")
        visits.append(v)
    # any other function in hdl21 with the same role is analysed too
    for fi in repo.funcs_in("hdl21/"):
        if any(fi == v.fi for v in visits):
            continue
        if ".pending" not in ast.unparse(fi.node):
            continue
        v = _Visit(fi)
        if v.pending_sets:
            visits.append(v)

    for v in visits:
        fi = v.fi
        cfg = CFG(fi.node, may_raise)
        for s, adds in v.pending_sets.items():
            IN = run_df(cfg, PairClient(v, s))
            # ---- clause 1: no exit with the entry still in the set
            leaks = []
            for exit_node, label in ((cfg.raise_exit, "exceptional exit"), (cfg.exit, "normal return")):
                if any("HELD" in w for w in IN[exit_node.id]):
                    # name the offending predecessors
                    srcs = []
                    for p, lab in cfg.pred[exit_node.id]:
                        pn = cfg.nodes[p]
                        inw = IN[p]
                        if lab == "exc":
                            held = any("HELD" in w for w in inw)
                        else:
                            held = any("HELD" in w2 for w in inw for w2 in PairClient(v, s).transfer(pn, w))
                        if held:
                            srcs.append(f"line {pn.lineno}")
                    leaks.append(f"{label} reachable with the entry still in `{s}` (from {', '.join(sorted(set(srcs))) or '?'})")
            R.check(
                not leaks,
                "C08.1-pending-released-on-every-exit",
                key_of(fi, s),
                fi.at(adds[0]),
                "every path from `%s.add(..)` to any exit passes remove/discard" % s if not leaks else "; ".join(leaks),
                why="a later call on the same object reports a spurious circular-dependency error instead of the original one",
            )
        # ---- clause 2: done only after normal completion of the body
        bodies = _body_calls(v)
        if not bodies:
            raise AnalysisError(f"anchor-vanished: body call (elaborate_module / gen.func) not found in {fi.site}")
        done_stores: List[ast.AST] = []
        for st in au.stmts(fi.node):
            if isinstance(st, ast.Expr) and isinstance(st.value, ast.Call):
                c = st.value
                if isinstance(c.func, ast.Attribute) and c.func.attr == "add" and _norm(c.func.value, v.env).endswith(".done"):
                    done_stores.append(st)
            if isinstance(st, ast.Assign):
                for t in st.targets:
                    if isinstance(t, ast.Subscript) and _norm(t.value, v.env).endswith(".done"):
                        done_stores.append(st)
        if not done_stores:
            raise AnalysisError(f"anchor-vanished: no store into a `done` cache in {fi.site}")

        class DoneClient(Client):
            def transfer(self, node, w):
                if node.kind in ("stmt",) and node.ast is not None and any(any(x is b for x in ast.walk(node.ast)) for b in bodies):
                    return [w | {"BODY-DONE"}]
                return [w]

        IN2 = run_df(cfg, DoneClient())
        for st in done_stores:
            nodes = cfg.nodes_for(st)
            bad = []
            for n in nodes:
                if any("BODY-DONE" not in w for w in IN2[n.id]):
                    bad.append(n)
            R.check(
                bool(nodes) and not bad,
                "C08.2-done-only-after-body-returned",
                key_of(fi, ast.unparse(st).split("\n")[0]),
                fi.at(st),
                "the `done` store is reached only on paths on which the body call returned normally"
                if not bad
                else f"`{ast.unparse(st)}` is reachable on a path where the body call did not complete (e.g. inside finally/except)",
                why="a module/generator call whose body raised would be cached as finished and never run again",
            )

    # ---- clause 3: failure record for module visits (pass classes share one method)
    v = visits[0]
    fi = v.fi
    cfg = CFG(fi.node, may_raise)
    s = next(iter(v.pending_sets))
    adds = v.pending_sets[s]
    subj = adds[0].args[0]  # the module being visited
    # candidate records: containers F with a store `F[subj] = ..` / `F.add(subj)` other than pending/done
    records: Dict[str, List[ast.AST]] = {}
    for st in au.stmts(fi.node):
        if isinstance(st, ast.Assign):
            for t in st.targets:
                if isinstance(t, ast.Subscript) and pat.same(t.slice, subj):
                    nm = _norm(t.value, v.env)
                    if not nm.endswith(".done") and nm != s:
                        records.setdefault(nm, []).append(st)
        if isinstance(st, ast.Expr) and isinstance(st.value, ast.Call):
            c = st.value
            if isinstance(c.func, ast.Attribute) and c.func.attr == "add" and len(c.args) == 1 and pat.same(c.args[0], subj):
                nm = _norm(c.func.value, v.env)
                if not nm.endswith(".done") and nm != s:
                    records.setdefault(nm, []).append(st)
    ok3 = False
    detail = "no persistent failure record: an exceptional exit of a module visit leaves no trace that the pass consults on the next call"
    for rec, stores in records.items():
        # (a) every exceptional exit after pending.add passes a record store
        class RecClient(Client):
            def transfer(self, node, w):
                if node.kind == "stmt" and node.ast is not None:
                    if any(node.ast is a or any(x is c for x in ast.walk(node.ast)) for a in [None] for c in adds):
                        w = w | {"VISITING"}
                    if any(node.ast is st for st in stores):
                        w = w | {"RECORDED"}
                return [w]

        IN3 = run_df(cfg, RecClient())
        unrec = any(("VISITING" in w and "RECORDED" not in w) for w in IN3[cfg.raise_exit.id])
        # (b) entry consults the record before the body call and raises from it
        entry_check = None
        for n in au.walk_no_nested(fi.node):
            if isinstance(n, ast.If) and isinstance(n.test, ast.Compare) and len(n.test.ops) == 1 and isinstance(n.test.ops[0], ast.In):
                if _norm(n.test.comparators[0], v.env) == rec and pat.same(n.test.left, subj):
                    # the recorded exception object itself is raised again (same type, same message, same cause)
                    if n.body and isinstance(n.body[-1], ast.Raise) and n.body[-1].exc is not None and _norm(n.body[-1].exc, au.local_defs(fi.node)) == f"{rec}[{ast.unparse(subj)}]":
                        entry_check = n
        dominated = False
        if entry_check is not None:
            class EntryClient(Client):
                def on_edge(self, node, label, w):
                    if node.kind == "test" and node.ast is entry_check and label == "false":
                        return w | {"CHECKED"}
                    return w

            IN4 = run_df(cfg, EntryClient())
            bodies = _body_calls(v)
            bn = [n for b in bodies for n in _stmt_of(cfg, b)]
            an = [n for a in adds for n in _stmt_of(cfg, a)]
            dominated = bool(bn) and all("CHECKED" in w for n in bn + an for w in IN4[n.id])
        if not unrec and entry_check is not None and dominated:
            ok3 = True
            detail = f"every exceptional exit of the visit stores into `{rec}`; entry re-raises from `{rec}` before pending.add and before the pass body"
            break
        problems = []
        if unrec:
            problems.append(f"an exceptional exit after pending.add does not store into `{rec}`")
        if entry_check is None:
            problems.append(f"no entry test `{ast.unparse(subj)} in {rec}` that re-raises the recorded error")
        elif not dominated:
            problems.append("the record is consulted only after the pass body / pending.add can already run")
        detail = "; ".join(problems)
    R.check(
        ok3,
        "C08.3-failed-visit-recorded-and-reraised",
        key_of(fi),
        fi.site,
        detail,
        why="after a failure inside an in-place rewriting pass (arrays, bundles, instance bundles) a retry either reports a "
        "spurious error or re-runs the pass on the half-rewritten module and exports it",
    )
    # a visit releases its own entry only: emptying the whole container would release every other visit in flight
    for v in visits:
        for sname in v.pending_sets:
            wipes = [c for c in au.calls_in(v.fi.node) if isinstance(c.func, ast.Attribute) and c.func.attr == "clear" and _norm(c.func.value, v.env) == sname]
            R.check(not wipes, "C08.1-pending-released-on-every-exit", key_of(v.fi, f"{sname}::own-entry-only"), v.fi.at(wipes[0]) if wipes else v.fi.site,
                    f"the visit releases only its own entry of `{sname}` (no `.clear()`)" if not wipes else f"`{ast.unparse(wipes[0])}` empties `{sname}`: the entries of every enclosing visit still in flight are released too",
                    why="an enclosing generator call / module visit that is still running finds its own pending entry gone: its normal exit raises KeyError, or a real cycle is no longer detected")
    # the bookkeeping above lives in the base class's visit: no pass replaces it
    base = repo.cls(F_BASE, "ElabPass")
    over = []
    npass = 0
    for ci in repo.classes_in("hdl21/elab/"):
        if ci is base or base not in repo.mro(ci):
            continue
        npass += 1
        for mname in ("elaborate_module_base", "elaborate_instance_base", "elaborate", "elaborate_tops"):
            if mname in ci.methods and mname in base.methods:
                over.append(f"{ci.name}.{mname}")
    if npass < 6:
        raise AnalysisError(f"anchor-vanished: only {npass} pass classes derive from ElabPass")
    R.check(not over, "C08.3-failed-visit-recorded-and-reraised", f"{F_BASE}::ElabPass::visit-not-overridden", base.site,
            f"{npass} pass classes; none overrides the base visit (where pending / done / failed are kept)" if not over else f"{over} replace(s) the base visit: what happens in it is outside the pending / done / failed bookkeeping",
            why="a pass fails outside the bookkeeping: the module is not recorded as failed, earlier passes have it cached as done, and the next call skips every check")
    R.run(bookkeeping_under_the_same_gate, repo, R, visits)
    R.run(nothing_fails_after_done, repo, R, visits)
    R.run(failure_record_kept, repo, R, visits)
    R.run(no_shared_pass_state, repo, R)
    from . import c02
    from .shared import Retag

    R.run(c02.live_passes, repo, Retag(R, lambda r, k: "C08.4-every-call-runs-every-pass" if k.endswith("Elaborator.elaborate") else None,
                                "a repeated call on a design that an earlier call rejected skips the pass that rejected it and returns a package"))
    # a failed elaboration leaves healthy siblings between marks (flattened, not yet marked elaborated): what a later
    # parent sees of them must be decided by the mark the flattening pass itself leaves
    from . import c07 as _c07
    if not getattr(R, "_c07_attached", False):
        R.run(_c07.io_choice, repo, Retag(R, lambda r: "C08.6-interface-by-the-flattening-mark",
                                         "after a failure past bundle flattening, a later healthy design that shares a flattened-but-unmarked sub-module resolves port references against its flattened ports: a spurious `Invalid port` error for a design that does not contain the offending module"))
        # ... and that mark is left before the first bundle is taken apart: a flattening that fails half-way leaves a module
        # that says so
        R.run(_c07.snapshot, repo, Retag(R, lambda r: "C08.7-flattening-marked-before-it-starts",
                                        "a module whose bundle flattening failed half-way carries no mark of it: a later design that instantiates it is checked against its bundle-level ports and exported with the half-flattened body"))
    R.floor("C08.1-pending-released-on-every-exit", 2)
    R.floor("C08.2-done-only-after-body-returned", 2)
    R.floor("C08.3-failed-visit-recorded-and-reraised", 1)



def _done_stores(v: _Visit) -> List[ast.stmt]:
    out = []
    for st in au.stmts(v.fi.node):
        if isinstance(st, ast.Expr) and isinstance(st.value, ast.Call):
            c = st.value
            if isinstance(c.func, ast.Attribute) and c.func.attr == "add" and _norm(c.func.value, v.env).endswith(".done"):
                out.append(st)
        if isinstance(st, ast.Assign):
            for t in st.targets:
                if isinstance(t, ast.Subscript) and _norm(t.value, v.env).endswith(".done"):
                    out.append(st)
    return out


def _completion_marks(v: _Visit) -> List[ast.stmt]:
    """Stores that later calls read as "this result is finished": the `done` cache entry, and the back-reference a
    generated module carries to its call (a module that has one is taken as already named — `handed on`)."""
    out = list(_done_stores(v))
    for st in au.stmts(v.fi.node):
        if isinstance(st, ast.Assign) and len(st.targets) == 1 and isinstance(st.targets[0], ast.Attribute) and st.targets[0].attr == "_generated_by":
            out.append(st)
    return out


def nothing_fails_after_done(repo: Repo, R, visits) -> None:
    """C08.2, second half: once the result is recorded as done nothing that can raise runs before the call returns
    (otherwise the failure handler leaves the record behind and the repeated call returns the half-finished result)."""
    rule = "C08.2-done-only-after-body-returned"
    for v in visits:
        fi = v.fi
        cfg = CFG(fi.node, may_raise)
        for st in _completion_marks(v):
            start = cfg.nodes_for(st)
            seen = set()
            work = [n.id for n in start]
            risky = []
            while work:
                nid = work.pop()
                if nid in seen:
                    continue
                seen.add(nid)
                for dst, label in cfg.succ[nid]:
                    if label == "exc":
                        if nid not in [n.id for n in start]:
                            risky.append(cfg.nodes[nid])
                        continue
                    work.append(dst)
            risky = [n for n in risky if n.ast is not None]
            R.check(not risky, rule, key_of(fi, ast.unparse(st).split("\n")[0] + "::last-thing-that-can-fail"), fi.at(st),
                    f"nothing that can raise runs between `{ast.unparse(st)[:50]}` and the return" if not risky else
                    f"after `{ast.unparse(st)}` the call can still fail (line {risky[0].lineno}: `{ast.unparse(risky[0].ast).splitlines()[0][:70]}`): the record stays, the failure handler does not remove it",
                    why="a call that failed after its result was cached is answered from the cache next time: the half-finished module is returned where a fresh process raises")


_DROP_SAMPLE = "def f(self, t):\n    self.CLASS_LEVEL_CACHE.failed.pop(t, None)\n    del self.C.failed[t]\n"


def _drops(tree: ast.AST, attr: str) -> List[ast.AST]:
    out = []
    for n in ast.walk(tree):
        if isinstance(n, ast.Call) and isinstance(n.func, ast.Attribute) and n.func.attr in ("pop", "clear", "discard", "remove", "popitem") and isinstance(n.func.value, ast.Attribute) and n.func.value.attr == attr:
            out.append(n)
        if isinstance(n, ast.Delete):
            for t in n.targets:
                if isinstance(t, ast.Subscript) and isinstance(t.value, ast.Attribute) and t.value.attr == attr:
                    out.append(n)
    return out


def failure_record_kept(repo: Repo, R, visits) -> None:
    rule = "C08.3-failed-visit-recorded-and-reraised"
    if len(_drops(ast.parse(_DROP_SAMPLE), "failed")) != 2:
        raise AnalysisError("self-check failed: the record-dropped rule does not see its positive sample")
    v = visits[0]
    # the record container: `<cache>.X[subj] = e` in an exception handler of the visit
    attrs = set()
    for h in ast.walk(v.fi.node):
        if isinstance(h, ast.ExceptHandler):
            for st in ast.walk(h):
                if isinstance(st, ast.Assign) and isinstance(st.targets[0], ast.Subscript) and isinstance(st.targets[0].value, ast.Attribute):
                    attrs.add(st.targets[0].value.attr)
    if not attrs:
        raise AnalysisError(f"anchor-vanished: no failure record store in a handler of {v.fi.site}")
    drops = []
    nf = 0
    for fi in repo.funcs_in("hdl21/"):
        nf += 1
        for a in attrs:
            for d in _drops(fi.node, a):
                drops.append((fi, d))
    R.check(not drops, rule, key_of(v.fi, "record-never-dropped"), drops[0][0].at(drops[0][1]) if drops else v.fi.site,
            f"nothing in hdl21/ ({nf} functions) removes an entry of the failure record `{sorted(attrs)}`" if not drops else
            f"`{ast.unparse(drops[0][1])[:80]}` in {drops[0][0].qual} drops a failure record",
            why="the pass that failed half-way runs again on the half-rewritten module: the second call of the same design returns a different answer (or a package) instead of the original error")


def no_shared_pass_state(repo: Repo, R) -> None:
    rule = "C08.5-no-state-shared-between-calls"
    base = repo.cls(F_BASE, "ElabPass")
    n = 0
    bad = []
    for ci in repo.classes_in("hdl21/elab/"):
        if ci is not base and base not in repo.mro(ci):
            continue
        n += 1
        for st in ci.node.body:
            tg = val = None
            if isinstance(st, ast.Assign) and len(st.targets) == 1:
                tg, val = st.targets[0], st.value
            elif isinstance(st, ast.AnnAssign):
                tg, val = st.target, st.value
            if tg is None or val is None or not isinstance(tg, ast.Name) or tg.id == "CLASS_LEVEL_CACHE":
                continue
            mutable = isinstance(val, (ast.List, ast.Dict, ast.Set, ast.ListComp, ast.DictComp, ast.SetComp)) or (isinstance(val, ast.Call) and (dotted(val.func) or "").split(".")[-1] in ("list", "dict", "set", "defaultdict", "OrderedDict", "deque"))
            if mutable:
                bad.append((ci, st, tg.id))
    if n < 6:
        raise AnalysisError(f"anchor-vanished: only {n} pass classes found")
    init = base.methods.get("__init__")
    fresh = False
    if init is not None:
        for st in au.stmts(init.node):
            if isinstance(st, (ast.Assign, ast.AnnAssign)):
                tg = st.targets[0] if isinstance(st, ast.Assign) else st.target
                val = st.value
                if ast.unparse(tg) == "self.stack" and val is not None and ast.unparse(val) in ("list()", "[]"):
                    fresh = True
    R.check(not bad and fresh, rule, f"{F_BASE}::ElabPass::per-call-state", base.site if not bad else f"{bad[0][0].file.rel}:{bad[0][1].lineno} {bad[0][0].name}",
            f"{n} pass classes: the only class-level container is the done/pending/failed cache; the hierarchy stack is created per pass object in __init__: {fresh}" if not bad else
            f"`{bad[0][0].name}.{bad[0][2]}` is a container on the class: every pass object of every call shares it",
            why="a failing visit never pops its stack entries; with a shared stack they stay for the life of the process and every later error message names modules of the earlier, unrelated design")



def bookkeeping_under_the_same_gate(repo: Repo, R, visits) -> None:
    """Where entering the pending set is conditional (only cached generator calls are tracked — tracking hashes the call,
    and an un-cached call may carry un-hashable parameters), every other operation that hashes the same subject —
    release, membership test, cache lookup and store — runs under that same condition, the failure handler included."""
    rule = "C08.1-pending-released-on-every-exit"
    from . import shared as _sh

    for v in visits:
        fi = v.fi
        for s_, adds in v.pending_sets.items():
            gate = [(ast.unparse(t), pol) for t, pol in _sh.path_conditions(fi.node, adds[0]) if not (isinstance(t, ast.Compare) and isinstance(t.ops[0], (ast.In, ast.NotIn)))]
            if not gate:
                continue  # unconditional tracking (module visits): nothing to agree with
            subj = adds[0].args[0]
            ungated = []
            n_ops = 0
            for n in au.walk_no_nested(fi.node):
                hit = None
                if isinstance(n, ast.Call) and isinstance(n.func, ast.Attribute) and n.func.attr in ("add", "discard", "remove", "get", "pop", "setdefault") and n.args and pat.same(n.args[0], subj) and any(_norm(n.func.value, v.env).endswith(x) for x in (".pending", ".done")):
                    hit = n
                elif isinstance(n, ast.Compare) and len(n.ops) == 1 and isinstance(n.ops[0], (ast.In, ast.NotIn)) and pat.same(n.left, subj) and any(_norm(_container_root(n.comparators[0]), v.env).endswith(x) for x in (".pending", ".done")):
                    hit = n
                elif isinstance(n, ast.Subscript) and pat.same(n.slice, subj) and any(_norm(n.value, v.env).endswith(x) for x in (".pending", ".done")):
                    hit = n
                if hit is None:
                    continue
                n_ops += 1
                have = {(ast.unparse(t), pol) for t, pol in _sh.path_conditions(fi.node, hit)}
                if not set(gate) <= have:
                    ungated.append(hit)
            R.check(not ungated, rule, key_of(fi, f"{s_}::same-gate"), fi.at(ungated[0]) if ungated else fi.site,
                    f"{n_ops} operations hash the call; all of them run under the condition of the tracking itself ({' and '.join(('' if p_ else 'not ') + t_ for t_, p_ in gate)})" if not ungated else
                    f"`{ast.unparse(ungated[0])[:70]}` hashes the call outside `{' and '.join(t_ for t_, _p in gate)}`",
                    why="an un-cached generator call with un-hashable parameters whose body raises reports `TypeError: unhashable type` from the bookkeeping instead of the original error")
