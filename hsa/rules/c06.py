"""C06 — every exported package is closed and self-consistent.

Decided: definition-before-use ordering in the exporter, uniqueness guards and
memoisation, signals ⊇ ports from the same objects, disjoint per-kind views,
exhaustive instance-target dispatch with reader-agreeing primitive tables,
per-call exporter state, one Connection per entry of conns.  That every
connection has the width of its port etc. follows from C02's checks being live
and is not re-decided here.
"""

from __future__ import annotations

import ast
from typing import Dict, List, Optional, Set, Tuple

from ..core import AnalysisError, FuncInfo, Repo, dotted
from .. import au, pat
from .common import *  # noqa
from .common import key_of, union, isinstance_handled, noreturn_set
from . import c13, c18, shared

NEEDS_READER = True


def _top_index(fi: FuncInfo, pred) -> Optional[int]:
    for i, st in enumerate(fi.node.body):
        if pred(st):
            return i
    return None


def check(repo: Repo, R) -> None:
    rule = "C06.1-definition-before-use"
    fm = repo.func(F_EXPORT, "ProtoExporter.export_module")
    i_inst = _top_index(fm, lambda st: isinstance(st, ast.For) and ast.unparse(st.iter) == "module.instances.values()" and bool(pat.find("self.export_instance($I)", st)))
    i_app = _top_index(fm, lambda st: bool(pat.find("self.pkg.modules.append(pmod)", st)) and isinstance(st, ast.Expr))
    i_id = _top_index(fm, lambda st: bool(pat.find("self.modules_by_id[id(module)] = $M", st)))
    i_nm = _top_index(fm, lambda st: bool(pat.find("self.modules_by_name[pmod.name] = $M", st)))
    if None in (i_inst, i_app, i_id, i_nm):
        raise AnalysisError(f"idiom-unknown: instance loop / package append / cache stores not found at the top level of {fm.site}")
    R.check(i_inst < i_app, rule, key_of(fm, "children-first"), fm.site,
            f"a module is appended to the package (statement {i_app}) after all of its instances' targets were exported (statement {i_inst})",
            why="a module appears in the package before a module it instantiates: from_proto and the netlisters meet an undefined reference")
    R.check(i_inst < i_id and i_inst < i_nm, rule, key_of(fm, "cache-after-completion"), fm.site,
            f"the by-id / by-name maps are filled (statements {i_id}, {i_nm}) only after the module's own export completed", why="a recursive reference returns a half-built module")
    fi = repo.func(F_EXPORT, "ProtoExporter.export_instance")
    defs = au.local_defs(fi.node)
    ok = False
    for c, b in pat.find("pinst.module.local = $P.name", fi.node):
        src = defs.get(ast.unparse(b["P"]))
        ok = src is not None and ast.unparse(src) == "self.export_module(inst.of)"
    R.check(ok, rule, key_of(fi, "local-ref"), fi.site, f"an instance of a Module refers to the name under which that module was just exported (export_module(inst.of).name): {ok}", why="the instance names a module that is not in the package")
    ext = pat.find("self.export_external_module(call.module)", fi.node)
    nm = pat.find("pinst.module.external.name = call.module.name", fi.node)
    dm = pat.find("pinst.module.external.domain = call.module.domain or ''", fi.node)
    ok = bool(ext) and bool(nm) and bool(dm) and ext[0][0].lineno < nm[0][0].lineno
    R.check(ok, rule, key_of(fi, "external-ref"), fi.site, f"an instance of an external module first declares it in the package, then refers to it by its own (domain, name): {ok}", why="the instance refers to an external module the package does not declare")
    fe = repo.func(F_EXPORT, "ProtoExporter.export_external_module")
    memo = any(isinstance(n, ast.If) and ast.unparse(n.test) == "id(emod) in self.ext_modules" and isinstance(n.body[-1], ast.Return) for n in au.walk_no_nested(fe.node))
    app = bool(pat.find("self.pkg.ext_modules.append(pmod)", fe.node)) and bool(pat.find("self.ext_modules[id(emod)] = pmod", fe.node))
    R.check(memo and app, rule, key_of(fe), fe.site, f"each external module is declared once ({memo}) and appended to the package ({app})", why="an external module is declared twice, or never")

    # ---- 2 uniqueness
    rule = "C06.2-unique-names"
    first = [st for st in fm.node.body if not (isinstance(st, ast.Expr) and isinstance(st.value, ast.Constant))][0]
    memo = isinstance(first, ast.If) and ast.unparse(first.test) == "id(module) in self.modules_by_id" and ast.unparse(first.body[-1]) == "return self.modules_by_id[id(module)].pmod"
    R.check(memo, rule, key_of(fm, "memo"), fm.site, f"a module already exported in this call is returned, not exported again: {memo}", why="a shared sub-module is emitted twice under one name")
    fn = repo.func(F_EXPORT, "ProtoExporter.export_module_name")
    g = any(isinstance(n, ast.If) and ast.unparse(n.test) == "mname in self.modules_by_name" and au.raises(n.body) for n in au.walk_no_nested(fn.node))
    q = bool(pat.find("mname = module_qualname(module)", fn.node))
    used = bool(pat.find("pmod.name = self.export_module_name(module)", fm.node))
    R.check(g and q and used, rule, key_of(fn), fn.site, f"module names are the qualified name ({q}), refused when already taken by another module ({g}), and used as the exported name ({used})", why="two different modules share one exported name")
    mm = bool(pat.find("mapping = ModuleMapping(module, pmod)", fm.node))
    R.check(mm, rule, key_of(fm, "id-key-pinned"), fm.site, f"the id()-keyed map entry holds the module itself (its address cannot be reused during the export): {mm}", why="an id() collision returns another module's export")

    # ---- 3 signals ⊇ ports
    rule = "C06.3-signals-and-ports"
    sig_loop = [st for st in fm.node.body if isinstance(st, ast.For) and ast.unparse(st.iter) == "list(module.signals.values()) + list(module.ports.values())"]
    ok = len(sig_loop) == 1 and bool(pat.find("vckt.Signal(name=sig.name, width=sig.width)", sig_loop[0])) and bool(pat.find("pmod.signals.append($S)", sig_loop[0]))
    R.check(ok, rule, key_of(fm, "signals"), fm.site, f"the signal list is built from the module's internal signals and its ports, each with its own name and width: {ok}", why="a port has no declared signal, or a signal is declared with another width")
    port_loop = [st for st in fm.node.body if isinstance(st, ast.For) and ast.unparse(st.iter) == "module.ports.values()"]
    ok = len(port_loop) == 1 and bool(pat.find("pmod.ports.append(export_port(port))", port_loop[0]))
    fp = repo.func(F_EXPORT, "export_port")
    ok2 = bool(pat.find("pport.signal = port.name", fp.node)) and bool(pat.find("pport.direction = export_port_dir(port)", fp.node))
    R.check(ok and ok2, rule, key_of(fm, "ports"), fm.site, f"one Port per module port, in order ({ok}), naming the port's own signal and direction ({ok2})", why="a port names an undeclared signal")
    fx = repo.func(F_EXPORT, "export_external_module")
    lp = [n for n in au.walk_no_nested(fx.node) if isinstance(n, ast.For) and ast.unparse(n.iter) == "emod.port_list"]
    ok = len(lp) == 1 and bool(pat.find("vckt.Signal(name=port.name, width=port.width)", lp[0])) and bool(pat.find("pmod.ports.append(export_port(port))", lp[0])) and bool(pat.find("pmod.signals.append($S)", lp[0]))
    qn = bool(pat.find("vlsir.utils.QualifiedName(name=emod.name, domain=emod.domain)", fx.node))
    R.check(ok and qn, rule, key_of(fx), fx.site, f"external modules declare one signal and one port per entry of port_list, in order ({ok}), under their (name, domain) ({qn})", why="external module port order changes: positional netlists swap terminals")

    # ---- 4 disjoint views: eviction (shared with C18)
    class _Re:
        def __init__(s, R): s.R = R
        def __getattr__(s, k): return getattr(s.R, k)
        def check(s, cond, rule, key, site, detail, why="", nontrivial=True):
            if rule.startswith("C18.1"):
                return s.R.check(cond, "C06.4-per-kind-views-disjoint", key, site, detail, "one name is exported twice in a module (as two signals, or as signal and instance)", nontrivial)
            return cond
        def ok(s, *a, **k): pass
        def bad(s, *a, **k): pass
        def floor(s, *a, **k): pass
    c18.check(repo, _Re(R))

    # ---- 5 instance targets
    rule = "C06.5-instance-targets"
    inst = set(union(repo, F_INSTANTIABLE, "InstantiableUnion"))
    h = isinstance_handled(repo, fi, subject="inst.of")
    top = None
    for st in fi.node.body:
        if isinstance(st, ast.If) and ast.unparse(st.test) == "isinstance(inst.of, Module)":
            top = st
    falls = False
    if top is not None:
        cur = top
        while len(cur.orelse) == 1 and isinstance(cur.orelse[0], ast.If):
            cur = cur.orelse[0]
        falls = au.raises(cur.orelse)
    R.check(inst <= h and falls, rule, key_of(fi, "dispatch"), fi.site, f"export_instance dispatches over {sorted(h)} ⊇ Instantiable {sorted(inst)}; anything else raises: {falls}", why="an instance of an unhandled target kind is exported without a module reference")
    c13.ideal_primitives(repo, R, "C06.5-instance-targets")
    phys = bool(pat.find("pinst.module.external.domain = 'hdl21.primitives'", fi.node)) and bool(pat.find("pinst.module.external.name = call.prim.name", fi.node))
    ide = bool(pat.find("pinst.module.external.domain = 'vlsir.primitives'", fi.node)) and bool(pat.find("pinst.module.external.name = prim_map[call.prim.name]", fi.node))
    g = any(isinstance(n, ast.If) and ast.unparse(n.test) == "call.prim.name not in prim_map" and au.raises(n.body) for n in au.walk_no_nested(fi.node))
    R.check(phys and ide and g, rule, key_of(fi, "primitive-refs"), fi.site, f"physical primitives refer to hdl21.primitives.<name> ({phys}); ideal ones to vlsir.primitives.<mapped name> ({ide}), unknown ones raise ({g})", why="a primitive instance refers to a module no reader knows")
    conn_loop = [n for n in au.walk_no_nested(fi.node) if isinstance(n, ast.For) and ast.unparse(n.iter) == "inst.conns.items()"]
    ok = len(conn_loop) == 1 and bool(pat.find("vckt.Connection(portname=pname, target=export_connection_target(conn))", conn_loop[0])) and bool(pat.find("pinst.connections.append($C)", conn_loop[0]))
    R.check(ok, rule, key_of(fi, "connections"), fi.site, f"one Connection per entry of inst.conns, keyed by the port name: {ok}", why="a port is connected twice or not at all in the package")
    nm = bool(pat.find("vckt.Instance(name=inst.name)", fi.node))
    R.check(nm, rule, key_of(fi, "name"), fi.site, f"the instance keeps its own name: {nm}", why="instance names collide or change")
    fct = repo.func(F_EXPORT, "export_connection_target")
    s = fct.node.args.args[0].arg
    ok = bool(pat.find(f"pconn.sig = {s}.name", fct.node)) and bool(pat.find(f"pslice = export_slice({s})", fct.node)) and bool(pat.find(f"pconc = export_concat({s})", fct.node))
    R.check(ok, rule, key_of(fct), fct.site, f"connection targets name the connected signal / slice / concat itself: {ok}", why="connections name another signal")

    # ---- 6 per-call state
    rule = "C06.6-exporter-state-per-call"
    sf = repo.file(F_EXPORT)
    mut = []
    for st in sf.tree.body:
        if isinstance(st, (ast.Assign, ast.AnnAssign)) and st.value is not None:
            v = st.value
            if isinstance(v, (ast.Dict, ast.List, ast.Set)) or (isinstance(v, ast.Call) and dotted(v.func) in ("dict", "list", "set", "ProtoExporter", "vckt.Package")):
                mut.append(ast.unparse(st)[:60])
    ft = repo.func(F_EXPORT, "to_proto")
    fresh = bool(pat.find("exporter = ProtoExporter(tops=tops, domain=domain)", ft.node)) and bool(pat.find("exporter.export()", ft.node))
    init = repo.func(F_EXPORT, "ProtoExporter.__init__")
    def _assigned(target, values):
        for st in au.stmts(init.node):
            if isinstance(st, ast.Assign) and ast.unparse(st.targets[0]) == target and ast.unparse(st.value) in values:
                return True
            if isinstance(st, ast.AnnAssign) and st.value is not None and ast.unparse(st.target) == target and ast.unparse(st.value) in values:
                return True
        return False
    own = all(_assigned(f"self.{a}", ("dict()", "{}")) for a in ("modules_by_id", "modules_by_name", "ext_modules")) and _assigned("self.pkg", ("vckt.Package(domain=domain or '')",))
    R.check(not mut and fresh and own, rule, f"{F_EXPORT}::module-state", F_EXPORT, f"no module-level mutable state in the exporter ({not mut}{'' if not mut else ': ' + str(mut)}); each to_proto call builds its own ProtoExporter ({fresh}) with its own maps and package ({own})",
            why="a second to_proto call returns modules of the first one (or refuses names it has seen before)")
    c13.no_value_memo(repo, R, rule)
    fxp = repo.func(F_EXPORT, "ProtoExporter.export")
    ok = any(isinstance(n, ast.For) and ast.unparse(n.iter) == "self.tops" and bool(pat.find("self.export_module(m)", n)) for n in au.walk_no_nested(fxp.node))
    R.check(ok, rule, key_of(fxp), fxp.site, f"every top-level module is exported: {ok}", why="some tops are missing from the package")
    from . import c02, c03
    c03.slice_inner(repo, shared.Retag(R, lambda r: "C06.7-targets-stay-inside-widths" if "index-bounds" in r else None,
                                       "a connection target names a bit outside its signal (e.g. bus[w] exported as slice [w:w] of a w-bit bus)"), "C02")
    c02.live_passes(repo, shared.Retag(R, lambda r: "C06.8-post-flattening-checks-live",
                                       "the flattened design is exported without its final connection checks: instances with unconnected or mis-sized ports reach the package"))
    R.floor("C06.1-definition-before-use", 5)
    R.floor("C06.5-instance-targets", 16)
    R.floor("C06.4-per-kind-views-disjoint", 2)
