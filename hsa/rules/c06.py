"""C06 — every exported package is closed and self-consistent.

Decided: definition-before-use ordering in the exporter, uniqueness guards and
memoisation, signals ⊇ ports from the same objects, disjoint per-kind views,
exhaustive instance-target dispatch with reader-agreeing primitive tables,
per-call exporter state, one Connection per entry of conns.  That every
connection has the width of its port etc. follows from C02's checks being live
and is not re-decided here.
"""

from __future__ import annotations

import ast
import re
from typing import Dict, List, Optional, Set, Tuple

from ..core import AnalysisError, FuncInfo, Repo, dotted
from .. import au, pat
from .common import *  # noqa
from .common import key_of, union, isinstance_handled, noreturn_set
from . import c13, c18, shared

NEEDS_READER = True


def _top_index(fi: FuncInfo, pred) -> Optional[int]:
    for i, st in enumerate(fi.node.body):
        if pred(st):
            return i
    return None


def check(repo: Repo, R) -> None:
    rule = "C06.1-definition-before-use"
    fm = repo.func(F_EXPORT, "ProtoExporter.export_module")
    loops = [n for n in au.walk_no_nested(fm.node) if isinstance(n, ast.For) and ast.unparse(n.iter) == "module.instances.values()" and bool(shared.calls_matching(n, f"self.export_instance({ast.unparse(n.target)})", use_prov=False))]
    apps = pat.find("self.pkg.modules.append($PM)", fm.node)
    ids = pat.find("self.modules_by_id[id(module)] = $M", fm.node)
    nms = pat.find("self.modules_by_name[$N] = $M", fm.node)
    # a module is entered in the by-id map as *its own* export only: every entry pairs the module with the proto-module built for it here
    foreign = [c_ for c_, b_ in ids if shared.prov_text(fm.node, b_["M"], depth=1) != "ModuleMapping(module, pmod)"]
    if foreign:
        R.check(False, "C06.2-unique-names", key_of(fm, "own-export-only"), fm.at(foreign[0]), f"export_module files a module under the export of another one: `{ast.unparse(foreign[0])[:90]}`",
                why="two distinct modules from equal generator calls (cache disabled or reset, a generator reading outside state) are exported as one: instances of the second are checked and wired against the first one's ports and widths")
        ids = [(c_, b_) for c_, b_ in ids if c_ not in foreign]
    if not (len(loops) == 1 and len(apps) == 1 and len(ids) == 1 and len(nms) == 1):
        raise AnalysisError(f"idiom-unknown: instance loop / package append / cache stores not found in {fm.site}")
    i_inst, i_app, i_id, i_nm = loops[0], apps[0][0], ids[0][0], nms[0][0]
    R.check(shared.executes_before(fm.node, i_inst, i_app), rule, key_of(fm, "children-first"), fm.site,
            f"a module is appended to the package (line {i_app.lineno}) after all of its instances' targets were exported (loop at line {i_inst.lineno})",
            why="a module appears in the package before a module it instantiates: from_proto and the netlisters meet an undefined reference")
    R.check(shared.executes_before(fm.node, i_inst, i_id), rule, key_of(fm, "cache-after-completion"), fm.site,
            f"the by-id map (what a later reference to the module gets back) is filled (line {i_id.lineno}) only after the module's own export completed", why="a recursive reference returns a half-built module")
    R.check(shared.executes_before(fm.node, i_nm, i_inst), "C06.2-unique-names", key_of(fm, "name-reserved-before-children"), fm.site,
            f"the module's name is reserved (line {i_nm.lineno}) before the modules it instantiates are exported (loop at line {i_inst.lineno})",
            why="a module instantiated below another module of the same qualified name takes that name too: the package defines one name twice")
    fi = repo.func(F_EXPORT, "ProtoExporter.export_instance")
    ok = False
    for c, b in pat.find("pinst.module.local = $N", fi.node):
        ok = shared.prov_text(fi.node, b["N"]) == "self.export_module(inst.of).name"
    R.check(ok, rule, key_of(fi, "local-ref"), fi.site, f"an instance of a Module refers to the name under which that module was just exported (export_module(inst.of).name): {ok}", why="the instance names a module that is not in the package")
    ext = pat.find("self.export_external_module(inst.of.module)", fi.node)
    nm = pat.find("pinst.module.external.name = inst.of.module.name", fi.node)
    dm = pat.find("pinst.module.external.domain = inst.of.module.domain or ''", fi.node)
    ok = bool(ext) and bool(nm) and bool(dm) and shared.executes_before(fi.node, ext[0][0], nm[0][0])
    R.check(ok, rule, key_of(fi, "external-ref"), fi.site, f"an instance of an external module first declares it in the package, then refers to it by its own (domain, name): {ok}", why="the instance refers to an external module the package does not declare")
    fe = repo.func(F_EXPORT, "ProtoExporter.export_external_module")
    apps = pat.find("self.pkg.ext_modules.append($PM)", fe.node)
    recs = pat.find("self.ext_modules[id(emod)] = $PM", fe.node)
    app = len(apps) == 1 and len(recs) == 1 and ast.unparse(apps[0][1]["PM"]) == ast.unparse(recs[0][1]["PM"])
    # declared once: everything that declares runs only when id(emod) is not yet in the map
    memo = app and all(shared.presence(fe.node, x, "self.ext_modules", "id(emod)") is False for x in (apps[0][0], recs[0][0]))
    R.check(memo and app, rule, key_of(fe), fe.site, f"each external module is declared once ({memo}) and appended to the package ({app})", why="an external module is declared twice, or never")

    # ---- 2 uniqueness
    rule = "C06.2-unique-names"
    # everything that builds or registers runs only when id(module) is not in the map; the hit returns the recorded export
    hit = [r for r in shared.returns_of(fm.node) if shared.prov_text(fm.node, r.value) in ("self.modules_by_id[id(module)].pmod", "self.modules_by_id.get(id(module)).pmod") and shared.presence(fm.node, r, "self.modules_by_id", "id(module)") is True]
    memo = len(hit) == 1 and all(shared.presence(fm.node, x, "self.modules_by_id", "id(module)") is False for x in (i_app, i_id, i_nm))
    R.check(memo, rule, key_of(fm, "memo"), fm.site, f"a module already exported in this call is returned, not exported again: {memo}", why="a shared sub-module is emitted twice under one name")
    fn = repo.func(F_EXPORT, "ProtoExporter.export_module_name")
    rets = shared.returns_of(fn.node)
    q = len(rets) == 1 and shared.prov_text(fn.node, rets[0].value) == "module_qualname(module)"
    # the name is handed out only when it is known to be free; when it is taken the call raises (`in`, or `.get(..) is None`)
    g = q and shared.presence(fn.node, rets[0], "self.modules_by_name", "module_qualname(module)") is False \
        and any(shared.presence(fn.node, r_, "self.modules_by_name", "module_qualname(module)") is True for r_ in shared.raising_leaves(fn.node))
    used = any(shared.prov_text(fm.node, b["V"]) == "self.export_module_name(module)" for _c, b in pat.find("$PM.name = $V", fm.node)) and shared.prov_text(fm.node, nms[0][1]["N"]).endswith(".name") and shared.prov_text(fm.node, nms[0][1]["N"]).startswith("vckt.Module()")
    R.check(g and q and used, rule, key_of(fn), fn.site, f"module names are the qualified name ({q}), refused when already taken by another module ({g}), and used as the exported name ({used})", why="two different modules share one exported name")
    mm = shared.prov_text(fm.node, ids[0][1]["M"], depth=1) == "ModuleMapping(module, pmod)" and shared.prov_text(fm.node, nms[0][1]["M"], depth=1) == "ModuleMapping(module, pmod)"
    R.check(mm, rule, key_of(fm, "id-key-pinned"), fm.site, f"the id()-keyed map entry holds the module itself (its address cannot be reused during the export): {mm}", why="an id() collision returns another module's export")

    # ---- 3 signals ⊇ ports
    rule = "C06.3-signals-and-ports"
    # every `pmod.signals.append(Signal(name=x.name, width=x.width))` runs in a loop over the module's own views; the
    # sources, in program order, are: the internal signals, then the ports (one loop over the concatenation, or two loops)
    srcs = []
    shape = True
    for lp in [st for st in au.walk_no_nested(fm.node) if isinstance(st, ast.For)]:
        if not isinstance(lp.target, ast.Name):
            continue
        apps = shared.calls_matching(lp, "pmod.signals.append($V)")
        if not apps:
            continue
        x = lp.target.id
        if not shared.calls_matching(lp, f"pmod.signals.append(vckt.Signal(name={x}.name, width={x}.width))") or shared.path_conditions(lp, apps[0][0]):
            shape = False
        it = shared.prov_text(fm.node, lp.iter)
        parts = [p_.strip() for p_ in it.split(" + ")]
        for p_ in parts:
            m_ = re.fullmatch(r"(?:list\()?module\.(\w+)\.values\(\)\)?", p_)
            srcs.append(m_.group(1) if m_ else p_)
    ok = shape and srcs == ["signals", "ports"]
    R.check(ok, rule, key_of(fm, "signals"), fm.site, f"the signal list is built from the module's internal signals and its ports, each with its own name and width: {ok}", why="a port has no declared signal, or a signal is declared with another width")
    port_loop = [st for st in au.walk_no_nested(fm.node) if isinstance(st, ast.For) and shared.calls_matching(st, "pmod.ports.append($V)")]
    port_loop = [st for st in port_loop if shared.prov_text(fm.node, st.iter) in ("module.ports.values()", "list(module.ports.values())")] if len(port_loop) == 1 else []
    ok = len(port_loop) == 1 and isinstance(port_loop[0].target, ast.Name) and bool(shared.calls_matching(port_loop[0], f"pmod.ports.append(export_port({port_loop[0].target.id}))"))
    fp = repo.func(F_EXPORT, "export_port")
    ok2 = (bool(pat.find("$P.signal = port.name", fp.node)) and bool(pat.find("$P.direction = export_port_dir(port)", fp.node))) or bool(shared.calls_matching(fp.node, "vckt.Port(signal=port.name, direction=export_port_dir(port))"))
    R.check(ok and ok2, rule, key_of(fm, "ports"), fm.site, f"one Port per module port, in order ({ok}), naming the port's own signal and direction ({ok2})", why="a port names an undeclared signal")
    fx = repo.func(F_EXPORT, "export_external_module")
    lp = [n for n in au.walk_no_nested(fx.node) if isinstance(n, ast.For) and ast.unparse(n.iter) == "emod.port_list"]
    ok = len(lp) == 1 and isinstance(lp[0].target, ast.Name) and bool(shared.calls_matching(lp[0], f"pmod.signals.append(vckt.Signal(name={lp[0].target.id}.name, width={lp[0].target.id}.width))")) and bool(shared.calls_matching(lp[0], f"pmod.ports.append(export_port({lp[0].target.id}))"))
    qn = bool(pat.find("vlsir.utils.QualifiedName(name=emod.name, domain=emod.domain)", fx.node))
    R.check(ok and qn, rule, key_of(fx), fx.site, f"external modules declare one signal and one port per entry of port_list, in order ({ok}), under their (name, domain) ({qn})", why="external module port order changes: positional netlists swap terminals")

    # ---- 4 disjoint views: eviction (shared with C18)
    class _Re:
        def __init__(s, R): s.R = R
        def __getattr__(s, k): return getattr(s.R, k)
        def check(s, cond, rule, key, site, detail, why="", nontrivial=True):
            if rule.startswith("C18.1"):
                return s.R.check(cond, "C06.4-per-kind-views-disjoint", key, site, detail, "one name is exported twice in a module (as two signals, or as signal and instance)", nontrivial)
            return cond
        def ok(s, *a, **k): pass
        def bad(s, *a, **k): pass
        def floor(s, *a, **k): pass
    R.run(c18.check, repo, _Re(R))

    # ---- 5 instance targets
    rule = "C06.5-instance-targets"
    inst = set(union(repo, F_INSTANTIABLE, "InstantiableUnion"))
    h = isinstance_handled(repo, fi, subject="inst.of")
    # whatever the shape of the dispatch: with a target that is none of the instantiable kinds, a raise is reached — and
    # nothing is written to the instance's module reference
    universe = {k.split(".")[-1] for k in inst}
    falls = any(shared.admissible_kinds(fi.node, r_, "inst.of", universe) == {"<other>"} for r_ in shared.raising_leaves(fi.node))
    for st_ in au.walk_no_nested(fi.node):
        if isinstance(st_, ast.Assign) and ast.unparse(st_.targets[0]).startswith("pinst.module.") and "<other>" in shared.admissible_kinds(fi.node, st_, "inst.of", universe):
            falls = False
    R.check(inst <= h and falls, rule, key_of(fi, "dispatch"), fi.site, f"export_instance dispatches over {sorted(h)} ⊇ Instantiable {sorted(inst)}; anything else raises: {falls}", why="an instance of an unhandled target kind is exported without a module reference")
    R.run(c13.ideal_primitives, repo, R, "C06.5-instance-targets")
    PHYS, IDEAL = "inst.of.prim.primtype == PrimitiveType.PHYSICAL", "inst.of.prim.primtype == PrimitiveType.IDEAL"
    phys = any(shared.cond_match(fi.node, c, PHYS, True, use_prov=False) for c, _b in pat.find("pinst.module.external.domain = 'hdl21.primitives'", fi.node)) and any(shared.cond_match(fi.node, c, PHYS, True, use_prov=False) for c, _b in pat.find("pinst.module.external.name = inst.of.prim.name", fi.node))
    mapped = [(c, b) for c, b in pat.find("pinst.module.external.name = $D[inst.of.prim.name]", fi.node) if shared.cond_match(fi.node, c, IDEAL, True, use_prov=False)]
    ide = any(shared.cond_match(fi.node, c, IDEAL, True, use_prov=False) for c, _b in pat.find("pinst.module.external.domain = 'vlsir.primitives'", fi.node)) and len(mapped) == 1
    # the lookup happens only for names the table has; the other case raises
    def _same_keys(test):
        # `name in <the table>`, or `name in (<exactly the table's keys>)`
        if not (isinstance(test, ast.Compare) and len(test.ops) == 1 and isinstance(test.ops[0], ast.In) and ast.unparse(test.left) == "inst.of.prim.name"):
            return False
        D = mapped[0][1]["D"]
        c_ = test.comparators[0]
        if ast.unparse(c_) == ast.unparse(D):
            return True
        Dv = shared.prov(fi.node, D)
        return isinstance(Dv, ast.Dict) and isinstance(c_, (ast.Tuple, ast.List, ast.Set)) and [ast.unparse(k) for k in Dv.keys] == [ast.unparse(e) for e in c_.elts]
    g = ide and any(isinstance(n, ast.If) and _same_keys(n.test) and au.raises(n.orelse) and any(t is n.test and pol for t, pol in shared.path_conditions(fi.node, mapped[0][0])) for n in au.walk_no_nested(fi.node))
    R.check(phys and ide and g, rule, key_of(fi, "primitive-refs"), fi.site, f"physical primitives refer to hdl21.primitives.<name> ({phys}); ideal ones to vlsir.primitives.<mapped name> ({ide}), unknown ones raise ({g})", why="a primitive instance refers to a module no reader knows")
    conn_loop = [n for n in au.walk_no_nested(fi.node) if isinstance(n, ast.For) and ast.unparse(n.iter) == "inst.conns.items()"]
    ok = len(conn_loop) == 1 and isinstance(conn_loop[0].target, ast.Tuple) and len(conn_loop[0].target.elts) == 2 and bool(shared.calls_matching(conn_loop[0], "pinst.connections.append(vckt.Connection(portname={}, target=export_connection_target({})))".format(*[ast.unparse(x) for x in conn_loop[0].target.elts])))
    R.check(ok, rule, key_of(fi, "connections"), fi.site, f"one Connection per entry of inst.conns, keyed by the port name: {ok}", why="a port is connected twice or not at all in the package")
    rets = shared.returns_of(fi.node)
    nm = bool(rets) and all(shared.prov_text(fi.node, r.value, depth=1) == "vckt.Instance(name=inst.name)" for r in rets)
    R.check(nm, rule, key_of(fi, "name"), fi.site, f"the instance keeps its own name: {nm}", why="instance names collide or change")
    fct = repo.func(F_EXPORT, "export_connection_target")
    s = fct.node.args.args[0].arg
    def _under(c, kind):
        return shared.admissible_kinds(fct.node, c, s, {"Signal", "Slice", "Concat"}) == {kind}
    ok = (any(_under(c, "Signal") for c, _b in pat.find(f"$P.sig = {s}.name", fct.node)) and any(_under(c, "Slice") for c, _b in pat.find(f"$P.slice.CopyFrom(export_slice({s}))", fct.node))
          and any(_under(c, "Concat") for c, _b in pat.find(f"$P.concat.CopyFrom(export_concat({s}))", fct.node)))
    R.check(ok, rule, key_of(fct), fct.site, f"connection targets name the connected signal / slice / concat itself: {ok}", why="connections name another signal")

    # the ports an instance is checked against (`.ports`) and the ports the package declares for its target (`.port_list`)
    # are one list: the name-keyed view is built from the live field whenever it is asked for
    n_views = 0
    for rel_, cls_ in ((F_EXTMOD, "ExternalModule"), (F_PRIMS, "Primitive")):
        ci_ = repo.cls(rel_, cls_)
        pm = ci_.methods.get("ports")
        if pm is None:
            raise AnalysisError(f"anchor-vanished: {rel_}::{cls_}.ports")
        n_views += 1
        reads = {x.attr for x in ast.walk(pm.node) if isinstance(x, ast.Attribute) and isinstance(x.value, ast.Name) and x.value.id == "self"}
        kept = [ast.unparse(r_.value) for r_ in shared.returns_of(pm.node) if isinstance(shared.prov(pm.node, r_.value), ast.Attribute)]
        stored = [ast.unparse(t) for n_ in au.walk_no_nested(pm.node) if isinstance(n_, (ast.Assign, ast.AugAssign, ast.AnnAssign)) for t in (n_.targets if isinstance(n_, ast.Assign) else [n_.target]) if isinstance(t, (ast.Attribute, ast.Subscript))]
        ok = reads == {"port_list"} and not kept and not stored
        R.check(ok, rule, key_of(pm, "live-view"), pm.site,
                f"{cls_}.ports is built from the live `port_list` on every access" if ok else f"{cls_}.ports hands out {kept or sorted(reads)}" + (f", stores {stored}" if stored else "") + " — a remembered view of `port_list`",
                why="after `port_list` changes, instances are checked against the remembered ports while the package declares the current ones: an instance that leaves the new port unconnected is accepted and exported")
    for rel_, cls_, via in ((F_EXTMOD, "ExternalModuleCall", "module"), (F_PRIMS, "PrimitiveCall", "prim")):
        pm = repo.cls(rel_, cls_).methods.get("ports")
        ok = pm is not None and [shared.prov_text(pm.node, r_.value) for r_ in shared.returns_of(pm.node)] == [f"self.{via}.ports"]
        R.check(ok, rule, key_of(pm, "live-view") if pm else f"{rel_}::{cls_}.ports", pm.site if pm else rel_, f"{cls_}.ports is its {via}'s: {ok}", why="a call is checked against other ports than its target declares")

    # ---- 6 per-call state
    rule = "C06.6-exporter-state-per-call"
    sf = repo.file(F_EXPORT)
    mut = []
    for st in sf.tree.body:
        if isinstance(st, (ast.Assign, ast.AnnAssign)) and st.value is not None:
            v = st.value
            if isinstance(v, (ast.Dict, ast.List, ast.Set)) or (isinstance(v, ast.Call) and dotted(v.func) in ("dict", "list", "set", "ProtoExporter", "vckt.Package")):
                tg = st.targets[0] if isinstance(st, ast.Assign) else st.target
                nm = tg.id if isinstance(tg, ast.Name) else None
                # a literal table that nothing in the file writes to is a constant, not state
                written = nm is None or not isinstance(v, (ast.Dict, ast.List, ast.Set)) or any(
                    (isinstance(x, ast.Subscript) and isinstance(x.ctx, (ast.Store, ast.Del)) and isinstance(x.value, ast.Name) and x.value.id == nm)
                    or (isinstance(x, ast.Call) and isinstance(x.func, ast.Attribute) and isinstance(x.func.value, ast.Name) and x.func.value.id == nm and x.func.attr in ("append", "extend", "insert", "update", "pop", "popitem", "setdefault", "clear", "add", "remove", "discard", "sort", "reverse"))
                    or (isinstance(x, (ast.Global,)) and nm in x.names)
                    or (isinstance(x, ast.AugAssign) and isinstance(x.target, ast.Name) and x.target.id == nm)
                    for x in ast.walk(sf.tree))
                if written:
                    mut.append(ast.unparse(st)[:60])
    ft = repo.func(F_EXPORT, "to_proto")
    rets = shared.returns_of(ft.node)
    fresh = len(rets) == 1 and pat.match("ProtoExporter(tops=$T, domain=domain).export()", shared.prov(ft.node, rets[0].value, depth=1)) is not None
    init = repo.func(F_EXPORT, "ProtoExporter.__init__")
    def _assigned(target, values):
        for st in au.stmts(init.node):
            if isinstance(st, ast.Assign) and ast.unparse(st.targets[0]) == target and ast.unparse(st.value) in values:
                return True
            if isinstance(st, ast.AnnAssign) and st.value is not None and ast.unparse(st.target) == target and ast.unparse(st.value) in values:
                return True
        return False
    own = all(_assigned(f"self.{a}", ("dict()", "{}")) for a in ("modules_by_id", "modules_by_name", "ext_modules")) and _assigned("self.pkg", ("vckt.Package(domain=domain or '')",))
    R.check(not mut and fresh and own, rule, f"{F_EXPORT}::module-state", F_EXPORT, f"no module-level mutable state in the exporter ({not mut}{'' if not mut else ': ' + str(mut)}); each to_proto call builds its own ProtoExporter ({fresh}) with its own maps and package ({own})",
            why="a second to_proto call returns modules of the first one (or refuses names it has seen before)")
    R.run(c13.no_value_memo, repo, R, rule)
    fxp = repo.func(F_EXPORT, "ProtoExporter.export")
    ok = any(isinstance(n, ast.For) and ast.unparse(n.iter) == "self.tops" and bool(pat.find("self.export_module(m)", n)) for n in au.walk_no_nested(fxp.node))
    R.check(ok, rule, key_of(fxp), fxp.site, f"every top-level module is exported: {ok}", why="some tops are missing from the package")
    from . import c02, c03, c08
    R.run(c02.checked_then_editable, repo, R, "C06.12-checked-modules-are-frozen")
    R.run(c02.dispatch_completeness, repo, shared.Retag(R, lambda r, k: "C06.10-every-connected-object-is-owned" if "check_connectable" in k else None,
                                                 "a signal that was never added to the module (or belongs to another one) passes the ownership check inside a slice, concatenation or anonymous bundle: the package names an undeclared signal"), noreturn_set(repo))
    R.run(c08.check, repo, shared.Retag(R, lambda r: "C06.9-failed-visit-never-exported" if r.startswith("C08.3") or r.startswith("C08.2") else None,
                                 "a module on which a checking pass failed is exported by the next call (the failure was not recorded, the checks are cached as done): the package is ill-formed"))
    R.run(c03.slice_inner, repo, shared.Retag(R, lambda r: "C06.7-targets-stay-inside-widths" if "index-bounds" in r else None,
                                       "a connection target names a bit outside its signal (e.g. bus[w] exported as slice [w:w] of a w-bit bus)"), "C02")
    R.run(widths_read_when_checked, repo, R)
    R.run(c02.live_passes, repo, shared.Retag(R, lambda r: "C06.8-post-flattening-checks-live",
                                       "the flattened design is exported without its final connection checks: instances with unconnected or mis-sized ports reach the package"))
    # a module that has been checked (and exported) stays as checked: it accepts no further attribute of any kind — every
    # pass skips modules in its done-cache, so an addition after elaboration reaches the next package unchecked
    from . import c07 as _c07
    R.run(_c07.freeze, repo, shared.Retag(R, lambda r: "C06.11-checked-modules-stay-as-checked",
                                         "a port added to (or re-declared on) an already exported cell goes completely unchecked into the next package: its instances do not connect it, or feed it the wrong width"))
    R.run(c18.check, repo, shared.Retag(R, lambda r, k: "C06.11-checked-modules-stay-as-checked" if r.startswith("C18.7") or (r.startswith("C18.4") and k.endswith("freeze-guard")) else None,
                                       "a port added to (or re-declared on) an already exported cell goes completely unchecked into the next package: its instances do not connect it, or feed it the wrong width"))
    R.floor("C06.1-definition-before-use", 5)
    R.floor("C06.5-instance-targets", 16)
    R.floor("C06.4-per-kind-views-disjoint", 2)


def widths_read_when_checked(repo: Repo, R):
    """A slice resolves its range against its parent's width once and keeps the result.  The checks read it during
    elaboration, when widths are final — so nothing that runs when the slice is written may already ask for it."""
    rule = "C06.7-targets-stay-inside-widths"
    RESOLVED = {"top", "bot", "step", "width", "_inner"}
    fs = repo.func(F_SLICEABLE, "_slice")
    made = [st.targets[0].id for st in au.stmts(fs.node) if isinstance(st, ast.Assign) and len(st.targets) == 1 and isinstance(st.targets[0], ast.Name) and isinstance(st.value, ast.Call) and (dotted(st.value.func) or "").split(".")[-1] == "Slice"]
    rets = [r for r in shared.returns_of(fs.node) if r.value is not None]
    if not rets:
        raise AnalysisError(f"idiom-unknown: {fs.site} returns nothing")
    sites = [(fs, made, fs.node)]
    ci = repo.cls(F_SLICE, "Slice")
    for nm in ("__post_init__", "__init__"):
        if nm in ci.methods:
            sites.append((ci.methods[nm], [ci.methods[nm].node.args.args[0].arg], ci.methods[nm].node))
    n = 0
    for fi, names, node in sites:
        n += 1
        early = [x for x in au.walk_no_nested(node) if (isinstance(x, ast.Attribute) and isinstance(x.ctx, ast.Load) and x.attr in RESOLVED and isinstance(x.value, ast.Name) and x.value.id in names)
                 or (isinstance(x, ast.Call) and (dotted(x.func) or "").split(".")[-1] in ("_get_inner", "_slice_inner", "width"))]
        R.check(not early, rule, key_of(fi, "range-resolved-when-checked"), fi.at(early[0]) if early else fi.site,
                f"{fi.name}: writing a slice does not resolve its range against the parent's width" + ("" if not early else f" — `{ast.unparse(early[0])[:50]}` does, and the result is kept"),
                why="`hi = m.a[4:8]; m.a.width = 6`: the slice keeps top=7 from the width it was written against, both width checks pass on the kept value, and the package has Slice(a, top=7) on a 6-bit signal")
    if n < 2:
        raise AnalysisError("anchor-vanished: the slice constructor sites (_slice, Slice.__post_init__)")
