"""C02 — ill-formed designs never yield a package or a netlist.

Structural clauses (DESIGN §4 C02): every checking pass of the default list is
live, checks follow rewrites, checker dispatches are exhaustive, the guard for
each fault class exists and fails, index bounds, no dead guards.  Sufficiency of
the guards' predicates behind arbitrary nesting is not decided.
"""

from __future__ import annotations

import ast
from typing import Callable, Dict, List, Optional, Set, Tuple

from ..core import AnalysisError, ClassInfo, FuncInfo, Repo, dotted
from .. import au, pat
from .common import *  # noqa
from .common import key_of, union, isinstance_handled, noreturn_set, class_names
from .shared import path_conditions, enclosing
from . import c01, c03
from .shared import Retag as shared_retag
from . import shared

NEEDS_READER = True  # the attached C06.2 clauses come with the C06 reader facts

EFFECTS = {"connect", "replace", "disconnect", "popitem"}


def default_passes(repo: Repo) -> Tuple[FuncInfo, List[Tuple[ast.AST, Optional[ClassInfo]]]]:
    fi = repo.func(F_ELAB, "Elaborator.default")
    lists = [b["L"] for c, b in pat.find("Elaborator(passes=$L)", fi.node)]
    env = au.local_env(fi.node)
    if len(lists) != 1:
        raise AnalysisError(f"idiom-unknown: `Elaborator(passes=[...])` not found in {fi.site}")
    lst = au.expand(lists[0], env)
    if not isinstance(lst, (ast.List, ast.Tuple)):
        raise AnalysisError(f"idiom-unknown: default pass list in {fi.site} is not a literal list")
    out = []
    for e in lst.elts:
        d = dotted(e)
        r = repo.resolve_dotted(fi.file, d) if d else None
        out.append((e, r if isinstance(r, ClassInfo) else None))
    return fi, out


def pass_effects(repo: Repo, ci: ClassInfo) -> Set[str]:
    """Connection/namespace-rewriting effects reachable from ci.elaborate_module
    through methods of the class and functions of the repo (depth-bounded)."""
    m = repo.find_method(ci, "elaborate_module")
    if m is None or m.cls is None or m.cls.name == "ElabPass":
        return set()
    seen: Set[Tuple[str, str]] = set()
    eff: Set[str] = set()
    work = [(m, 0)]
    while work:
        f, d = work.pop()
        k = (f.file.rel, f.qual)
        if k in seen or d > 5:
            continue
        seen.add(k)
        for c in au.calls_in(f.node, nested=True):
            if isinstance(c.func, ast.Attribute):
                if c.func.attr in EFFECTS:
                    eff.add(c.func.attr)
                if c.func.attr == "add" and ast.unparse(c.func.value) in ("module", "m"):
                    eff.add("module.add")
            r = repo.resolve_call(c, f)
            if isinstance(r, FuncInfo) and r.file.rel.startswith("hdl21/elab/"):
                if r.name in ("fail", "flatname", "format_hier_path"):
                    continue
                work.append((r, d + 1))
    return eff


def derives(repo: Repo, ci: ClassInfo, base_name: str) -> bool:
    return any(c.name == base_name for c in repo.mro(ci))


def check(repo: Repo, R) -> None:
    noret = noreturn_set(repo)
    R.run(live_passes, repo, R)
    R.run(dispatch_completeness, repo, R, noret)
    R.run(guard_inventory, repo, R, noret)
    R.run(c03.slice_inner, repo, R, "C02")
    R.run(c01.array_partition, repo, shared_retag(R, lambda r: "C02.4-guard-inventory", None), "C01.3-array-partition")
    from . import c08
    R.run(c08.check, repo, shared_retag(R, lambda r: "C02.7-failed-visit-never-revisited" if r.startswith("C08.3") else None,
                                 "after a checking or rewriting pass failed on an ill-formed module, a later call re-visits the half-rewritten module (the fault has been popped away) and returns a package for it"))
    from . import c18 as _c18
    R.run(_c18.check, repo, shared_retag(R, lambda r: "C02.8-displaced-attribute-disowned" if r.startswith("C18.1") else None,
                                  "an object displaced by re-using its name keeps its owner and its place in a per-kind container: the ownership check accepts it and the package declares two objects of one name"))
    # "a no-connect that is also referenced elsewhere": the replacement net is wired to the one port of the group and to
    # nothing that merely depends on the reference (its slices and concatenations are not counted by the cardinality guard)
    R.run(c01.noconn_private, repo, shared_retag(R, lambda r: "C02.10-noconn-net-stays-private",
                                                "a port tied to a no-connect whose reference is also used inside a slice or concatenation is accepted: those are quietly rewired onto the `unconnected` net"), noret)
    # "name-clashing module": the name is reserved before the modules below are exported, and a taken name is refused
    from . import c06 as _c06
    R.run(_c06.check, repo, shared_retag(R, lambda r: "C02.9-module-name-clash-refused" if r.startswith("C06.2") else None,
                                        "two different modules of one qualified name (a parent and a module below it) are both exported under it"))
    R.run(checked_then_editable, repo, R, "C02.11-checked-modules-are-frozen")
    R.run(dead_guards, repo, R, "C02.6-no-dead-guards", [("_elaborated", "Module", F_MODULE), ("_pre_flattening_io", "Module", F_MODULE)])
    R.floor("C02.1-live-checking-passes", 2)
    R.floor("C02.3-dispatch-complete", 4)
    R.floor("C02.4-guard-inventory", 20)
    R.floor("C02.5-index-bounds", 5)


def checked_then_editable(repo: Repo, R, rule: str):
    """A check that is remembered per module (the pass's done-set makes every later call skip the module) is only as good
    as the module is unchangeable from then on.  The refusal of additions keys on one attribute; the rule finds the pass
    that sets it and requires that no checking pass completes on a module *as a separate, earlier step*: otherwise a
    failure elsewhere in between leaves a module that is checked, remembered as checked — and still editable."""
    fi, entries = default_passes(repo)
    fa = repo.func(F_MODULE, "_add")
    noret = noreturn_set(repo)
    guard_attr = None
    for n in au.walk_no_nested(fa.node):
        if isinstance(n, ast.If) and au.raises(n.body, noret) != au.raises(n.orelse, noret):
            for x in ast.walk(n.test):
                if isinstance(x, ast.Attribute) and isinstance(x.value, ast.Name) and x.value.id == fa.node.args.args[0].arg and x.attr.startswith("_"):
                    guard_attr = x.attr
    if guard_attr is None:
        raise AnalysisError(f"idiom-unknown: the attribute the freeze guard of {fa.site} tests")
    marker = None
    for i, (e, c) in enumerate(entries):
        m = repo.find_method(c, "elaborate_module") if c is not None else None
        if m is not None and any(isinstance(x, ast.Attribute) and isinstance(x.ctx, ast.Store) and x.attr == guard_attr for x in ast.walk(m.node)):
            marker = i
    if marker is None:
        raise AnalysisError(f"idiom-unknown: no pass of the default list sets `{guard_attr}`")
    emb = repo.func(F_BASE, "ElabPass.elaborate_module_base")
    memo_tied = False
    for n in au.walk_no_nested(emb.node):
        if isinstance(n, ast.If) and ".done" in ast.unparse(n.test) and any(isinstance(x, ast.Return) for x in n.body):
            memo_tied = guard_attr in ast.unparse(n.test)
    early_checks = [c.name for i, (e, c) in enumerate(entries) if i < marker and c is not None and (derives(repo, c, "ConnTypes") or derives(repo, c, "Orphanage")) and c.name not in ("ConnTypes", "Orphanage")]
    ok = memo_tied or not early_checks
    R.check(ok, rule, key_of(fi, "checked-then-editable"), fi.site,
            f"additions are refused once `{guard_attr}` is set — by {entries[marker][1].name}, entry {marker} of the default list; the final checks {early_checks} complete on a module (and are remembered in their done-sets"
            + (", trusted only for frozen modules)" if memo_tied else ", unconditionally)") + " as separate, earlier passes: " + ("no window" if ok else "between them and the mark a failure elsewhere in the design leaves the module checked, remembered as checked, and editable"),
            why="a design with one unnamed module fails in MarkModules; a healthy sibling that was already re-checked can now be given a width-mismatched instance, and the next to_proto skips every check for it and returns the package")


# --------------------------------------------------------------------------
# 1 + 2: every pass is live; checks follow rewrites
# --------------------------------------------------------------------------


def live_passes(repo: Repo, R):
    rule = "C02.1-live-checking-passes"
    fi, entries = default_passes(repo)
    # per-class caches
    base = repo.cls(F_BASE, "ElabPass")
    isc = base.methods.get("__init_subclass__")
    per_class = False
    if isc is not None:
        for c, _b in pat.find("cls.CLASS_LEVEL_CACHE = ClassLevelCache()", isc.node):
            # unconditional: a cache created only "if there is none yet" is inherited by sub-classes of a pass
            per_class = not path_conditions(isc.node, c)
    emb = repo.func(F_BASE, "ElabPass.elaborate_module_base")
    early = False
    for n in au.walk_no_nested(emb.node):
        if isinstance(n, ast.If) and ast.unparse(n.test).endswith("CLASS_LEVEL_CACHE.done") and isinstance(n.test, ast.Compare) and isinstance(n.test.ops[0], ast.In):
            early = n.body and isinstance(n.body[-1], ast.Return)
    R.check(per_class, rule, key_of(base.methods["__init_subclass__"]) if isc else f"{F_BASE}::ElabPass", base.site,
            f"each pass class gets its own done/pending cache in __init_subclass__: {per_class}; a module in the class's done-set is skipped: {early}",
            why="sub-classed passes would share one done-set and skip each other's modules")
    unresolved = [ast.unparse(e) for e, c in entries if c is None]
    if unresolved:
        raise AnalysisError(f"idiom-unknown: pass list entries {unresolved} do not resolve to classes")
    seen: Dict[str, int] = {}
    dead = []
    for i, (e, c) in enumerate(entries):
        if c.name in seen and early:
            dead.append((i, c.name, seen[c.name]))
        seen.setdefault(c.name, i)
    R.check(not dead, rule, key_of(fi, "no-repeated-class"), fi.site,
            f"default pass list {[c.name for _e, c in entries]}: every entry has its own done-set"
            if not dead else "; ".join(f"position {i} repeats pass class {n} (first at {j}); its per-class done-set already holds every module, so it visits nothing" for i, n, j in dead),
            why="a width mismatch inside an anonymous bundle, or an instance array with a missing port connection, is exported: the post-flattening re-checks are no-ops")
    # checks follow rewrites
    rule2 = "C02.2-checks-follow-rewrites"
    rewriting = []
    for i, (e, c) in enumerate(entries):
        eff = pass_effects(repo, c)
        if eff:
            rewriting.append((i, c.name, sorted(eff)))
    if len(rewriting) < 4:
        raise AnalysisError(f"anchor-vanished: only {len(rewriting)} rewriting passes recognised in the default list ({rewriting})")
    last = max(i for i, _n, _e in rewriting)
    live_idx = {i for i, (e, c) in enumerate(entries) if not any(i == d[0] for d in dead)}
    for checker in ("ConnTypes", "Orphanage"):
        later = [i for i, (e, c) in enumerate(entries) if i > last and i in live_idx and derives(repo, c, checker)]
        R.check(bool(later), rule2, key_of(fi, checker), fi.site,
                f"rewriting passes {[(i, n) for i, n, _ in rewriting]}; a live {checker} pass runs after the last of them: {bool(later)}",
                why=f"connections created by flattening (array slices, flattened bundle members, resolved references) are never checked by {checker}")
    # order among the rewriting passes: each consumes what its predecessor produces (confirmed by reading the passes)
    ORDER = [
        ("InstBundleElabPass", "ResolvePortRefs", "instance bundles hand out port references and no-connects of their own; scalarising them after reference resolution gives the p/n members one shared net"),
        ("ResolvePortRefs", "ConnTypes", "connection types are checked on resolved connections"),
        ("ResolvePortRefs", "BundleFlattener", "bundle flattening follows resolved references only"),
        ("BundleFlattener", "ArrayFlattener", "arrays are distributed over flattened (scalar) ports"),
        ("ArrayFlattener", "SliceResolver", "the slice resolver refuses modules that still have arrays"),
    ]
    pos = {}
    for i, (e, c) in enumerate(entries):
        pos.setdefault(c.name, i)
    for a, b, reason in ORDER:
        ok_ = a in pos and b in pos and pos[a] < pos[b]
        R.check(ok_, rule2, key_of(fi, f"{a}<{b}"), fi.site, f"{a} (position {pos.get(a)}) runs before {b} (position {pos.get(b)}): {reason}",
                why="passes run in an order in which one of them meets constructs its predecessor was to remove: connections are merged or left unresolved")
    # MarkModules last
    lastc = entries[-1][1]
    R.check(lastc.name == "MarkModules", rule2, key_of(fi, "mark-last"), fi.site,
            f"the last pass is {lastc.name} (modules are frozen and named only after all checks)",
            why="a module is marked elaborated before the checks that may still reject it")
    # the first pass checks ownership before anything is rewritten
    R.check(derives(repo, entries[0][1], "Orphanage"), rule2, key_of(fi, "orphanage-first"), fi.site,
            f"the first pass is {entries[0][1].name} (ownership is checked on the design as written)",
            why="a foreign signal/instance is flattened and copied into the module before its ownership is checked")
    # Elaborator.elaborate runs each pass in list order over all tops
    fe = repo.func(F_ELAB, "Elaborator.elaborate")
    from .shared import path_conditions as _pc, returns_of as _rets, precedes as _prec

    loops_ = [n for n in au.walk_no_nested(fe.node) if isinstance(n, ast.For) and ast.unparse(n.iter) == "self.passes"]
    # every call runs every pass: the loop is unconditional, nothing leaves it early, and no return comes before it
    loop_ok = len(loops_) == 1 and not any(isinstance(x, (ast.Break, ast.Continue, ast.Return)) for x in ast.walk(loops_[0])) and not _pc(fe.node, loops_[0]) and not any(_prec(fe.node, r, loops_[0]) for r in _rets(fe.node))
    R.check(loop_ok, rule2, key_of(fe), fe.site, f"Elaborator.elaborate runs every pass of the list, in order: {loop_ok}", why="passes are skipped")


# --------------------------------------------------------------------------
# 3: dispatch completeness of the checkers
# --------------------------------------------------------------------------


def dispatch_completeness(repo: Repo, R, noret):
    rule = "C02.3-dispatch-complete"
    conn = set(union(repo, F_CONNECT, "Connectable"))
    # Orphanage.check_connectable
    fi = repo.func(F_ORPH, "Orphanage.check_connectable")
    handled = isinstance_handled(repo, fi, subject=fi.node.args.args[2].arg)
    missing = sorted(conn - handled)
    falls = au.default_raises(fi.node.body, noret)
    R.check(not missing and falls, rule, key_of(fi), fi.site,
            f"Orphanage.check_connectable handles {sorted(handled)} of Connectable {sorted(conn)}" + (f"; MISSING {missing}" if missing else "") + f"; unknown kinds raise: {falls}",
            why="connections of an unhandled kind are never checked for ownership")
    # recursion into compound kinds
    rec = {}
    for kind, attr in (("Slice", ".parent"), ("Concat", ".parts"), ("AnonymousBundle", "._namespace")):
        ok = False
        for n in au.walk_no_nested(fi.node):
            if isinstance(n, ast.If) and ast.unparse(n.test) == f"isinstance(conn, {kind})":
                txt = ast.unparse(ast.Module(n.body, []))
                ok = "check_connectable" in txt and attr in txt
        rec[kind] = ok
    # ... and into every one of them: the loops over parts / members run to completion
    for lp_ in [n for n in au.walk_no_nested(fi.node) if isinstance(n, ast.For)]:
        early = [x for x in ast.walk(lp_) if isinstance(x, (ast.Return, ast.Break, ast.Continue))]
        if early:
            rec["<loop over " + ast.unparse(lp_.iter) + " complete>"] = False
    R.check(all(rec.values()), rule, key_of(fi, "recursion"), fi.site,
            f"ownership check recurses into slice parents, concat parts and anonymous-bundle members: {rec}",
            why="a foreign signal hidden inside a slice, concat or anonymous bundle passes the ownership check")
    refs = {}
    for kind, tgt in (("PortRef", "conn.inst"), ("BundleRef", "conn.root()")):
        ok = False
        for n in au.walk_no_nested(fi.node):
            if isinstance(n, ast.If) and ast.unparse(n.test) == f"isinstance(conn, {kind})":
                ok = bool(pat.find(f"self.assert_parentage(module, {tgt})", ast.Module(n.body, [])))
        refs[kind] = ok
    R.check(all(refs.values()), rule, key_of(fi, "references"), fi.site,
            f"references are checked through the object that owns them (PortRef -> its instance, BundleRef -> its root bundle instance): {refs}",
            why="a reference into another module's instance or bundle is accepted")
    # Module._add over ModuleAttr
    fm = repo.func(F_MODULE, "_add")
    attrs = set(union(repo, F_MODULE, "ModuleAttr"))
    h = isinstance_handled(repo, fm, subject="val")
    missing = sorted(attrs - h)
    R.check(not missing, rule, key_of(fm), fm.site,
            f"Module._add sorts {sorted(h)}; ModuleAttr = {sorted(attrs)}" + (f"; MISSING {missing}" if missing else ""),
            why="an attribute kind is stored in no per-kind container")
    # ConnTypes.check_compatible: ports of HasWidth kinds and BundleInstance; else fail
    fc = repo.func(F_CONNT, "ConnTypes.check_compatible")
    hp = isinstance_handled(repo, fc, subject="port")
    need = set(union(repo, F_WIDTH, "HasWidth")) | {"BundleInstance"}
    falls = au.dispatch_default_raises(fc.node, "port", noret)
    R.check(need <= hp and falls, rule, key_of(fc), fc.site,
            f"check_compatible dispatches ports over {sorted(hp)} (needs {sorted(need)}); other port kinds fail: {falls}",
            why="a port kind is accepted without any compatibility check")
    # ArrayFlattener connection kinds
    fa = repo.func(F_ARRAYS, "ArrayFlattener.elaborate_module")
    ha = isinstance_handled(repo, fa, subject="conn")
    # PortRef must be rejected (unresolved), everything not handled must fail
    chain_else = False
    for n in au.walk_no_nested(fa.node):
        if isinstance(n, ast.If) and ast.unparse(n.test) == "isinstance(conn, BundleInstance)":
            cur = n
            while len(cur.orelse) == 1 and isinstance(cur.orelse[0], ast.If):
                cur = cur.orelse[0]
            chain_else = au.raises(cur.orelse, noret)
    R.check({"Signal", "Slice", "Concat", "BundleInstance"} <= ha and chain_else, rule, key_of(fa), fa.site,
            f"array connections handled: {sorted(ha)}; any other kind fails: {chain_else}",
            why="an array connection of an unhandled kind is dropped silently: the new instances stay unconnected")


# --------------------------------------------------------------------------
# 4: guard inventory
# --------------------------------------------------------------------------


def _ifs(fi: FuncInfo):
    return [n for n in au.walk_no_nested(fi.node) if isinstance(n, ast.If)]


def _norm(t: ast.AST) -> str:
    return ast.unparse(t).replace('"', "'")


def has_guard(fi: FuncInfo, pred: Callable[[ast.AST], bool], noret, outcome="raise") -> Optional[ast.If]:
    """An `if <test>:` in fi whose test satisfies pred and whose body fails
    (raise / no-return helper) or, for outcome='status', returns a non-Valid status."""
    from ..canon import _negate
    import copy as _copy

    for n in _ifs(fi):
        # canonical form: tests are positive, so the failing branch may be either one
        # the test as written, and with its locals replaced by the one definition that reaches it (a rebound parameter,
        # a temporary): `other = other.of; if f(other)` is `if f(other.of)`
        from . import shared as _sh
        try:
            alts = _sh.alternatives(fi.node, n.test, [], at=n.test)
        except Exception:
            alts = []
        resolved = alts[0][0] if len(alts) == 1 and ast.unparse(alts[0][0]) != ast.unparse(n.test) else None
        cands = [(n.test, n.body), (ast.fix_missing_locations(_negate(_copy.deepcopy(n.test))), n.orelse)]
        if resolved is not None:
            cands += [(resolved, n.body), (ast.fix_missing_locations(_negate(_copy.deepcopy(resolved))), n.orelse)]
        for test, branch in cands:
            if not branch:
                continue
            try:
                okp = pred(test)
            except Exception:
                okp = False
            if not okp:
                continue
            if outcome == "raise" and au.raises(branch, noret):
                return n
            if outcome == "status":
                last = branch[-1]
                if isinstance(last, ast.Return) and last.value is not None and any(k in ast.unparse(last.value) for k in ("InvalidType", "NoPort", "Unconnected")):
                    return n
    return None


def is_none_test(expr_text: str, absent: Optional[str] = None) -> Callable[[ast.AST], bool]:
    """The looked-up value is missing: `<x> is None` for a `.get` result, or — the canonical spelling of a membership
    decision (canon_flow.membership_spellings) — `<key> not in <table>` (`absent`, as text)."""
    def p(t):
        s = _norm(t)
        return s in (f"{expr_text} is None", f"not {expr_text}", f"{expr_text} == None") or (absent is not None and s in (absent, f"not ({absent.replace(' not in ', ' in ')})", "not " + absent.replace(" not in ", " in ")))
    return p


def export_slice_guards(repo: Repo, R, noret, rule: str):
    """What the slice resolver leaves for the exporter to refuse: a slice not (yet) on a concrete signal, a step other than +1."""
    def G(fi, key, pred, what, why):
        g = has_guard(fi, pred, noret, "raise")
        R.check(g is not None, rule, key_of(fi, key), fi.at(g) if g is not None else fi.site,
                f"{what}: guard present and failing" if g is not None else f"{what}: no failing guard found", why=why)
    fes = repo.func(F_EXPORT, "export_slice")
    a0 = fes.node.args.args[0].arg
    # by what happens, not by how the tests are nested: no concrete signal -> raises; a signal but a step other than 1 -> raises
    g1 = shared.raises_under(fes.node, [(f"isinstance({a0}.parent, Signal)", False)], noret)
    R.check(g1, rule, key_of(fes, "slice-parent-signal"), fes.site, "slice whose parent is not a concrete signal: " + ("guard present and failing" if g1 else "no failing guard found"), why="a nested slice is exported against the wrong signal")
    g2 = shared.raises_under(fes.node, [(f"isinstance({a0}.parent, Signal)", True), (f"{a0}.step == 1", False)], noret)
    R.check(g2, rule, key_of(fes, "slice-unit-step"), fes.site, "slice with non-unit step: " + ("guard present and failing" if g2 else "no failing guard found"), why="a strided or reversed slice is exported as a contiguous forward range")


def guard_inventory(repo: Repo, R, noret):
    rule = "C02.4-guard-inventory"

    def G(fi, key, pred, what, why, outcome="raise"):
        g = has_guard(fi, pred, noret, outcome)
        R.check(g is not None, rule, key_of(fi, key), fi.at(g) if g is not None else fi.site,
                f"{what}: guard present and failing" if g is not None else f"{what}: no failing guard found", why=why)
        return g

    # --- width mismatch
    fi = repo.func(F_CONNT, "ConnTypes.check_signals_compatible")
    a0, a1 = fi.node.args.args[1].arg, fi.node.args.args[2].arg

    def width_ne(t):
        if not (isinstance(t, ast.Compare) and len(t.ops) == 1 and isinstance(t.ops[0], ast.NotEq)):
            return False
        l, r = ast.unparse(t.left), ast.unparse(t.comparators[0])
        return {l, r} == {f"self.get_width({a0})", f"self.get_width({a1})"}

    G(fi, "width-mismatch", width_ne, "port width != connection width yields a non-Valid status", "a connection whose width differs from its port's is exported", outcome="status")
    G(fi, "non-signal", lambda t: _norm(t) == f"not isinstance({a1}, HasWidth.__args__)", "a non-signal connected to a signal port yields a non-Valid status",
      "a bundle connected to a scalar port is accepted", outcome="status")
    gw = repo.func(F_CONNT, "ConnTypes.get_width")
    wcall = [c for c in au.calls_in(gw.node) if isinstance(repo.resolve_call(c, gw), FuncInfo) and repo.resolve_call(c, gw).file.rel == F_WIDTH]
    R.check(bool(wcall), rule, key_of(gw), gw.site, f"get_width delegates to the width() helper: {bool(wcall)}", why="widths are compared through something that is not the width")

    # --- missing / extra connection
    fi = repo.func(F_CONNT, "ConnTypes.check_instance")
    from . import shared as _sh
    defs = au.local_defs(fi.node)
    # by dataflow: the collection whose non-emptiness fails the pass, and what flows into it (directly, or through an
    # intermediate table and a filtering comprehension)
    sink = None
    for n in _ifs(fi):
        if isinstance(n.test, ast.Name) and (au.raises(n.body, noret) != au.raises(n.orelse, noret)) and au.raises(n.body, noret):
            sink = n.test.id
    contents = _sh.container_contents(fi.node, sink) if sink else []
    io_loop = None
    for lp in [n for n in au.walk_no_nested(fi.node) if isinstance(n, ast.For)]:
        it = au.expand(lp.iter, defs, depth=2)
        if "io_for_checking" in ast.unparse(it) and ast.unparse(lp.iter).endswith(".items()"):
            io_loop = lp
    pn = ast.unparse(io_loop.target.elts[0]) if io_loop is not None and isinstance(io_loop.target, ast.Tuple) else None
    pv = ast.unparse(io_loop.target.elts[1]) if io_loop is not None and isinstance(io_loop.target, ast.Tuple) else None
    conns_copy = None
    if io_loop is not None:
        for c, b in pat.find(f"$C.pop({pn}, None)", io_loop) + pat.find(f"$C.pop({pn})", io_loop):
            conns_copy = ast.unparse(b["C"])

    def only_valid_filter(v, conds):
        """beyond the conditions that select the producing case, the value is kept unless it is a Valid status"""
        vt = ast.unparse(v)
        for t, pol in conds:
            tt = ast.unparse(t)
            if vt in tt:
                if not ((tt == f"isinstance({vt}, Valid)" and pol is False) or (tt == f"not isinstance({vt}, Valid)" and pol is True)):
                    return False
        return True

    def flows(pattern, need_cond=None):
        for k, v, conds in contents:
            b = pat.match(pattern, v)
            if b is None:
                continue
            if not only_valid_filter(v, conds):
                continue
            if need_cond is not None and not need_cond(b, k, conds):
                continue
            return True
        return False

    # the popped connection, as the dataflow shows it: through the local name of the copy, or with the copy written out
    ccs = [conns_copy, ast.unparse(defs[conns_copy])] if conns_copy and conns_copy in defs else [conns_copy]
    pops = [f"{c_}.pop({pn}{d_})" for c_ in ccs for d_ in (", None", "")]

    def conn_is_none(pol):
        def f(b, k, conds):
            for t, p_ in conds:
                tt = ast.unparse(t)
                if tt in [f"{x} is None" for x in pops] and p_ == pol:
                    return k is not None and ast.unparse(k) == pn
            return False
        return f

    ok_missing = conns_copy is not None and flows(f"Unconnected({pn})", conn_is_none(True))
    ok_compat = conns_copy is not None and any(flows(f"self.check_compatible({pv}, {x})", conn_is_none(False)) for x in pops)
    ok_extra = False
    copy_ok = False
    if conns_copy:
        src = defs.get(conns_copy)
        copy_ok = src is not None and ast.unparse(src) in ("copy.copy(inst.conns)", "dict(inst.conns)", "copy(inst.conns)", "inst.conns.copy()")
        for lp in [n for n in au.walk_no_nested(fi.node) if isinstance(n, ast.For)]:
            if ast.unparse(lp.iter) in (f"{conns_copy}.keys()", conns_copy, f"list({conns_copy})", f"{conns_copy}.items()") and _sh.precedes(fi.node, io_loop, lp):
                kvar = ast.unparse(lp.target.elts[0] if isinstance(lp.target, ast.Tuple) else lp.target)
                # (every left-over name: no test on the name decides whether it gets its status)
                ok_extra = flows(f"NoPort({kvar})", lambda b, k, conds: k is not None and ast.unparse(k) == kvar and not any(
                    isinstance(x_, ast.Name) and x_.id == kvar for t_, _p in conds for x_ in ast.walk(t_) if f"NoPort({kvar})" not in ast.unparse(t_)))
    R.check(ok_missing, rule, key_of(fi, "missing-connection"), fi.site, f"every io port without a connection yields an Unconnected status that reaches the failing collection `{sink}`: {ok_missing}", why="an instance with a missing port connection is exported")
    R.check(ok_compat, rule, key_of(fi, "each-port-checked"), fi.site, f"every connected io port is passed to check_compatible(port, conn), and its status reaches `{sink}`: {ok_compat}", why="connections are not type/width checked")
    R.check(ok_extra and copy_ok, rule, key_of(fi, "extra-connection"), fi.site,
            f"connections left over after popping every io port yield a NoPort status that reaches `{sink}`: {ok_extra}; popped from a copy of conns (not the live dict): {copy_ok}",
            why="a connection to a non-existent port is exported (or checking empties the instance's real connections)")
    total_io = io_loop is not None and not any(isinstance(x, (ast.Break, ast.Continue, ast.Return)) for x in ast.walk(io_loop))
    R.check(sink is not None and total_io, rule, key_of(fi, "any-bad-fails"), fi.site, f"the statuses that are not Valid are collected in `{sink}`, and any of them fails the pass ({sink is not None}); every io port is looked at ({total_io})", why="a bad connection status is computed and ignored")
    fe = repo.func(F_CONNT, "ConnTypes.elaborate_module")
    tot = any(isinstance(n, ast.For) and ast.unparse(n.iter) == "module.instances.values()" and bool(pat.find("self.check_instance(module, $I)", n)) and not any(isinstance(x, (ast.Break, ast.Continue, ast.Return)) for x in ast.walk(n)) for n in au.walk_no_nested(fe.node))
    R.check(tot, rule, key_of(fe), fe.site, f"ConnTypes checks every instance of the module: {tot}", why="some instances are not checked")

    # --- bundle compatibility
    fb = repo.func(F_CONNT, "ConnTypes.check_bundles_compatible")
    for what, attr in (("signal names", "signals"), ("sub-bundle names", "bundles")):
        def pred(t, attr=attr):
            return isinstance(t, ast.Compare) and isinstance(t.ops[0], ast.NotEq) and {ast.unparse(t.left), ast.unparse(t.comparators[0])} in ({f"sorted(bundle.{attr})", f"sorted(other.{attr})"}, {f"sorted(bundle.{attr})", f"sorted(other.of.{attr})"})
        G(fb, f"bundle-{attr}-match", pred, f"bundles with different {what} are incompatible", "a bundle with a missing or extra member is connected to a bundle port", outcome="status")
    sig_loop = any(isinstance(n, ast.For) and ast.unparse(n.iter) == "bundle.signals.items()" and bool(pat.find("self.check_signals_compatible($V, other.signals[$K])", n) or pat.find("self.check_signals_compatible($V, other.of.signals[$K])", n)) for n in au.walk_no_nested(fb.node))
    rec_loop = any(isinstance(n, ast.For) and ast.unparse(n.iter) == "bundle.bundles.items()" and bool(pat.find("self.check_bundles_compatible($V.of, other.bundles[$K].of)", n) or pat.find("self.check_bundles_compatible($V.of, other.of.bundles[$K].of)", n)) for n in au.walk_no_nested(fb.node))
    R.check(sig_loop and rec_loop, rule, key_of(fb, "member-widths"), fb.site, f"each member signal's width is compared ({sig_loop}) and sub-bundles are compared recursively ({rec_loop})", why="a width mismatch inside a bundle member is accepted")

    fcc = repo.func(F_CONNT, "ConnTypes.check_compatible")
    G(fcc, "non-connectable", lambda t: _norm(t) == "not is_connectable(conn)", "a non-connectable connection yields a non-Valid status", "an arbitrary object connected to a port is exported", outcome="status")

    # --- arrays
    fa = repo.func(F_ARRAYS, "ArrayFlattener.elaborate_module")
    G(fa, "array-port-exists", is_none_test("port", "portname not in target.ports"), "array connection to a non-existent port", "an array connection to a non-existent port is dropped")
    G(fa, "array-size", lambda t: au.cmp_norm(t) == au.cmp_norm(ast.parse("array.n < 1", mode="eval").body), "instance array of size < 1", "an empty array silently disappears")
    G(fa, "array-slice-width", lambda t: au.cmp_norm(t) == au.cmp_norm(ast.parse("slize.width != port.width", mode="eval").body), "per-element slice width != port width", "a mis-sized element slice is connected")
    G(fa, "array-port-is-signal", lambda t: _norm(t) == "not isinstance(port, Signal)", "array scalar connection to a bundle-valued port", "a signal is broadcast onto a bundle port")

    # --- references to non-existent ports / members
    fcs = repo.func(F_PORTREFS, "ResolvePortRefs.create_source")
    G(fcs, "portref-port-exists", is_none_test("port"), "port reference to a non-existent port", "a reference to a port the target does not have creates a phantom net")
    frn = repo.func(F_PORTREFS, "ResolvePortRefs.replace_noconn")
    G(frn, "noconn-port-exists", is_none_test("port"), "no-connect on a non-existent port", "a NoConn on a non-existent port is accepted")
    frb = repo.func(F_RRT, "resolve_bundleref_type")
    G(frb, "bundle-member-exists", is_none_test("attr", "bref.attrname not in parent.of"), "bundle reference to a non-existent member", "a reference to a non-existent bundle member is accepted")
    frp = repo.func(F_FLATB, "BundleFlattener.resolve_path")
    ok = False
    for n in au.walk_no_nested(frp.node):
        if isinstance(n, ast.If) and "in ns.signals" in _norm(n.test):
            cur = n
            while len(cur.orelse) == 1 and isinstance(cur.orelse[0], ast.If):
                cur = cur.orelse[0]
            ok = au.raises(cur.orelse, noret)
    R.check(ok, rule, key_of(frp, "path-exists"), frp.site, f"a path segment found neither among signals nor sub-scopes fails: {ok}", why="a bundle reference to a non-existent nested member resolves to nothing")
    fbc = repo.func(F_FLATB, "BundleFlattener.replace_bundle_conn")
    G(fbc, "bundle-port-exists", is_none_test("flat_bundle_port"), "bundle connection to a port that is not a bundle port of the target", "a bundle connected to a non-existent/non-bundle port is dropped")
    # both directions of member agreement
    fwd = has_guard(fbc, lambda t: _norm(t) == "path not in flat.signals", noret)
    R.check(fwd is not None, rule, key_of(fbc, "member-missing-on-connection"), fbc.site,
            f"a member of the flattened port that the connected bundle lacks fails: {fwd is not None}", why="a bundle connection with a missing member leaves a flattened port unconnected")
    conv = converse_member_check(fbc, noret)
    R.check(conv, rule, key_of(fbc, "member-extra-on-connection"), fbc.site,
            "a member of the connected (anonymous) bundle that the port does not have fails" if conv else
            "membership is compared in one direction only: `path not in flat.signals` is tested for every port member, but no test rejects members of the connection that the port lacks",
            why="`AnonymousBundle(x=.., y=.., zzz=..)` on a two-member bundle port is accepted and `zzz` silently vanishes (an extra connection)")

    # --- ownership
    fap = repo.func(F_ORPH, "Orphanage.assert_parentage")
    G(fap, "orphan", lambda t: _norm(t) == "attr._parent_module is None", "attribute owned by no module", "an object that was never added to any module is used")
    G(fap, "foreign", lambda t: _norm(t) == "attr._parent_module is not module", "attribute owned by another module", "another module's signal or instance is used")
    foe = repo.func(F_ORPH, "Orphanage.elaborate_module")
    ns_loop = any(isinstance(n, ast.For) and ast.unparse(n.iter) == "module.namespace.values()" and bool(pat.find("self.assert_parentage(module, $A)", n)) for n in au.walk_no_nested(foe.node))
    defs = au.local_defs(foe.node)
    inst_loop = False
    for n in au.walk_no_nested(foe.node):
        if isinstance(n, ast.For) and pat.find("self.check_instance(module, $I)", n):
            it = ast.unparse(au.expand(n.iter, defs, depth=2))
            inst_loop = all(k in it for k in ("module.instances", "module.instarrays", "module.instbundles"))
    R.check(ns_loop and inst_loop, rule, key_of(foe), foe.site, f"ownership is checked for every namespace attribute ({ns_loop}) and every connection of instances, arrays and instance bundles ({inst_loop})",
            why="connections of arrays / instance bundles to foreign signals are not checked")
    # every connection kind that is owned (or refers to something owned) reaches the ownership assertion whenever it is
    # met: no test besides the kind dispatch stands between the arm and the assertion
    fcc = repo.func(F_ORPH, "Orphanage.check_connectable")
    subj = fcc.node.args.args[2].arg
    owners = {"Signal": subj, "BundleInstance": subj, "PortRef": f"{subj}.inst", "BundleRef": f"{subj}.root()"}
    universe = set(union(repo, F_CONNECT, "Connectable"))
    seen_k = {}
    for c, b in pat.find("self.assert_parentage(module, $A)", fcc.node):
        kinds = shared.admissible_kinds(fcc.node, c, subj, universe) - {"<other>"}
        extra = [("" if pol else "not ") + ast.unparse(t) for t, pol in shared.path_conditions(fcc.node, c) if not (isinstance(t, ast.Call) and (au.isinstance_classes(t) or [None])[0] is not None and ast.unparse(au.isinstance_classes(t)[0]) == subj)]
        for k in kinds:
            if k in owners and shared.prov_text(fcc.node, b["A"]) == owners[k]:
                seen_k.setdefault(k, []).append(extra)
    for k, who in owners.items():
        ok_k = k in seen_k and any(not e for e in seen_k[k])
        R.check(ok_k, rule, key_of(fcc, f"owner-asserted-{k}"), fcc.site,
                f"a {k} connection has the ownership of `{who}` asserted unconditionally: {ok_k}" + (f" (only when {seen_k[k][0]})" if k in seen_k and not ok_k else ""),
                why=f"a {k} whose owner is exempted (held by no module, say) passes: a port reference to a never-added instance that is referred to again is resolved to an invented net and exported without its driver")
    foc = repo.func(F_ORPH, "Orphanage.check_instance")
    tot = any(isinstance(n, ast.For) and ast.unparse(n.iter) == "inst.conns.values()" and bool(pat.find("self.check_connectable(module, $C)", n)) for n in au.walk_no_nested(foc.node))
    R.check(tot, rule, key_of(foc), foc.site, f"every connection of the instance is ownership-checked: {tot}", why="some connections escape the ownership check")

    # --- multiply connected no-connect (shared with C01.6), circular instantiation
    fh = repo.func(F_PORTREFS, "ResolvePortRefs.handle_noconn")
    G(fh, "noconn-cardinality", lambda t: au.cmp_norm(t) == au.cmp_norm(ast.parse("len(group) > 2", mode="eval").body), "no-connect referenced elsewhere", "a no-connect that is also referenced elsewhere is accepted")
    femb = repo.func(F_BASE, "ElabPass.elaborate_module_base")
    g = has_guard(femb, lambda t: isinstance(t, ast.Compare) and isinstance(t.ops[0], ast.In) and _norm(t.comparators[0]).endswith(".pending"), noret)
    before = False
    if g is not None:
        adds = [c for c, b in pat.find("$S.pending.add($M)", femb.node)]
        before = bool(adds) and all(g.lineno < a.lineno for a in adds)
    R.check(g is not None and before, rule, key_of(femb, "circular"), femb.site, f"a module already being visited fails (circular instantiation): {g is not None}, tested before it is added to pending: {before}",
            why="a circular instantiation recurses without bound or is accepted")
    # --- naming
    fmm = repo.func(F_MARK, "MarkModules.elaborate_module")
    def unnamed(t):
        # fails for every falsy name: None (never named) and "" alike
        s_ = _norm(t)
        if s_ == "not module.name":
            return True
        both = ("None" in s_ and ("''" in s_ or '""' in s_)) and "module.name" in s_ and " and " not in s_
        return both
    G(fmm, "unnamed-module", unnamed, "unnamed module (name None or empty)", "an anonymous module — `h.Module()` or `h.Module(name='')` — is exported with an empty name: `.SUBCKT ` without a name")
    fen = repo.func(F_EXPORT, "ProtoExporter.export_module_name")
    def name_taken(t):
        # `name in table`, or `table.get(name) is not None` (the table's values are mapping records, never None)
        if isinstance(t, ast.Compare) and isinstance(t.ops[0], ast.In) and _norm(t.comparators[0]) == "self.modules_by_name":
            return True
        return isinstance(t, ast.Compare) and isinstance(t.ops[0], ast.IsNot) and ast.unparse(t.comparators[0]) == "None" and bool(pat.match("self.modules_by_name.get($K)", t.left) or pat.match("self.modules_by_name.get($K, None)", t.left))
    G(fen, "name-clash", name_taken, "two modules with one qualified name", "two different modules are exported under one name")
    # --- exporter refuses leftovers
    fem = repo.func(F_EXPORT, "ProtoExporter.export_module")
    G(fem, "leftover-bundles", lambda t: _norm(t) == "module.bundles", "module that still has bundle instances", "un-flattened bundles are dropped from the package")
    export_slice_guards(repo, R, noret, rule)
    fct = repo.func(F_EXPORT, "export_connection_target")
    # a connection that is none of Signal / Slice / Concat reaches a raise (whatever the shape of the dispatch)

    sv = fct.node.args.args[0].arg
    cur = None
    unknown_raises = False
    for r in shared.raising_leaves(fct.node, noret):
        if shared.admissible_kinds(fct.node, r, sv, {"Signal", "Slice", "Concat"}) == {"<other>"}:
            unknown_raises = True
    handled = set()
    for n in au.walk_no_nested(fct.node):
        if isinstance(n, (ast.Return, ast.Assign, ast.Expr)) and not isinstance(getattr(n, "value", None), ast.Constant):
            adm = shared.admissible_kinds(fct.node, n, sv, {"Signal", "Slice", "Concat"})
            if len(adm) == 1:
                handled |= adm
    R.check(unknown_raises and {"Signal", "Slice", "Concat"} <= handled, rule, key_of(fct, "unknown-connection-kind"), fct.site,
            "a connection that is neither Signal, Slice nor Concat raises" if unknown_raises else "unknown connection kinds do not raise in export_connection_target",
            why="an unresolved reference / bundle / no-connect is exported as an empty connection target")
    fei = repo.func(F_EXPORT, "ProtoExporter.export_instance")
    # elaborate is part of to_proto
    ftp = repo.func(F_EXPORT, "to_proto")
    R.check(bool(pat.find("elaborate($T)", ftp.node)), rule, key_of(ftp, "elaborates-first"), ftp.site, "to_proto elaborates (and thereby checks) before exporting", why="an unchecked design is exported")


def converse_member_check(fbc: FuncInfo, noret) -> bool:
    """Is there a failing test that some member of `flat.signals` is absent from
    the port-side scope `flat_bundle_port.signals`?"""
    defs = au.local_defs(fbc.node)
    # form 1: for path in flat.signals: if path not in <port>.signals: fail
    for n in au.walk_no_nested(fbc.node):
        if isinstance(n, ast.For) and ast.unparse(n.iter).replace(".keys()", "") in ("flat.signals", "list(flat.signals)"):
            tv = ast.unparse(n.target)
            for m in ast.walk(n):
                if isinstance(m, ast.If) and ast.unparse(m.test) == f"{tv} not in flat_bundle_port.signals" and au.raises(m.body, noret):
                    return True
    # form 2: extra = [p for p in flat.signals if p not in port.signals]; if extra: fail
    for n in au.walk_no_nested(fbc.node):
        if isinstance(n, ast.If) and au.raises(n.body, noret):
            t = au.expand(n.test, {k: v for k, v in defs.items() if k in au.names_in(n.test) and k not in ('flat', 'flat_bundle_port')}, depth=1)
            s = ast.unparse(t)
            if "flat.signals" in s and "not in flat_bundle_port.signals" in s:
                return True
            # set difference / key-set comparison
            if "flat.signals" in s and "flat_bundle_port.signals" in s and any(op in s for op in (" - ", " != ", "difference", "issubset", " <= ")):
                return True
    return False


# --------------------------------------------------------------------------
# 6: no dead guards
# --------------------------------------------------------------------------


def dead_guards(repo: Repo, R, rule: str, flags):
    """Every flag attribute that a rejecting guard tests has, somewhere in the
    library, a store of a value that makes the guard fire."""
    for flag, cls, rel in flags:
        writers = []
        for fi in repo.funcs_in("hdl21/"):
            for n in ast.walk(fi.node):
                if isinstance(n, (ast.Assign, ast.AnnAssign)):
                    tgts = n.targets if isinstance(n, ast.Assign) else [n.target]
                    for t in tgts:
                        if isinstance(t, ast.Attribute) and t.attr == flag and n.value is not None:
                            v = ast.unparse(n.value)
                            if fi.name in ("__init__", "__post_init__") and v in ("None", "False", "False  # FIXME"):
                                continue
                            if v in ("None", "False"):
                                continue
                            writers.append((fi, n, v))
        # restrict to writers on the right receiver kind
        rel_writers = [w for w in writers if _receiver_kind(w[0], w[1], flag) == cls]
        R.check(bool(rel_writers), rule, f"{rel}::{cls}.{flag}", rel,
                f"`{cls}.{flag}` is tested by a rejecting guard and is set by {[w[0].qual for w in rel_writers]}" if rel_writers else f"`{cls}.{flag}` is tested by a rejecting guard but nothing ever sets it to a rejecting value: the guard is dead",
                why="the freeze / elaboration-state guard can never reject")


def _receiver_kind(fi: FuncInfo, node, flag) -> Optional[str]:
    """Class of the object whose `flag` attribute the assignment writes, from the
    receiver's annotation or its conventional name; None when unknown."""
    tgts = node.targets if isinstance(node, ast.Assign) else [node.target]
    names = {"module": "Module", "m": "Module", "inst": "_Instance", "instance": "_Instance", "arr": "_Instance", "array": "_Instance",
             "bundle": "Bundle", "bundle_def": "Bundle", "b": "Bundle"}
    for t in tgts:
        if isinstance(t, ast.Attribute) and t.attr == flag and isinstance(t.value, ast.Name):
            nm = t.value.id
            if nm == "self" and fi.cls is not None:
                return fi.cls.name
            for a in fi.node.args.args:
                if a.arg == nm and a.annotation is not None:
                    ann = ast.unparse(a.annotation)
                    for k in ("BundleInstance", "Module", "Bundle", "_Instance", "Instance"):
                        if k in ann:
                            return k
            if nm in names:
                return names[nm]
    return None
