"""C15 — PDK compilation swaps device targets and nothing else.

F7 table validation, exhaustive over every entry of every PDK device table and
every logic-cell definition, plus walker effect rules, selection/defaults/cache
rules and the registry API.  Sizing arithmetic and netlisting of compiled
designs are not decided.
"""

from __future__ import annotations

import ast
from typing import Dict, List, Optional, Set, Tuple

from ..core import AnalysisError, ClassInfo, FuncInfo, Repo, dotted
from .. import au, pat, fde
from .common import *  # noqa
from .common import key_of, noreturn_set
from . import protofacts as pf
from . import pdktables as pt
from . import shared
from .shared import path_conditions, enclosing

NEEDS_PDKS = True

F_SAMPLE = "hdl21/pdk/sample_pdk/pdk.py"
F_ASAP7 = "pdks/Asap7/asap7_hdl21/pdk.py"
WALKERS = [(F_WALKER, "HierarchyWalker"), (F_SAMPLE, "SamplePdkWalker"), (pt.PDKS["Sky130"]["logic"], "Sky130Walker"), (pt.PDKS["Gf180"]["logic"], "Gf180Walker"), (F_ASAP7, "Asap7Walker")]


def check(repo: Repo, R) -> None:
    R.run(walkers_only_swap_targets, repo, R)
    models = {n: pt.load(repo, n) for n in ("Sky130", "Gf180")}
    prims = pf.hdl21_primitives(repo)
    for n, m in models.items():
        R.run(port_compat, repo, R, m, prims)
        R.run(selection, repo, R, m)
        R.run(defaults_and_dispatch, repo, R, m)
        R.run(caches, repo, R, m)
        R.run(literal_sizes_scaled_whole, repo, R, m)
        R.run(ambiguity_guard_from_two, repo, R, m)
        R.run(param_keywords_are_fields, repo, R, m)
    R.run(small_pdks, repo, R, prims)
    R.run(registry, repo, R)
    R.run(logic_cells, repo, R)
    R.run(lookup_failures_converted, repo, R)
    R.run(request_not_mutated, repo, R)
    R.floor("C15.1-walkers-only-swap-targets", 5)
    R.floor("C15.2-port-compatibility", 150)
    R.floor("C15.3-selection-well-formed", 8)
    R.floor("C15.4-caches", 10)
    R.floor("C15.6-logic-cells", 8)


# --------------------------------------------------------------------------


def walkers_only_swap_targets(repo: Repo, R):
    rule = "C15.1-walkers-only-swap-targets"
    for rel, cls in WALKERS:
        ci = repo.cls(rel, cls)
        bad = []
        for m in ci.methods.values():
            for n in ast.walk(m.node):
                if isinstance(n, ast.Attribute) and isinstance(n.ctx, (ast.Store, ast.Del)):
                    recv = ast.unparse(n.value)
                    if recv == "self" or recv.startswith("CACHE") or recv.startswith("self."):
                        continue
                    if n.attr == "of" and m.name == "visit_instance" and cls == "HierarchyWalker":
                        continue
                    bad.append(f"{m.name}: store to `{ast.unparse(n)}`")
                if isinstance(n, ast.Call) and isinstance(n.func, ast.Attribute) and n.func.attr in ("connect", "disconnect", "replace", "add", "pop", "popitem") and not ast.unparse(n.func.value).startswith(("modparams", "self.")):
                    if ast.unparse(n.func.value) in ("modparams",):
                        continue
                    bad.append(f"{m.name}: `{ast.unparse(n)[:60]}`")
        visits = sorted(k for k in ci.methods if k.startswith("visit_"))
        only = cls == "HierarchyWalker" or visits == ["visit_primitive_call"]
        R.check(not bad and only, rule, f"{rel}::{cls}", ci.site,
                f"{cls}: no writes to design objects other than Instance.of, no connect/replace/disconnect/add ({'ok' if not bad else bad[0]}); overrides only visit_primitive_call ({visits if cls != 'HierarchyWalker' else 'base class'})",
                why="compilation changes hierarchy, instance names or connections; or non-primitive targets are rewritten")
    vi = repo.func(F_WALKER, "HierarchyWalker.visit_instance")
    ok = bool(pat.find("inst.of = self.visit_instantiable(inst.of)", vi.node))
    R.check(ok, rule, key_of(vi), vi.site, f"visit_instance replaces the target by the visit of the same target: {ok}", why="instances get another instance's target")
    vm = repo.func(F_WALKER, "HierarchyWalker.visit_module")
    ok = any(isinstance(n, ast.For) and ast.unparse(n.iter) == "module.instances.values()" and bool(pat.find("self.visit_instance(inst)", n)) for n in au.walk_no_nested(vm.node)) and ast.unparse(vm.node.body[-1]) == "return module"
    R.check(ok, rule, key_of(vm), vm.site, f"visit_module visits every instance and returns the same module: {ok}", why="some instances are not compiled, or modules are replaced")
    early = [n for n in au.walk_no_nested(vm.node) if isinstance(n, ast.Return) and n is not vm.node.body[-1]]
    R.check(not early, rule, key_of(vm, "no-memo"), vm.site,
            "visit_module has no early exit: a module is (re)visited on every walk" if not early else f"visit_module returns early at line {early[0].lineno}: some walks skip the module",
            why="a later compile (another PDK, a retry after an error, any second walker) silently skips modules an earlier walk has entered: their primitives stay uncompiled")
    for rel2, cls2 in WALKERS:
        ci2 = repo.cls(rel2, cls2)
        shared_state = [k for k, v in ci2.class_attrs.items() if isinstance(v, (ast.Dict, ast.List, ast.Set)) or (isinstance(v, ast.Call) and (dotted(v.func) or "") in ("set", "dict", "list", "defaultdict", "WeakSet"))]
        R.check(not shared_state, rule, f"{rel2}::{cls2}::class-state", ci2.site,
                f"{cls2} keeps no mutable class-level state" if not shared_state else f"{cls2} has mutable class attribute(s) {shared_state}, shared by every walker instance for the life of the process",
                why="what one walk records changes what every later walk (of any PDK) does")
    vt = repo.func(F_WALKER, "HierarchyWalker.visit_instantiable")
    h = shared.isinstance_handled if False else None
    from .common import isinstance_handled, union
    hs = isinstance_handled(repo, vt, subject="of")
    inst = set(union(repo, F_INSTANTIABLE, "InstantiableUnion"))
    R.check(inst <= hs and au.default_raises(vt.node.body), rule, key_of(vt), vt.site, f"visit_instantiable dispatches over {sorted(hs)} ⊇ {sorted(inst)}; else raises", why="a target kind is dropped (None) by the walk")
    for nm, arg in (("visit_external_module_call", "call"), ("visit_primitive_call", "call")):
        f = repo.func(F_WALKER, f"HierarchyWalker.{nm}")
        ok = ast.unparse(f.node.body[-1]) == f"return {arg}"
        R.check(ok, rule, key_of(f), f.site, f"the base {nm} returns its argument unchanged: {ok}", why="untouched instances lose their target")
    ve = repo.func(F_WALKER, "HierarchyWalker.visit_elaboratables")
    srcp = ve.node.args.args[1].arg
    els = [c for c in au.calls_in(ve.node) if isinstance(c.func, ast.Name) and c.func.id == "elaborate" and len(c.args) == 1]
    visits = [c for c in au.calls_in(ve.node) if isinstance(c.func, ast.Attribute) and c.func.attr.startswith("visit_") and ast.unparse(c.func.value) == "self" and len(c.args) == 1]
    unel = [c for c in visits if not any(ast.unparse(e.args[0]) in (srcp, ast.unparse(c.args[0])) and shared.executes_before(ve.node, e, c) for e in els)]
    ok = bool(visits) and not unel
    R.check(ok, rule, key_of(ve), ve.at(unel[0]) if unel else ve.site, f"whatever is walked has been elaborated first, on every path — a single design and each entry of a list alike: {ok}" + (f" (`{ast.unparse(unel[0])}` is reached without it)" if unel else ""),
            why="an unelaborated module keeps its instance arrays outside `instances`: the walk never sees them, and they are exported still pointing at the generic primitive")
    # PDK walkers: everything that is not a mapped primitive passes through
    for rel, cls in WALKERS[1:]:
        ci = repo.cls(rel, cls)
        vp = ci.methods["visit_primitive_call"]
        last = vp.node.body[-1]
        passthru = False
        if isinstance(last, ast.Return):
            passthru = ast.unparse(last.value) == "call"
        if isinstance(last, ast.If):
            cur = last
            while len(cur.orelse) == 1 and isinstance(cur.orelse[0], ast.If):
                cur = cur.orelse[0]
            passthru = bool(cur.orelse) and ast.unparse(cur.orelse[-1]) == "return call"
        R.check(passthru, rule, key_of(vp, "passthrough"), vp.site, f"{cls}: primitives it does not map are returned unchanged: {passthru}", why="ideal elements and already compiled devices are dropped or altered")


def port_compat(repo: Repo, R, m: pt.PdkModel, prims):
    rule = "C15.2-port-compatibility"
    cfg = pt.PDKS[m.name]
    for prim, meth in sorted(m.dispatch.items()):
        t = m.method_table.get(meth)
        if t is None:
            raise AnalysisError(f"idiom-unknown: cannot determine the device table consulted by {m.name}.{meth}")
        pp = prims[prim]["ports"]
        for e in m.tables[t]:
            if e.ports is None:
                raise AnalysisError(f"idiom-unknown: ports of {m.name}:{t}[{e.key}] could not be evaluated")
            ok = sorted(e.ports) == sorted(pp)
            R.check(ok, rule, f"pdks/{m.name}:{t}[{e.key.replace(chr(32), str())}]x{prim}", f"{cfg['dicts']}:{e.line}",
                    f"{m.name} {t}[{e.key}] = {e.modname} has ports {e.ports}; routed from primitive {prim} with ports {pp}",
                    why="the compiled instance keeps the primitive's connections: a device port stays unconnected, or a connection names a port the device does not have")
    # every table reachable from the dispatch has entries
    R.note(f"{m.name}: tables {dict((k, len(v)) for k, v in m.tables.items())}; dispatch {m.dispatch}")


def _body(fi):
    return [st for st in fi.node.body if not (isinstance(st, ast.Expr) and isinstance(st.value, ast.Constant))]


def selection(repo: Repo, R, m: pt.PdkModel):
    rule = "C15.3-selection-well-formed"
    noret = noreturn_set(repo)
    w = m.walker
    mm = w.methods.get("mos_module")
    if mm is None:
        raise AnalysisError(f"anchor-vanished: {m.name} mos_module")
    env = au.local_env(mm.node)
    # selector classes vs key classes
    args = None
    for st in au.stmts(mm.node):
        if isinstance(st, ast.Assign) and ast.unparse(st.targets[0]) == "args" and isinstance(st.value, ast.Tuple):
            args = st.value
    if args is None:
        raise AnalysisError(f"idiom-unknown: selector tuple `args` in {mm.site}")
    sel_classes = []
    from .c01 import branch_defs

    for e in args.elts:
        xs = [au.expand(e, env, depth=2)]
        if isinstance(e, ast.Name) and e.id not in env:
            xs = [v for v, _c in branch_defs(mm.node, e.id)]  # defined on both branches of an if/else (canonical conditional expression)
        cls = None
        for x in xs:
            for n in ast.walk(x):
                d = dotted(n) if isinstance(n, ast.Attribute) else None
                if d and d.split(".")[-2:-1] and d.split(".")[-2] in ("MosType", "MosFamily", "MosVth"):
                    cls = d.split(".")[-2]
        sel_classes.append(cls)
    key_classes = [sorted({el.split(".")[0] for el in e.key_elems if "." in el and el.split(".")[0] in ("MosType", "MosFamily", "MosVth")}) for e in m.tables["xtors"]]
    bad = [e.key for e, kc in zip(m.tables["xtors"], key_classes) if not set(c for c in sel_classes if c) <= set(kc)]
    R.check(not bad and None not in sel_classes, rule, f"pdks/{m.name}::mos_module::selector-shape", mm.site,
            f"{m.name}: selection tests membership of one value each of {sel_classes} in the key; every xtors key carries " + ("all of them" if not bad else f"NOT all of them, e.g. {bad[0]}"),
            why="selection by the documented type/family/threshold parameters can never match any device")
    # for/else: entry matches iff every selector is in its key
    loop_ok = False
    for lp in au.walk_no_nested(mm.node):
        if isinstance(lp, ast.For) and ast.unparse(lp.iter) == "xtors.items()":
            inner = [n for n in lp.body if isinstance(n, ast.For)]
            if inner and ast.unparse(inner[0].iter) == "args":
                i = inner[0]
                brk = len(i.body) == 1 and isinstance(i.body[0], ast.If) and ast.unparse(i.body[0].test) == f"{ast.unparse(i.target)} in {ast.unparse(lp.target.elts[0])}" and not [x for x in i.body[0].body if not isinstance(x, ast.Pass)] and len(i.body[0].orelse) == 1 and isinstance(i.body[0].orelse[0], ast.Break)
                els = len(i.orelse) == 1 and ast.unparse(i.orelse[0]) == "match = True"
                init = any(ast.unparse(s) == "match = False" for s in lp.body)
                use = any(isinstance(s, ast.If) and ast.unparse(s.test) == "match" and bool(pat.find("subset[$K] = $V", s)) for s in lp.body)
                loop_ok = brk and els and init and use
    if not loop_ok:
        # the same selection as a comprehension: {k: v for k, v in xtors.items() if all(a in k for a in args)}
        for c, b in pat.find("{$K: $V for $K, $V in xtors.items() if all(($A in $K for $A in args))}", mm.node):
            loop_ok = True
    R.check(loop_ok, rule, f"pdks/{m.name}::mos_module::match-loop", mm.site, f"{m.name}: an entry is selected iff every selector value is in its key (for/else): {loop_ok}", why="devices that miss one selector are selected (or matching ones are not)")
    # miss -> RuntimeError before next(iter())
    nx = pat.find("next(iter(subset.values()))", mm.node)

    ok = (not nx) or any(isinstance(n, ast.If) and ast.unparse(n.test) in ("subset", "len(subset)", "0 < len(subset)") and au.raises(n.orelse, noret) and any(t is n.test and pol for t, pol in path_conditions(mm.node, nx[0][0])) for n in au.walk_no_nested(mm.node))
    R.check(ok, rule, f"pdks/{m.name}::mos_module::no-match-raises", mm.site,
            f"{m.name}: a request no device satisfies raises a descriptive error before the first match is taken: {ok}" if ok else f"{m.name}: `next(iter(subset.values()))` is reached with an empty subset: StopIteration instead of a descriptive error",
            why="a request no device satisfies raises a bare StopIteration (swallowed by enclosing generators/for-loops)")
    # model-name branch
    mdl = any(isinstance(n, ast.If) and ast.unparse(n.test) == "params.model is None" and any(isinstance(x, ast.Try) and any(au.raises(h.body, noret) for h in x.handlers) for x in n.orelse) for n in au.walk_no_nested(mm.node))
    # ... where "in the keys" is tuple membership of the whole model name in the key, not a test on one of its components
    exact = False
    for n in au.walk_no_nested(mm.node):
        if isinstance(n, (ast.ListComp, ast.GeneratorExp, ast.DictComp)) and len(n.generators) == 1 and ast.unparse(n.generators[0].iter) == "xtors.items()" and isinstance(n.generators[0].target, ast.Tuple):
            kv = ast.unparse(n.generators[0].target.elts[0])
            tests = [ast.unparse(c) for c in n.generators[0].ifs]
            if any("params.model" in t for t in tests):
                exact = tests == [f"params.model in {kv}"]
    mdl = mdl and exact
    R.check(mdl, rule, f"pdks/{m.name}::mos_module::by-model", mm.site, f"{m.name}: selection by model name looks the name up in the keys and raises a RuntimeError on a miss: {mdl}", why="an unknown model name raises IndexError")
    # dict-keyed tables: miss -> RuntimeError
    for meth, t in sorted(m.method_table.items()):
        if t == "xtors":
            continue
        helper = w.methods.get(meth.replace("_call", ""))
        if helper is None:
            continue
        get = bool(pat.find(f"{t}.get(params.model)", helper.node))
        miss = any(isinstance(n, ast.If) and pat.match("$M is None", n.test) is not None and shared.prov_text(helper.node, n.test.left) == f"{t}.get(params.model)" and au.raises(n.body, noret) for n in au.walk_no_nested(helper.node))
        if not get:
            # canonical spelling of the look-up: `if params.model in <table>: return <table>[params.model]` else raise
            rets_ = shared.returns_of(helper.node)
            get = bool(rets_) and all(r_.value is not None and shared.prov_text(helper.node, r_.value) == f"{t}[params.model]" and shared.presence(helper.node, r_, t, "params.model") is True for r_ in rets_)
            miss = shared.raises_under(helper.node, [(f"params.model in {t}", False)], noret)
        R.check(get and miss, rule, f"pdks/{m.name}::{helper.name}", helper.site, f"{m.name}.{helper.name}: looks `params.model` up in `{t}` ({get}) and raises a descriptive error on a miss ({miss})", why="an unknown model name compiles to None or raises KeyError")


def defaults_and_dispatch(repo: Repo, R, m: pt.PdkModel):
    rule = "C15.3-selection-well-formed"
    w = m.walker
    for meth, t in sorted(m.method_table.items()):
        f = w.methods[meth]
        entries = m.tables[t]
        ptypes = {e.paramtype for e in entries}
        # paramtype dispatch completeness
        branches: Dict[str, ast.If] = {}
        for n in au.walk_no_nested(f.node):
            if isinstance(n, ast.If):
                mm = pat.match("mod.paramtype == $T", n.test)
                if mm is not None:
                    cur = n
                    while True:
                        m2 = pat.match("mod.paramtype == $T", cur.test)
                        if m2 is not None:
                            branches[ast.unparse(m2["T"])] = cur
                        if len(cur.orelse) == 1 and isinstance(cur.orelse[0], ast.If):
                            cur = cur.orelse[0]
                        else:
                            if cur.orelse:
                                branches["<else>"] = cur
                            break
                    break
        if branches:
            covered = set(branches) - {"<else>"}
            # resolve aliases (Sky130MosParams = MosParams)
            missing = sorted(p for p in ptypes if p not in covered and "<else>" not in branches)
            R.check(not missing, rule, f"pdks/{m.name}::{meth}::paramtype-dispatch", f.site,
                    f"{m.name}.{meth} dispatches on mod.paramtype over {sorted(covered)}; parameter types in `{t}`: {sorted(ptypes)}" + (f"; UNCOVERED {missing}" if missing else ""),
                    why="for a device of an uncovered parameter type `modparams` is never bound: UnboundLocalError instead of a compiled device")
        # defaults tables complete for the module names they are indexed with
        for c in au.calls_in(f.node):
            dname = None
            if isinstance(c.func, ast.Attribute) and c.func.attr == "use_defaults" and len(c.args) == 3 and ast.unparse(c.args[1]) == "mod.name":
                dname = ast.unparse(c.args[2])
            if dname is None:
                continue
            need = {e.modname for e in entries}
            conds = path_conditions(f.node, c)
            for tst, pol in conds:
                mm = pat.match("mod.paramtype == $T", tst)
                if mm is not None and pol:
                    need = {e.modname for e in entries if e.paramtype == ast.unparse(mm["T"])}
            have = m.defaults.get(dname)
            if have is None:
                raise AnalysisError(f"idiom-unknown: defaults table {dname} of {m.name}")
            missing = sorted(need - have)
            R.check(not missing, rule, f"pdks/{m.name}::{meth}::{dname}", f.at(c), f"{m.name}.{meth}: `{dname}` has an entry for each of the {len(need)} device names it is indexed with" + (f"; MISSING {missing[:3]}" if missing else ""),
                    why="a device without given sizes raises KeyError instead of taking the PDK default")
        for n in au.walk_no_nested(f.node):
            if isinstance(n, ast.Subscript) and ast.unparse(n.slice) == "mod.name" and isinstance(n.value, ast.Name) and n.value.id in m.defaults:
                dname = n.value.id
                need = {e.modname for e in entries}
                for tst, pol in path_conditions(f.node, n):
                    mm = pat.match("mod.paramtype == $T", tst)
                    if mm is not None and pol:
                        need = {e.modname for e in entries if e.paramtype == ast.unparse(mm["T"])}
                missing = sorted(need - m.defaults[dname])
                R.check(not missing, rule, f"pdks/{m.name}::{meth}::{dname}", f.at(n), f"{m.name}.{meth}: `{dname}[mod.name]` is defined for each of the {len(need)} device names" + (f"; MISSING {missing[:3]}" if missing else ""),
                        why="KeyError instead of the PDK default")
    ud = w.methods.get("use_defaults")
    if ud is not None:
        # by value: every returned pair is (w, l) with each component the given size when there is one, else the
        # default of the same position
        ok = given = True
        n_ret = 0
        for r_ in shared.returns_of(ud.node):
            for v_, cds in shared.alternatives(ud.node, r_.value, shared.path_conditions(ud.node, r_), at=r_):
                n_ret += 1
                if not (isinstance(v_, ast.Tuple) and len(v_.elts) == 2):
                    ok = given = False
                    continue
                cds = shared.resolved_conditions(ud.node, cds)
                for pos, dim in ((0, "w"), (1, "l")):
                    none = None
                    for t_, pol_ in cds:
                        if ast.unparse(t_) == f"params.{dim} is None":
                            none = pol_
                    e_ = v_.elts[pos]
                    # the same unit scaling may be applied to both components
                    if isinstance(e_, ast.Call) and ast.unparse(e_.func) == "self.scale_param" and len(e_.args) == 2 and isinstance(v_.elts[1 - pos], ast.Call) and ast.unparse(v_.elts[1 - pos].func) == "self.scale_param" and ast.unparse(e_.args[1]) == ast.unparse(v_.elts[1 - pos].args[1]):
                        e_ = e_.args[0]
                    txt = ast.unparse(e_)
                    if none is True:
                        ok = ok and txt == f"defaults[modname][{pos}]"
                    elif none is False:
                        given = given and txt == f"params.{dim}"
                    else:
                        ok = given = False
        ok, given = ok and n_ret > 0, given and n_ret > 0
        R.check(ok and given, rule, f"pdks/{m.name}::use_defaults", ud.site, f"{m.name}.use_defaults: given sizes are used ({given}); missing ones come from (width, length) of the PDK default for that device ({ok})", why="width and length defaults are exchanged, or given sizes are ignored")


def _paramclass_fields(repo: Repo, rel: str, name: str, depth: int = 0) -> Optional[Set[str]]:
    """The declared parameter names of the parameter class `name` as seen from file `rel` (aliases `A = B` and imports from
    hdl21's primitives followed); None when it is not a parameter class in reach."""
    try:
        sf = repo.file(rel)
    except Exception:
        return None
    node = sf.defs.get(name)
    if isinstance(node, ast.ClassDef):
        if not any((dotted(d) or "").split(".")[-1] == "paramclass" for d in node.decorator_list):
            return None
        out = set()
        for st in node.body:
            tg = st.targets[0] if isinstance(st, ast.Assign) and len(st.targets) == 1 else (st.target if isinstance(st, ast.AnnAssign) else None)
            if isinstance(tg, ast.Name) and isinstance(st.value, ast.Call) and (dotted(st.value.func) or "").split(".")[-1] == "Param":
                out.add(tg.id)
        return out
    if isinstance(node, (ast.Assign, ast.AnnAssign)) and isinstance(node.value, ast.Name) and depth < 3:
        return _paramclass_fields(repo, rel, node.value.id, depth + 1)
    if node is None and depth < 3:
        for cand in ([rel.rsplit("/", 1)[0] + "/pdk_data.py"] if not rel.endswith("pdk_data.py") else []) + ([F_PRIMS] if rel != F_PRIMS else []):
            got = _paramclass_fields(repo, cand, name, depth + 1)
            if got is not None:
                return got
    return None


def param_keywords_are_fields(repo: Repo, R, m: pt.PdkModel):
    """A device's parameter object is built from keywords the parameter class declares: a parameter class silently drops a
    keyword it does not know, so a misnamed one loses the value (the class default is exported instead)."""
    rule = "C15.3-selection-well-formed"
    w = m.walker
    n = 0
    for meth, f in sorted(w.methods.items()):
        for c in au.calls_in(f.node):
            if not isinstance(c.func, ast.Name) or not c.keywords or any(k.arg is None for k in c.keywords):
                continue
            fields = _paramclass_fields(repo, f.file.rel, c.func.id)
            if fields is None:
                continue
            n += 1
            unknown = sorted(k.arg for k in c.keywords if k.arg not in fields)
            R.check(not unknown, rule, f"pdks/{m.name}::{meth}::{c.func.id}-keywords", f.at(c),
                    f"{m.name}.{meth}: `{c.func.id}(..)` is given {sorted(k.arg for k in c.keywords)}; the class declares {sorted(fields)}" + (f" — UNKNOWN {unknown} (dropped without an error)" if unknown else ""),
                    why="the multiplier of a varactor is passed under the capacitor's keyword: it is ignored and every varactor is compiled with the default multiplier")
    if n < 3:
        raise AnalysisError(f"anchor-vanished: {m.name}: only {n} parameter-class constructions found in the walker (confirmed by reading: at least 3)")
    # sizes that depend on both dimensions use both
    for meth, f in sorted(w.methods.items()):
        for c in au.calls_in(f.node):
            for k in c.keywords:
                if k.arg not in ("area", "pj"):
                    continue
                v = shared.prov(f.node, k.value)
                dims = {("w" if (isinstance(x, ast.Name) and x.id == "w") or (isinstance(x, ast.Attribute) and x.attr == "w") else "l") for x in ast.walk(v)
                        if (isinstance(x, ast.Name) and x.id in ("w", "l")) or (isinstance(x, ast.Attribute) and x.attr in ("w", "l"))}
                R.check(dims == {"w", "l"}, rule, f"pdks/{m.name}::{meth}::{k.arg}-both-dimensions", f.at(c),
                        f"{m.name}.{meth}: `{k.arg}={ast.unparse(v)[:60]}` is computed from " + " and ".join(sorted(dims) or ["neither dimension"]) + " (an area / a perimeter depends on width and length)",
                        why="the junction perimeter of a diode is computed from the width twice: wrong for every non-square device, silently")


def ambiguity_guard_from_two(repo: Repo, R, m: pt.PdkModel):
    """A walker that refuses ambiguous selections refuses every one of them: two candidates are ambiguous."""
    rule = "C15.3-selection-well-formed"
    mm = m.walker.methods.get("mos_module")
    if mm is None:
        return
    guards = [n for n in au.walk_no_nested(mm.node) if isinstance(n, ast.If) and "len(subset)" in ast.unparse(n.test) and (au.raises(n.body) or au.raises(n.orelse))]
    if not guards:
        R.note(f"{m.name}.mos_module has no ambiguity guard (the first candidate in table order is taken)")
        return
    picks = [r_ for r_ in shared.returns_of(mm.node) if r_.value is not None and "subset" in ast.unparse(r_.value)]
    two = bool(picks) and all(shared.conds_imply(list(shared.path_conditions(mm.node, r_)), [(shared.parse_cond("len(subset) == 2"), False)]) is True for r_ in picks)
    R.check(two, rule, key_of(mm, "two-candidates-are-ambiguous"), mm.at(guards[0]), f"{m.name}.mos_module: a request that two devices satisfy is refused as not well-defined: {two} (guard `{ast.unparse(guards[0].test)}`)",
            why="h.Mos(tp=PMOS) with exactly two matching devices silently compiles to whichever comes first in the table instead of raising")


def literal_sizes_scaled_whole(repo: Repo, R, m: pt.PdkModel):
    """Where a PDK rescales a size given as a Literal expression, the factor applies to the whole expression: the text is
    put in its own parentheses before anything is appended to it."""
    rule = "C15.3-selection-well-formed"
    sp = m.walker.methods.get("scale_param")
    if sp is None:
        return
    n = 0
    for c in au.calls_in(sp.node):
        if not (isinstance(c.func, ast.Attribute) and c.func.attr == "Literal" or isinstance(c.func, ast.Name) and c.func.id == "Literal") or len(c.args) != 1:
            continue
        v = shared.prov(sp.node, c.args[0])
        if not isinstance(v, ast.JoinedStr):
            continue
        parts = v.values
        for i, part in enumerate(parts):
            if isinstance(part, ast.FormattedValue) and ast.unparse(part.value).endswith(".text"):
                before = parts[i - 1].value if i > 0 and isinstance(parts[i - 1], ast.Constant) else ""
                after = parts[i + 1].value if i + 1 < len(parts) and isinstance(parts[i + 1], ast.Constant) else ""
                alone = not before.strip() and not after.strip()
                wrapped = before.rstrip().endswith("(") and after.lstrip().startswith(")")
                n += 1
                R.check(alone or wrapped, rule, key_of(sp, "literal-scaled-whole"), sp.at(c),
                        f"{m.name}.scale_param builds `{ast.unparse(v)}`: the given expression stands in parentheses of its own: {alone or wrapped}",
                        why="a compound size such as `wn + dw` becomes `(wn + dw * 1e6)`: only the last term is scaled, the device is sized wrongly")
    if n < 1:
        raise AnalysisError(f"idiom-unknown: {sp.site} builds no Literal from the given expression's text")


def caches(repo: Repo, R, m: pt.PdkModel):
    rule = "C15.4-caches"
    w = m.walker
    for meth in sorted(set(m.dispatch.values())):
        f = w.methods[meth]

        rets = shared.returns_of(f.node)
        reads = set()
        for r in rets:
            mt = pat.match("CACHE.$C[params]", r.value) if False else None
            if isinstance(r.value, ast.Subscript) and ast.unparse(r.value.slice) == "params" and ast.unparse(r.value.value).startswith("CACHE."):
                c = ast.unparse(r.value.value)
                reads.add(c if shared.cond_match(f.node, r, f"params in {c}", True, use_prov=False) else c + "?")
        wst = [st for st in au.stmts(f.node) if isinstance(st, ast.Assign) and isinstance(st.targets[0], ast.Subscript) and ast.unparse(st.targets[0].value).startswith("CACHE.") and ast.unparse(st.targets[0].slice) == "params"]
        writes = {ast.unparse(st.targets[0].value) for st in wst}
        # what is stored is what is returned on a miss (however many branches build it), and it is the device called with
        # the parameters built here
        ret_ok = len(writes) == 1 and shared.memo_discipline(f.node, next(iter(writes)), "params")[0]
        call_ok = bool(wst) and all(pat.match("$MOD($P)", v) is not None for st in wst for v, _c in shared.alternatives(f.node, st.value, shared.path_conditions(f.node, st), depth=2, at=st))
        ok = len(reads) == 1 and reads == writes and ret_ok and call_ok
        R.check(ok, rule, f"pdks/{m.name}::{meth}", f.site, f"{m.name}.{meth}: reads {sorted(reads)} and writes {sorted(writes)}, keyed by the whole parameter object; returns the (cached) call: {ret_ok and call_ok}",
                why="equal primitive parameters give different device calls (or another device class's call is returned)")


def small_pdks(repo: Repo, R, prims):
    # sample PDK and ASAP7: per-walker caches, same shape
    rule = "C15.4-caches"
    for rel, cls in WALKERS[1:2] + WALKERS[4:5]:
        ci = repo.cls(rel, cls)
        f = ci.methods["mos_module_call"]
        rd, why_ = shared.memo_discipline(f.node, "self.mos_modcalls", "params")
        wr = rd
        R.check(rd and wr, rule, f"{rel}::{cls}.mos_module_call", f.site, f"{cls}.mos_module_call reads and writes its own cache under the whole parameter object: {rd and wr}", why="equal primitive parameters give different device calls")
    rule = "C15.2-port-compatibility"
    sf = repo.file(F_SAMPLE)
    n = 0
    for name in ("Pmos", "Nmos", "PmosModel", "NmosModel"):
        v = pf.module_value(repo, sf, name)
        ports = None
        if isinstance(v, ast.Call):
            kw = {k.arg: k.value for k in v.keywords}
            pl = kw.get("port_list")
            if isinstance(pl, ast.Call) and pl.args and ast.unparse(pl.args[0]) == "Mos.port_list":
                ports = prims["Mos"]["ports"]
        n += 1
        R.check(ports == prims["Mos"]["ports"], rule, f"{F_SAMPLE}::{name}xMos", F_SAMPLE, f"sample PDK {name}: ports are a copy of the Mos primitive's port list: {ports is not None}", why="compiled instance has unconnected or unknown ports")
    sfa = repo.file(F_ASAP7)
    hits = pat.find("h.ExternalModule(*$_)", sfa.tree)
    ok = False
    tmpl = None
    for c, _b in hits:
        kw = {k.arg: k.value for k in c.keywords}
        ok = ast.unparse(kw.get("port_list")) == "copy.deepcopy(Mos.port_list)"
        lp = enclosing(sfa.tree, c, (ast.For,))
    R.check(ok, rule, f"{F_ASAP7}::modulesxMos", F_ASAP7, f"ASAP7 devices: ports are a copy of the Mos primitive's port list: {ok}", why="compiled instance has unconnected or unknown ports")
    # name template uses every loop variable's short name
    rule7 = "C15.7-module-name-templates"
    loops = [n for n in sfa.tree.body if isinstance(n, ast.For)]
    found = False
    for lp in loops:
        inner = [n for n in lp.body if isinstance(n, ast.For)]
        if not inner:
            continue
        names = [ast.unparse(lp.target.elts[1]), ast.unparse(inner[0].target.elts[1])] if isinstance(lp.target, ast.Tuple) and isinstance(inner[0].target, ast.Tuple) else []
        keys = [ast.unparse(lp.target.elts[0]), ast.unparse(inner[0].target.elts[0])] if names else []
        for st in inner[0].body:
            if isinstance(st, ast.Assign) and ast.unparse(st.targets[0]) == "modname" and isinstance(st.value, ast.JoinedStr):
                used = [ast.unparse(v.value) for v in st.value.values if isinstance(v, ast.FormattedValue)]
                found = True
                ok = used == names
                R.check(ok, rule7, f"{F_ASAP7}::modname", f"{F_ASAP7}:{st.lineno}", f"ASAP7 module names are built from {used}; the short-name loop variables are {names} (enum keys {keys})",
                        why="module names contain the enum repr (`MosType.NMOSmos_rvt`): the netlist names a device the PDK does not define")
        # lookup table keyed by the enum pair
        ok = bool(pat.find(f"_mos_modules[({keys[0]}, {keys[1]})] = mod", inner[0])) if keys else False
        R.check(ok, rule7, f"{F_ASAP7}::lookup-key", F_ASAP7, f"ASAP7 lookup table is keyed by the (type, threshold) pair of the module being created: {ok}", why="parameters select another device")
    if not found:
        raise AnalysisError(f"idiom-unknown: ASAP7 module-name template in {F_ASAP7}")
    mm = repo.func(F_ASAP7, "Asap7Walker.mos_module")
    ok = bool(pat.find("_mos_modules.get((params.tp, params.vth), None)", mm.node)) and any(isinstance(n, ast.If) and ast.unparse(n.test) == "mod is None" and au.raises(n.body) for n in au.walk_no_nested(mm.node))
    if not ok:
        # canonical spelling of the look-up (membership test, then index)
        rets_ = shared.returns_of(mm.node)
        ok = bool(rets_) and all(r_.value is not None and shared.prov_text(mm.node, r_.value) in ("_mos_modules[params.tp, params.vth]", "_mos_modules[(params.tp, params.vth)]") for r_ in rets_) and shared.raises_under(mm.node, [("(params.tp, params.vth) in _mos_modules", False)])
    R.check(ok, "C15.3-selection-well-formed", key_of(mm), mm.site, f"ASAP7: device looked up by (type, threshold); a miss raises: {ok}", why="unknown combination compiles to None")
    sm = repo.func(F_SAMPLE, "SamplePdkWalker.mos_module")
    from .. import fde

    try:
        tab = fde.decision_table(_body(sm), [("pmos", lambda t: ast.unparse(t) in ("params.tp == MosType.PMOS", "MosType.PMOS == params.tp"))], ["<return>"], lambda v: ast.unparse(v), tolerant=True)
        ok = tab[(True,)]["<return>"] == "Pmos" and tab[(False,)]["<return>"] == "Nmos"
    except fde.Unknown:
        ok = False
    R.check(ok, "C15.3-selection-well-formed", key_of(sm), sm.site, f"sample PDK: PMOS -> Pmos, otherwise Nmos: {ok}", why="NMOS and PMOS are exchanged")
    sp = repo.func(F_SAMPLE, "SamplePdkWalker.mos_params")
    want = {"w": "params.w or 1 * µ", "l": "params.l or 1 * µ", "m": "params.mult or 1", "nf": "params.nf or 1"}
    import unicodedata
    nf = lambda x: unicodedata.normalize("NFKC", x)  # identifiers are NFKC-normalised by the parser (µ -> μ)
    srets = shared.returns_of(sp.node)
    ok = False
    if len(srets) == 1:
        rv = shared.prov(sp.node, srets[0].value)
        ok = isinstance(rv, ast.Call) and ast.unparse(rv.func) == "SamplePdkMosParams" and not rv.args and {k.arg: nf(ast.unparse(k.value)) for k in rv.keywords} == {k: nf(v) for k, v in want.items()}
    R.check(ok, "C15.3-selection-well-formed", key_of(sp), sp.site, f"sample PDK: given sizes or the defaults, each passed to the parameter of the same meaning: {ok}", why="width/length or multiplier/fingers are exchanged")


def registry(repo: Repo, R):
    rule = "C15.5-registry-api"
    ci = repo.cls(F_PDK, "_PdkManager")
    attrs = shared.instance_attrs(repo, ci)
    bad = []
    n = 0
    for fi in repo.funcs_in(F_PDK):
        for x in ast.walk(fi.node):
            if isinstance(x, ast.Attribute) and isinstance(x.value, ast.Name) and x.value.id == "_mgr":
                n += 1
                if x.attr not in attrs:
                    bad.append((fi, x))
    for fi, x in bad:
        R.bad(rule, key_of(fi, f"_mgr.{x.attr}"), fi.at(x), f"`_mgr.{x.attr}`: _PdkManager has no such attribute (has {sorted(a for a in attrs if not a.startswith('__'))})", "hdl21.pdk.compile(src, pdk=<module>) raises AttributeError")
    R.ok(rule, f"{F_PDK}::_mgr-uses", F_PDK, f"{n} uses of `_mgr.<attr>` in {F_PDK}, {len(bad)} to attributes that do not exist")
    fc = repo.func(F_PDK, "compile")
    arms = {"None": False, "str": False, "module": False}
    for x in au.walk_no_nested(fc.node):
        if isinstance(x, ast.If):
            t = ast.unparse(x.test)
            if t == "pdk is None" and bool(pat.find("pdk = default()", x)):
                arms["None"] = True
            if t == "isinstance(pdk, str)" and bool(pat.find("pdk = _mgr.names.get(pdk)", x)):
                arms["str"] = True
            if t == "isinstance(pdk, ModuleType)":
                calls = [c for c in au.calls_in(ast.Module(x.body, []))]
                arms["module"] = any(isinstance(repo.resolve_call(c, fc), FuncInfo) and repo.resolve_call(c, fc).name == "register" for c in calls)
    crets = shared.returns_of(fc.node)
    run = len(crets) == 1 and ast.unparse(crets[0].value) == "pdk.compile(src)" and shared.cond_match(fc.node, crets[0], "pdk is None", False, use_prov=False)
    R.check(all(arms.values()) and run, rule, key_of(fc), fc.site, f"compile(): PDK by default / by name / by module: {arms}; then runs that PDK's compile on the source: {run}", why="one of the three documented ways of naming the PDK fails")
    fr = repo.func(F_PDK, "register")
    ok = bool(pat.find("_mgr.modules.add(module)", fr.node)) and bool(pat.find("_mgr.names[module.__name__] = module", fr.node))
    R.check(ok, rule, key_of(fr), fr.site, f"register() records the module in the set and under its name: {ok}", why="a registered PDK cannot be found by name")
    adds = [c for c, _b in pat.find("_mgr.modules.add(module)", fr.node)] + [st for st in au.stmts(fr.node) if isinstance(st, ast.Assign) and ast.unparse(st.targets[0]).startswith("_mgr.names[")]
    late = [r_ for r_ in shared.raising_leaves(fr.node, noreturn_set(repo)) if any(shared.precedes(fr.node, a_, r_) for a_ in adds)]
    R.check(bool(adds) and not late, rule, key_of(fr, "recorded-after-checks"), fr.at(late[0]) if late else fr.site,
            "register() records a module only after every check on it has passed" if not late else f"register() can still refuse a module after recording it (`{ast.unparse(late[0])[:60]}`)",
            why="a module with a wrong compile() signature is refused once and stays registered: default() is ambiguous, the module is found by name, a second attempt is accepted")
    fsd = repo.func(F_PDK, "set_default")
    tp = fsd.node.args.args[0].arg
    stores = [st for st in au.stmts(fsd.node) if isinstance(st, ast.Assign) and ast.unparse(st.targets[0]) == "_mgr.default"]
    detail = []
    ok = bool(stores)
    is_mod = shared.parse_cond(f"isinstance({tp}, ModuleType)")
    for st in stores:
        if ast.unparse(st.value) != tp:
            ok = False
            detail.append(f"`{ast.unparse(st.value)}`")
            continue
        alts = shared.param_alternatives(fsd.node, tp, st)
        if alts is None:
            raise AnalysisError(f"idiom-unknown: {fsd.site}: how `{tp}` is bound where the default is stored")
        for v, cds in alts:
            cds = list(cds) + list(shared.path_conditions(fsd.node, st))
            if v is None:
                # the argument as given: anything that is not a PDK module has raised before this point
                good = shared.raises_under(fsd.node, [(ast.unparse(t), pol) for t, pol in cds] + [(f"isinstance({tp}, ModuleType)", False)], noreturn_set(repo))
                detail.append("the argument itself" + (" (a module: anything else has raised)" if good else " — NOT known to be a PDK module here"))
            else:
                vt = ast.unparse(v)
                good = vt in (f"_mgr.names.get({tp}, None)", f"_mgr.names.get({tp})", f"_mgr.names[{tp}]")
                detail.append(f"`{vt}`" + (" (the registered module of that name)" if good else " — NOT a look-up of the registered module"))
            ok = ok and good
    R.check(ok, rule, key_of(fsd), fsd.site, f"set_default() stores a registered PDK module whichever way it was named: {sorted(set(detail))}",
            why="set_default('name') stores the string: default() hands it out and compile() calls `.compile` on a str")
    fd = repo.func(F_PDK, "default")
    try:
        def m_d(t):
            s_ = ast.unparse(t)
            return True if s_ == "_mgr.default is None" else ("neg" if s_ == "_mgr.default is not None" else False)

        tab = fde.decision_table(_body(fd), [("nodefault", m_d), ("one", lambda t: ast.unparse(t) in ("len(_mgr.modules) == 1", "1 == len(_mgr.modules)"))], ["<return>"], lambda v: ast.unparse(v), tolerant=True)
        ok = tab[(False, False)]["<return>"] == tab[(False, True)]["<return>"] == "_mgr.default" and tab[(True, True)]["<return>"] == "next(iter(_mgr.modules))" and tab[(True, False)]["<return>"] in ("None", "<unset>")
    except fde.Unknown:
        ok = False
    R.check(ok, rule, key_of(fd), fd.site, f"default(): the explicit default, else the only registered PDK, else None: {ok}", why="with several PDKs registered an arbitrary (hash-ordered) one is used")


def logic_cells(repo: Repo, R):
    rule = "C15.6-logic-cells"
    total = 0
    for pdk, root in (("Sky130", "pdks/Sky130/sky130_hdl21/digital_cells/"), ("Gf180", "pdks/Gf180/gf180_hdl21/digital_cells/")):
        for rel, sf in sorted(repo.files.items()):
            if not rel.startswith(root) or rel.endswith("__init__.py"):
                continue
            names: Dict[str, int] = {}
            binds: Dict[str, int] = {}
            problems: List[str] = []
            n = 0
            for st in sf.tree.body:
                if not (isinstance(st, ast.Assign) and isinstance(st.value, ast.Call) and dotted(st.value.func) == "logic_module"):
                    continue
                n += 1
                c = st.value
                args = list(c.args)
                kw = {k.arg: k.value for k in c.keywords}
                modname = au.str_const(args[0]) if args else au.str_const(kw.get("modname"))
                terms = args[2] if len(args) > 2 else kw.get("terminals")
                bind = ast.unparse(st.targets[0])
                if modname is None or not isinstance(terms, (ast.List, ast.Tuple)):
                    problems.append(f"line {st.lineno}: not a literal definition")
                    continue
                ports = [au.str_const(e) for e in terms.elts]
                if modname in names:
                    problems.append(f"line {st.lineno}: module name {modname} already defined at line {names[modname]}")
                names[modname] = st.lineno
                if bind in binds:
                    problems.append(f"line {st.lineno}: Python name {bind} rebinds line {binds[bind]} (the earlier cell is unreachable)")
                binds[bind] = st.lineno
                if len(set(ports)) != len(ports) or None in ports or not ports:
                    problems.append(f"line {st.lineno}: {modname} has duplicate/invalid port names {ports}")
                if not modname.endswith("__" + bind) and not modname.endswith(bind):
                    problems.append(f"line {st.lineno}: binding `{bind}` is not the suffix of module name {modname}")
            total += n
            if n == 0:
                continue
            R.check(not problems, rule, f"{rel}::cells", rel, f"{pdk} {rel.split('/')[-1]}: {n} logic cells; module names unique, port names unique per cell, binding = suffix of module name" + ("" if not problems else f"; {len(problems)} problem(s), first: {problems[0]}"),
                    why="two cells share a module name (export refuses or merges them), or a cell has a duplicated port (one connection silently overwrites the other)")
    R.analysed["C15_logic_cells"] = total
    if total < 3000:
        raise AnalysisError(f"anchor-vanished: only {total} logic cell definitions found (expected > 3000)")
    # the factory gives each terminal one port, in order
    for pdk in ("Sky130", "Gf180"):
        f = repo.func(pt.PDKS[pdk]["data"], "logic_module")
        ok = bool(pat.find("[h.Port(name=i) for i in terminals]", f.node)) and bool(pat.find("h.ExternalModule(*$_)", f.node))
        kw = {}
        for c, _b in pat.find("h.ExternalModule(*$_)", f.node):
            kw = {k.arg: ast.unparse(k.value) for k in c.keywords}
        R.check(ok and kw.get("name") == "modname" and kw.get("domain") == "PDK_NAME", rule, key_of(f), f.site, f"{pdk}.logic_module: one port per terminal in order, named as given, module name = modname, domain = the PDK: {ok}", why="cells get other names or port orders than the library's")



_LOOKUP_SAMPLE = """
def f(self, params):
    try:
        return next(v for k, v in xtors.items() if params.model in k)
    except IndexError:
        raise RuntimeError("no such model")
"""


def _lookup_handler_mismatches(fn: ast.AST) -> List[Tuple[ast.Try, str]]:
    """try-blocks that turn a failed lookup into an error message, where the handler does not name what the lookup raises."""
    out = []
    for t in ast.walk(fn):
        if not isinstance(t, ast.Try) or not t.handlers:
            continue
        caught = set()
        for h in t.handlers:
            if h.type is None:
                caught.add("BaseException")
            else:
                for e in (h.type.elts if isinstance(h.type, ast.Tuple) else [h.type]):
                    caught.add(ast.unparse(e).split(".")[-1])
        if caught & {"Exception", "BaseException"}:
            continue
        body = ast.Module(t.body, [])
        raises = set()
        for n in ast.walk(body):
            if isinstance(n, ast.Call) and isinstance(n.func, ast.Name) and n.func.id == "next" and len(n.args) == 1:
                raises.add("StopIteration")
            if isinstance(n, ast.Subscript) and isinstance(n.ctx, ast.Load):
                if isinstance(n.value, (ast.List, ast.ListComp, ast.Tuple)) or (isinstance(n.value, ast.Call) and isinstance(n.value.func, ast.Name) and n.value.func.id in ("list", "tuple", "sorted")):
                    raises.add("IndexError")
                elif isinstance(n.value, (ast.Dict, ast.DictComp)):
                    raises.add("KeyError")
        lookupish = caught & {"IndexError", "KeyError", "StopIteration", "LookupError"}
        if not lookupish:
            continue
        covered = set(caught)
        if "LookupError" in caught:
            covered |= {"IndexError", "KeyError"}
        missing = raises - covered
        if missing:
            out.append((t, f"the lookup raises {sorted(missing)}, the handler catches {sorted(caught)}"))
        elif not raises and not any(isinstance(n, (ast.Subscript,)) for n in ast.walk(body)):
            out.append((t, f"nothing in the guarded block raises what the handler catches ({sorted(caught)})"))
    return out


def lookup_failures_converted(repo: Repo, R):
    rule = "C15.3-selection-well-formed"
    if len(_lookup_handler_mismatches(ast.parse(_LOOKUP_SAMPLE))) != 1:
        raise AnalysisError("self-check failed: the lookup/handler rule does not see its positive sample")
    n = 0
    for fi in repo.funcs_in("pdks/"):
        if "/tests/" in fi.file.rel or not any(isinstance(t, ast.Try) for t in ast.walk(fi.node)):
            continue
        n += 1
        mm = _lookup_handler_mismatches(fi.node)
        R.check(not mm, rule, key_of(fi, "lookup-failure-converted"), fi.at(mm[0][0]) if mm else fi.site,
                f"{fi.qual}: a failed lookup is caught by the handler that words the error" if not mm else f"{fi.qual}: {mm[0][1]}",
                why="a request no device satisfies escapes as a bare StopIteration / IndexError instead of the descriptive error")
    if n < 2:
        raise AnalysisError(f"anchor-vanished: only {n} PDK functions with a try block")


def request_not_mutated(repo: Repo, R):
    """Compiling does not change what was asked for: the parameter object of the instance being compiled (which is also
    the key of the walker's cache) is read, never written — neither directly nor through an alias of its __dict__."""
    rule = "C15.4-caches"
    MUT = ("pop", "popitem", "clear", "update", "setdefault", "__setitem__", "__delitem__")
    n = 0
    for fi in repo.funcs_in("pdks/"):
        if "/tests/" in fi.file.rel or fi.cls is None or not fi.cls.name.endswith("Walker"):
            continue
        ps = [a.arg for a in fi.node.args.args if a.arg in ("params", "call") or a.arg.endswith("params")]
        if not ps:
            continue
        n += 1
        bad = []
        for pn in ps:
            roots = {pn, f"{pn}.params"}
            def is_view(e):
                # vars(p), p.__dict__ : the object's own attribute dict
                if isinstance(e, ast.Call) and isinstance(e.func, ast.Name) and e.func.id == "vars" and len(e.args) == 1 and ast.unparse(e.args[0]) in roots:
                    return True
                if isinstance(e, ast.Attribute) and e.attr == "__dict__" and ast.unparse(e.value) in roots:
                    return True
                return False
            aliases = set()
            for st in au.walk_no_nested(fi.node):
                if isinstance(st, ast.Assign) and len(st.targets) == 1 and isinstance(st.targets[0], ast.Name) and (is_view(st.value) or ast.unparse(st.value) in roots):
                    aliases.add(st.targets[0].id)
            def touched(e):
                return is_view(e) or (isinstance(e, ast.Name) and e.id in aliases) or ast.unparse(e) in roots
            for x in au.walk_no_nested(fi.node):
                if isinstance(x, ast.Call) and isinstance(x.func, ast.Attribute) and x.func.attr in MUT and (is_view(x.func.value) or (isinstance(x.func.value, ast.Name) and x.func.value.id in aliases)):
                    bad.append(x)
                if isinstance(x, (ast.Assign, ast.AugAssign, ast.Delete)):
                    tgts = x.targets if isinstance(x, (ast.Assign, ast.Delete)) else [x.target]
                    for t in tgts:
                        if isinstance(t, (ast.Attribute, ast.Subscript)) and touched(t.value):
                            bad.append(x)
                if isinstance(x, ast.Call) and (dotted(x.func) or "") in ("setattr", "object.__setattr__", "delattr") and x.args and ast.unparse(x.args[0]) in roots | aliases:
                    bad.append(x)
        R.check(not bad, rule, key_of(fi, "request-not-mutated"), fi.at(bad[0]) if bad else fi.site,
                f"{fi.qual} reads its request parameters, never writes them" if not bad else f"`{ast.unparse(bad[0])[:80]}` changes the parameter object of the instance being compiled (also the cache key)",
                why="after one device was compiled its parameters (and cache key) have changed: an unequal later request hits the cache and gets the wrong device")
    if n < 6:
        raise AnalysisError(f"anchor-vanished: only {n} walker methods taking request parameters")
