"""Early rejection of slice indices, decided over the order types of the bounds.

A Slice is built before the width of its parent is known (a port reference, a signal of a generator still running):
whatever `parent[...]` refuses at that moment, it refuses for every width.  The property lets it refuse a range only
if the range selects no bit — so a construction-time test on the bounds is sound only if every range it rejects is
empty for every width its bounds fit in.

The tests in reach compare the bounds with each other, with 0 / -1 / None, and multiply them for their sign.  Such a
test has one value on each *order type* of (start, stop, step) relative to None, -1 and 0; the rule evaluates it on one
representative per order type (an abstract interpretation over a finite domain — the repository's code is not run)
and compares with what Python's own slice semantics select for the widths the bounds fit in.  A reported violation
names a concrete range that is rejected although it selects bits.
"""

from __future__ import annotations

import ast
import itertools
from typing import Dict, List, Optional, Tuple

from ..core import AnalysisError, FuncInfo, Repo
from .. import au
from .common import *  # noqa
from .common import key_of, noreturn_set
from . import shared

REPS = (None, 0, -1, 2, -2, 3, -3)
FIELDS = ("start", "stop", "step")


class Unknown(Exception):
    pass


def _field_of(e: ast.AST) -> Optional[str]:
    return e.attr if isinstance(e, ast.Attribute) and e.attr in FIELDS else None


def mentions_fields(e: ast.AST) -> bool:
    return any(_field_of(x) for x in ast.walk(e))


def evaluate(e: ast.AST, st: Dict[str, Optional[int]]):
    """Value of a test on a representative state; Unknown for anything but order / sign / None tests."""
    f = _field_of(e)
    if f:
        return st[f]
    if isinstance(e, ast.Constant):
        if e.value in (0, -1, None, True, False):
            return e.value
        raise Unknown(f"constant {e.value!r} (order types are taken relative to None, -1 and 0)")
    if isinstance(e, ast.UnaryOp):
        v = evaluate(e.operand, st)
        if isinstance(e.op, ast.Not):
            return not v
        if isinstance(e.op, ast.USub) and isinstance(e.operand, ast.Constant) and e.operand.value == 1:
            return -1
        raise Unknown(ast.unparse(e))
    if isinstance(e, ast.BoolOp):
        if isinstance(e.op, ast.And):
            r = True
            for v in e.values:
                r = evaluate(v, st)
                if not r:
                    return r
            return r
        r = False
        for v in e.values:
            r = evaluate(v, st)
            if r:
                return r
        return r
    if isinstance(e, ast.IfExp):
        return evaluate(e.body, st) if evaluate(e.test, st) else evaluate(e.orelse, st)
    if isinstance(e, ast.BinOp) and isinstance(e.op, ast.Mult):
        a, b = evaluate(e.left, st), evaluate(e.right, st)
        if a is None or b is None:
            raise TypeError("None in a product")
        # only the sign of a product is an order-type invariant
        p = a * b
        return (p > 0) - (p < 0)
    if isinstance(e, ast.Compare):
        left = evaluate(e.left, st)
        for op, c in zip(e.ops, e.comparators):
            right = evaluate(c, st)
            if isinstance(op, (ast.Is, ast.IsNot)):
                r = (left is right) if (left is None or right is None) else (left == right)
                r = r if isinstance(op, ast.Is) else not r
            elif isinstance(op, (ast.Eq, ast.NotEq)):
                r = (left == right) if isinstance(op, ast.Eq) else (left != right)
            else:
                if left is None or right is None:
                    raise TypeError("None in an order comparison")
                if isinstance(e.left, ast.BinOp) and not (isinstance(c, ast.Constant) and c.value == 0):
                    raise Unknown("a product compared with something other than 0")
                r = {ast.Lt: left < right, ast.LtE: left <= right, ast.Gt: left > right, ast.GtE: left >= right}[type(op)]
            if not r:
                return False
            left = right
        return True
    if isinstance(e, ast.Call) and isinstance(e.func, ast.Name) and e.func.id == "isinstance" and len(e.args) == 2:
        names = {ast.unparse(x) for x in (e.args[1].elts if isinstance(e.args[1], ast.Tuple) else [e.args[1]])}
        if names <= {"slice", "int"}:
            return "slice" in names
    raise Unknown(ast.unparse(e)[:60])


def selects_something(st: Dict[str, Optional[int]]) -> Optional[int]:
    """A width the bounds fit in for which Python's slice selects at least one bit; None if there is none (up to 8)."""
    if st["step"] == 0:
        return None
    for w in range(1, 9):
        if any(st[k] is not None and abs(st[k]) > w for k in ("start", "stop")):
            continue
        if len(range(*slice(st["start"], st["stop"], st["step"]).indices(w))) > 0:
            return w
    return None


def _reachable(repo: Repo, entry: FuncInfo, depth: int = 2):
    """(function, call-site conditions in the entry's terms) for the entry and the repository functions it calls."""
    out = [(entry, [])]
    seen = {entry.site}
    work = [(entry, [], 0)]
    while work:
        fi, conds, d = work.pop()
        if d >= depth:
            continue
        for c in au.calls_in(fi.node):
            callee = repo.resolve_call(c, fi)
            if not isinstance(callee, FuncInfo) or callee.site in seen or not callee.file.rel.startswith("hdl21/"):
                continue
            seen.add(callee.site)
            cc = conds + [(shared.prov(fi.node, t), pol) for t, pol in shared.path_conditions(fi.node, c)]
            out.append((callee, cc))
            work.append((callee, cc, d + 1))
    return out


def early_rejections(repo: Repo, R, rule: str, entries: List[FuncInfo]):
    noret = noreturn_set(repo)
    # self-check: the evaluator and the oracle on a known-bad test (the `0`-bound slip) and a known-good one
    bad_t = ast.parse("not (i.start is None or i.stop is None or i.start * i.stop < 0) and i.step is None and i.start >= i.stop", mode="eval").body
    st0 = {"start": 0, "stop": -1, "step": None}
    if not (evaluate(bad_t, st0) and selects_something(st0)):
        raise AnalysisError("self-check failed: the order-type evaluator does not reject its positive sample `x[0:-1]`")
    n_fn = n_val = 0
    for entry in entries:
        for fi, site_conds in _reachable(repo, entry):
            n_fn += 1
            for leaf in shared.raising_leaves(fi.node, noret):
                conds = list(site_conds) + [(shared.prov(fi.node, t), pol) for t, pol in shared.path_conditions(fi.node, leaf)]
                if not any(mentions_fields(t) for t, _p in conds):
                    continue
                n_val += 1
                witness = None
                for t_, s_, e_ in itertools.product(REPS, REPS, REPS):
                    st = {"start": s_, "stop": e_, "step": t_}
                    try:
                        reached = True
                        for t, pol in conds:
                            if not mentions_fields(t):
                                try:
                                    v = evaluate(t, st)
                                except Unknown:
                                    continue  # a test on something else (the parent's kind): may hold
                            else:
                                v = evaluate(t, st)
                            if bool(v) != pol:
                                reached = False
                                break
                    except TypeError:
                        continue  # the test itself raises on this state (None compared): not this leaf
                    except Unknown as u:
                        raise AnalysisError(f"idiom-unknown: {fi.at(leaf)}: a construction-time test on the slice bounds uses {u}; only order, sign and None tests are decided")
                    if not reached:
                        continue
                    w = selects_something(st)
                    if w is not None:
                        witness = (st, w)
                        break
                txt = ""
                if witness:
                    st, w = witness
                    txt = "x[" + ":".join("" if st[k] is None else str(st[k]) for k in (("start", "stop") if st["step"] is None else FIELDS)) + "]"
                    txt = f"`{txt}` is refused, though it selects {len(range(*slice(st['start'], st['stop'], st['step']).indices(w)))} bit(s) of a {w}-bit parent"
                R.check(witness is None, rule, key_of(fi, f"early-rejection::{ast.unparse(leaf)[:40]}"), fi.at(leaf),
                        f"a range refused when the slice is built (before any width is known) selects nothing for every width its bounds fit in: {witness is None}" + (f" — {txt}" if txt else ""),
                        why="a non-empty unit-step range (`x[0:-1]`: all but the top bit) is rejected on every kind of parent")
    R.note(f"construction-time rejections: {n_fn} functions reachable from {[e.qual for e in entries]}, {n_val} raise(s) that depend on the bounds of the range")
